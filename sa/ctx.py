"""Per-run bookkeeping: rule instances, findings, floors, evidence."""
from __future__ import annotations

import json
import os
from dataclasses import dataclass, field

from .core import AnalysisError, Finding, Program, norm, qual_of

VERIF = os.path.dirname(os.path.dirname(os.path.abspath(__file__)))
KNOWN_FILE = os.path.join(VERIF, "known_findings.json")


def load_known() -> dict:
    """key -> what.  Only entries under "known" suppress; "fixed" entries never do."""
    try:
        with open(KNOWN_FILE) as fp:
            data = json.load(fp)
    except FileNotFoundError:
        return {}
    out = {}
    for e in data.get("known", []):
        out[e["key"]] = e.get("what", e.get("id", ""))
    return out


@dataclass
class Instance:
    rule: str
    where: str
    what: str
    verdict: str  # ok | violation | info
    nontrivial: bool = True

    def as_dict(self):
        return {
            "rule": self.rule,
            "where": self.where,
            "what": self.what,
            "verdict": self.verdict,
        }


class RunCtx:
    def __init__(self, prop: str, tier: str, program: Program):
        self.prop = prop
        self.tier = tier
        self.program = program
        self.rules: dict[str, str] = {}  # rule id -> description
        self.floors: dict[str, int] = {}
        self.instances: list[Instance] = []
        self.findings: list[Finding] = []
        self.notes: list[str] = []
        self.not_decided: list[str] = []
        self.units_consulted: set = set()

    # ---- declaring ---------------------------------------------------
    def rule(self, rid: str, description: str, floor: int = 1) -> str:
        self.rules[rid] = description
        self.floors[rid] = floor
        return rid

    def where(self, node) -> str:
        m = getattr(node, "_module", None)
        rel = m.rel if m else "?"
        if m:
            self.units_consulted.add(rel)
        return f"{rel}:{getattr(node, 'lineno', 0)}:{qual_of(node)}"

    def ok(self, rid: str, node, what: str, nontrivial=True) -> None:
        self.instances.append(Instance(rid, self.where(node), what, "ok", nontrivial))

    def info(self, rid: str, node, what: str) -> None:
        self.instances.append(Instance(rid, self.where(node), what, "info", False))

    def bad(self, f: Finding) -> None:
        self.instances.append(
            Instance(f.rule, f"{f.unit}:{f.line}:{f.qual}", f"{f.stmt} :: {f.message}", "violation")
        )
        # de-duplicate by key (finally copies etc.)
        if all(g.key != f.key for g in self.findings):
            self.findings.append(f)

    def note(self, text: str) -> None:
        self.notes.append(text)

    # ---- closing -----------------------------------------------------
    def check_floors(self) -> None:
        counts: dict[str, int] = {}
        for i in self.instances:
            if i.verdict in ("ok", "violation"):
                counts[i.rule] = counts.get(i.rule, 0) + 1
        violated = {i.rule for i in self.instances if i.verdict == "violation"}
        for rid, floor in self.floors.items():
            if rid in violated:
                continue  # a reported violation may legitimately cut the rule's enumeration short
            if counts.get(rid, 0) < floor:
                raise AnalysisError(
                    f"rule {rid} matched {counts.get(rid, 0)} instance(s), below its "
                    f"hand-confirmed floor {floor}: anchors moved or matcher broken"
                )

    def classify(self, known: dict):
        violations, knowns = [], []
        for f in self.findings:
            if f.key in known:
                knowns.append((f, known[f.key]))
            else:
                violations.append(f)
        return violations, knowns

    def evidence(self, seed, wall, violations, knowns, selftest) -> dict:
        decided = [i for i in self.instances if i.verdict in ("ok", "violation")]
        distinct = {(i.rule, i.where, i.what) for i in decided if i.nontrivial}
        vio_keys = {f.key for f in violations}
        discharged = sum(1 for i in decided if i.verdict == "ok")
        # known findings are obligations that are *not* discharged
        samples = [i.as_dict() for i in self.instances][:400]
        per_rule = {}
        for i in decided:
            d = per_rule.setdefault(i.rule, {"instances": 0, "ok": 0, "violation": 0})
            d["instances"] += 1
            d[i.verdict] += 1
        for rid in self.rules:
            per_rule.setdefault(rid, {"instances": 0, "ok": 0, "violation": 0})
            per_rule[rid]["floor"] = self.floors[rid]
            per_rule[rid]["description"] = self.rules[rid]
        digests = self.program.digests()
        cov = {
            "explanation": (
                "Static analysis of the current working tree (ast + hand-built CFG / call graph; "
                "no relay code is imported or executed). Each rule below is a structural necessary "
                "condition of the property, decided on every path / call site it quantifies over; "
                "the behaviour as a whole is not decided. Rules: "
                + "; ".join(f"{k}: {v}" for k, v in self.rules.items())
            ),
            "obligations": len(decided),
            "discharged": discharged,
            "evaluations": len(decided),
            "distinct_nontrivial": len(distinct),
            "rule": (
                "one evaluation = one rule instance (a call site, path obligation, sink hole, table row) "
                "found in the parsed tree; non-trivial = the instance required a decision about a concrete "
                "construct (informational listings are excluded); distinct by (rule, location, obligation text)"
            ),
            "samples": samples,
            "rules": per_rule,
            "units_analysed": len(digests),
            "units_consulted": sorted(self.units_consulted),
            "unit_digests": digests,
            "known_findings_reported": [
                {"key": f.key, "what": what} for f, what in knowns
            ],
            "violations_reported": [f.as_dict() for f in violations],
            "not_decided": self.not_decided,
            "notes": self.notes,
            "selftest": selftest,
            "exhaustive": True,
        }
        return {
            "property_id": self.prop,
            "tier": self.tier,
            "seed": int(seed),
            "level": "other",
            "coverage": cov,
            "assumptions": [
                "Python semantics of the constructs modelled by the CFG builder (sa/cfg.py); "
                "context managers propagate exceptions; every call/await/subscript may raise",
                "third-party engines (SQLite/PostgreSQL/LMDB, pydantic, coincurve, rapidjson) behave as documented",
                "only the code under /repo/nostr_relay and aionostr/event.py is analysed; operator-supplied "
                "plug-in classes named in configuration are outside the closed world",
            ],
            "wall_s": round(wall, 3),
            "violations": len(violations),
        }
