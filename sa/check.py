"""CLI: ``python3-vt -m sa.check <Cxx> [--tier quick|thorough] [--explain <replay.json>]``.

exit 0  every rule instance of the property held (known findings are printed as
        ``KNOWN-FINDING:`` lines and do not fail the run)
exit 1  ``VIOLATION property=<id> replay=<path>`` - a construct violates a rule
exit 2  ``ANALYSIS-ERROR`` - the checker could not build its model (never a pass)
"""
from __future__ import annotations

import argparse
import importlib
import json
import os
import sys
import time
import traceback

HERE = os.path.dirname(os.path.abspath(__file__))
VERIF = os.path.dirname(HERE)


def _ensure_networkx() -> None:
    try:
        import networkx  # noqa: F401
    except ImportError:  # fall back to the offline wheel (pure python, zip-importable)
        import glob

        for whl in sorted(glob.glob("/opt/veriftools/wheels/networkx-*.whl")):
            sys.path.insert(0, whl)
            break
        import networkx  # noqa: F401


_ensure_networkx()

from .core import AnalysisError, Finding, Program  # noqa: E402
from .ctx import RunCtx, load_known  # noqa: E402

ALL = [f"C{i:02d}" for i in range(1, 21)]


def run_property(prop: str, tier: str, program: Program = None, quiet=False) -> RunCtx:
    program = program or Program()
    ctx = RunCtx(prop, tier, program)
    mod = importlib.import_module(f"sa.props.{prop.lower()}")
    mod.run(program, ctx)
    ctx.check_floors()
    return ctx


def main(argv=None) -> int:
    ap = argparse.ArgumentParser()
    ap.add_argument("prop")
    ap.add_argument("--tier", default=os.environ.get("VERIF_TIER", "quick"))
    ap.add_argument("--explain", default=None)
    ap.add_argument("--no-evidence", action="store_true")
    args = ap.parse_args(argv)
    prop = args.prop.upper()
    tier = args.tier if args.tier in ("quick", "thorough") else "quick"
    seed = int(os.environ.get("VERIF_SEED", "0") or 0)
    t0 = time.time()

    if args.explain:
        return explain(prop, args.explain)

    try:
        program = Program()
        ctx = run_property(prop, tier, program)
        from . import selftest

        st = selftest.run_for(prop, tier, program)
        if tier == "thorough":
            # sensitivity / regression figures - recorded in the evidence, never part of the verdict
            from . import automut, corpus

            try:
                st["seeded_and_benign_corpus"] = corpus.run_for(prop, program)
                st["summary"] += " corpus=" + st["seeded_and_benign_corpus"].get("summary", "-").replace(",", "/")
            except Exception as e:  # scratch-copy trouble (disk, git) must not turn into a verdict
                st["seeded_and_benign_corpus"] = {"summary": f"not run: {type(e).__name__}: {e}"[:200]}
            try:
                from . import autoequiv

                st["equivalence_transformations"] = autoequiv.run_for(prop, program)
                st["summary"] += " autoequiv=" + st["equivalence_transformations"].get("summary", "-").replace(",", "/")
            except Exception as e:
                st["equivalence_transformations"] = {"summary": f"not run: {type(e).__name__}: {e}"[:200]}
            try:
                st["operator_mutants"] = automut.run_for(prop, program, per_anchor=60)
                st["operator_mutants"].pop("_all_survivors", None)
            except Exception as e:
                st["operator_mutants"] = {"summary": f"not run: {type(e).__name__}: {e}"[:200]}
    except AnalysisError as e:
        print(f"ANALYSIS-ERROR property={prop} {e}")
        return 2
    except Exception:  # a crash is never a verdict
        traceback.print_exc()
        print(f"ANALYSIS-ERROR property={prop} internal error")
        return 2

    known = load_known()
    violations, knowns = ctx.classify(known)
    wall = time.time() - t0
    ev = ctx.evidence(seed, wall, violations, knowns, st)
    evdir = os.path.join(VERIF, "evidence")
    if not args.no_evidence:
        os.makedirs(evdir, exist_ok=True)
        with open(os.path.join(evdir, f"{prop}.json"), "w") as fp:
            json.dump(ev, fp, indent=1, sort_keys=False)

    print(
        f"[{prop}] tier={tier} units={len(program.modules)} rules={len(ctx.rules)} "
        f"instances={len(ctx.instances)} findings={len(ctx.findings)} "
        f"known={len(knowns)} violations={len(violations)} selftest={st.get('summary','-')} "
        f"wall={wall:.2f}s"
    )
    for f, what in knowns:
        print(f"KNOWN-FINDING: property={prop} {what} [{f.unit}:{f.qual}: {f.stmt}]")
    if violations:
        rdir = os.path.join(evdir, "replay")
        os.makedirs(rdir, exist_ok=True)
        for i, f in enumerate(violations):
            path = os.path.join(rdir, f"{prop}-{i}.json")
            with open(path, "w") as fp:
                json.dump(f.as_dict(), fp, indent=1)
            print(f"  {f.unit}:{f.line} {f.qual}: [{f.rule}] {f.message}")
            print(f"    construct: {f.stmt}")
            print(f"VIOLATION property={prop} replay={path}")
        return 1
    return 0


def explain(prop: str, path: str) -> int:
    with open(path) as fp:
        want = json.load(fp)
    try:
        ctx = run_property(prop, "quick")
    except AnalysisError as e:
        print(f"ANALYSIS-ERROR property={prop} {e}")
        return 2
    for f in ctx.findings:
        if f.key == want.get("key"):
            print(json.dumps(f.as_dict(), indent=1))
            print(f"VIOLATION property={prop} replay={path}")
            return 1
    print(f"finding {want.get('key')} is no longer reported on the current tree")
    return 0


if __name__ == "__main__":
    sys.exit(main())
