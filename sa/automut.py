"""Systematic (operator-based) mutation sensitivity of the property checks - thorough tier only.

For every anchor function of a property a set of syntactic operators is applied, one edit at a time, to the
function's AST; the edited function is unparsed and spliced into the module source *in memory*.  Each mutant
that still compiles is analysed by the property's rules.  Not every syntactic mutant breaks the property, so
an undetected mutant is not a failure: the result is a sensitivity figure plus the list of survivors, which is
what a reviewer (and the author) reads to find rule gaps.  Nothing is written to disk; /repo is never touched.
"""
from __future__ import annotations

import ast
import copy
from .core import clone as _clone
import importlib
import os
from concurrent.futures import ProcessPoolExecutor

from .core import AnalysisError, Program
from .ctx import RunCtx

FLIP = {ast.Lt: ast.GtE, ast.LtE: ast.Gt, ast.Gt: ast.LtE, ast.GtE: ast.Lt, ast.Eq: ast.NotEq, ast.NotEq: ast.Eq,
        ast.In: ast.NotIn, ast.NotIn: ast.In, ast.Is: ast.IsNot, ast.IsNot: ast.Is}
WEAKEN = {ast.Lt: ast.LtE, ast.LtE: ast.Lt, ast.Gt: ast.GtE, ast.GtE: ast.Gt}


def _mutations(fn: ast.AST):
    """yield (description, mutated copy of fn)"""
    nodes = list(ast.walk(fn))
    for idx, n in enumerate(nodes):
        # 1. delete a statement (replace by pass) - not defs, not returns of values used by callers' unpacking
        if isinstance(n, (ast.Expr, ast.Assign, ast.AugAssign, ast.Raise, ast.Delete, ast.Break, ast.Continue)) and n is not fn:
            m = _clone(fn)
            tgt = list(ast.walk(m))[idx]
            par = _parent_of(m, tgt)
            if par is None:
                continue
            for field in ("body", "orelse", "finalbody"):
                seq = getattr(par, field, None)
                if isinstance(seq, list) and tgt in seq:
                    seq[seq.index(tgt)] = ast.copy_location(ast.Pass(), tgt)
                    yield f"L{n.lineno} delete `{_short(n)}`", m
        # 2. flip / weaken a comparison
        if isinstance(n, ast.Compare) and len(n.ops) == 1:
            for table, label in ((FLIP, "flip"), (WEAKEN, "boundary")):
                new = table.get(type(n.ops[0]))
                if new is None:
                    continue
                m = _clone(fn)
                tgt = list(ast.walk(m))[idx]
                tgt.ops = [new()]
                yield f"L{n.lineno} {label} `{_short(n)}`", m
        # 3. negate an if/while test
        if isinstance(n, (ast.If, ast.While)) and not (isinstance(n.test, ast.Constant)):
            m = _clone(fn)
            tgt = list(ast.walk(m))[idx]
            tgt.test = ast.UnaryOp(op=ast.Not(), operand=tgt.test)
            ast.fix_missing_locations(m)
            yield f"L{n.lineno} negate test `{_short(n.test)}`", m
        # 4. drop one operand of and/or
        if isinstance(n, ast.BoolOp) and len(n.values) >= 2:
            for k in range(len(n.values)):
                m = _clone(fn)
                tgt = list(ast.walk(m))[idx]
                vals = [v for i, v in enumerate(tgt.values) if i != k]
                repl = vals[0] if len(vals) == 1 else ast.BoolOp(op=tgt.op, values=vals)
                _replace(m, tgt, repl)
                yield f"L{n.lineno} drop operand {k} of `{_short(n)}`", m
        # 5. `is not None` -> truthiness
        if isinstance(n, ast.Compare) and len(n.ops) == 1 and isinstance(n.ops[0], ast.IsNot) and isinstance(n.comparators[0], ast.Constant) and n.comparators[0].value is None:
            m = _clone(fn)
            tgt = list(ast.walk(m))[idx]
            _replace(m, tgt, tgt.left)
            yield f"L{n.lineno} truthiness instead of `{_short(n)}`", m
        # 6. remove an await (call result discarded un-awaited is a different bug class; skip) / drop a `not`
        if isinstance(n, ast.UnaryOp) and isinstance(n.op, ast.Not):
            m = _clone(fn)
            tgt = list(ast.walk(m))[idx]
            _replace(m, tgt, tgt.operand)
            yield f"L{n.lineno} drop `not` in `{_short(n)}`", m
        # 7. finally -> straight line
        if isinstance(n, ast.Try) and n.finalbody and not n.handlers:
            m = _clone(fn)
            tgt = list(ast.walk(m))[idx]
            par = _parent_of(m, tgt)
            for field in ("body", "orelse", "finalbody"):
                seq = getattr(par, field, None)
                if isinstance(seq, list) and tgt in seq:
                    i = seq.index(tgt)
                    seq[i:i + 1] = tgt.body + tgt.finalbody
                    yield f"L{n.lineno} try/finally flattened", m
        # 9. swallow: wrap a call statement in try/except Exception: pass (error discipline)
        if isinstance(n, (ast.Expr, ast.Assign)) and n is not fn and any(isinstance(c, ast.Call) for c in ast.walk(n)) and not (isinstance(n, ast.Expr) and isinstance(n.value, ast.Constant)):
            m = _clone(fn)
            tgt = list(ast.walk(m))[idx]
            par = _parent_of(m, tgt)
            for field in ("body", "orelse", "finalbody"):
                seq = getattr(par, field, None)
                if isinstance(seq, list) and tgt in seq and isinstance(tgt, ast.Expr):
                    h = ast.ExceptHandler(type=ast.Name(id="Exception", ctx=ast.Load()), name=None, body=[ast.Pass()])
                    seq[seq.index(tgt)] = ast.Try(body=[tgt], handlers=[h], orelse=[], finalbody=[])
                    ast.fix_missing_locations(m)
                    yield f"L{n.lineno} swallow errors of `{_short(n)}`", m
        # 10. move the last statement of a with-block behind the block (transaction / lock scope)
        if isinstance(n, (ast.With, ast.AsyncWith)) and len(n.body) >= 2:
            m = _clone(fn)
            tgt = list(ast.walk(m))[idx]
            par = _parent_of(m, tgt)
            for field in ("body", "orelse", "finalbody"):
                seq = getattr(par, field, None)
                if isinstance(seq, list) and tgt in seq:
                    last = tgt.body.pop()
                    seq.insert(seq.index(tgt) + 1, last)
                    yield f"L{n.lineno} move `{_short(last)}` out of the with-block", m
        # 11. swap two adjacent simple statements (ordering of effects)
        for field in ("body", "orelse", "finalbody"):
            seq = getattr(n, field, None)
            if isinstance(seq, list) and not isinstance(n, ast.ClassDef):
                for k in range(len(seq) - 1):
                    a, b = seq[k], seq[k + 1]
                    if isinstance(a, (ast.Expr, ast.Assign, ast.AugAssign)) and isinstance(b, (ast.Expr, ast.Assign, ast.AugAssign, ast.If)) \
                            and not (isinstance(a, ast.Expr) and isinstance(a.value, ast.Constant)):
                        m = _clone(fn)
                        tgt = list(ast.walk(m))[idx]
                        sq = getattr(tgt, field)
                        sq[k], sq[k + 1] = sq[k + 1], sq[k]
                        yield f"L{a.lineno} swap `{_short(a, 30)}` <-> `{_short(b, 30)}`", m
        # 12. `return <value>` -> `return None` in non-generator code
        if isinstance(n, ast.Return) and n.value is not None and not (isinstance(n.value, ast.Constant) and n.value.value is None):
            m = _clone(fn)
            tgt = list(ast.walk(m))[idx]
            tgt.value = None
            yield f"L{n.lineno} return nothing instead of `{_short(n.value)}`", m
        # 13. forget an await on a statement-level call
        if isinstance(n, ast.Expr) and isinstance(n.value, ast.Await) and isinstance(n.value.value, ast.Call):
            m = _clone(fn)
            tgt = list(ast.walk(m))[idx]
            tgt.value = tgt.value.value
            yield f"L{n.lineno} forgotten await `{_short(n)}`", m
        # 8. small integer constants +-1
        if isinstance(n, ast.Constant) and isinstance(n.value, int) and not isinstance(n.value, bool) and 0 <= n.value <= 64:
            m = _clone(fn)
            tgt = list(ast.walk(m))[idx]
            tgt.value = n.value + 1
            yield f"L{n.lineno} constant {n.value} -> {n.value + 1}", m


def _short(n, k=50):
    try:
        s = " ".join(ast.unparse(n).split())
    except Exception:
        s = type(n).__name__
    return s if len(s) <= k else s[: k - 1] + "…"


def _parent_of(root, node):
    for p in ast.walk(root):
        for c in ast.iter_child_nodes(p):
            if c is node:
                return p
    return None


def _replace(root, old, new):
    for p in ast.walk(root):
        for field, val in ast.iter_fields(p):
            if val is old:
                setattr(p, field, new)
                ast.fix_missing_locations(root)
                return
            if isinstance(val, list):
                for i, x in enumerate(val):
                    if x is old:
                        val[i] = new
                        ast.fix_missing_locations(root)
                        return


def _splice(src: str, fn, new_fn) -> str:
    lines = src.splitlines(keepends=True)
    start = min([fn.lineno] + [d.lineno for d in fn.decorator_list]) - 1
    end = fn.end_lineno
    indent = " " * fn.col_offset
    body = ast.unparse(new_fn)
    body = "".join(indent + ln + "\n" for ln in body.splitlines())
    return "".join(lines[:start]) + body + "".join(lines[end:])


def _analyse(prop, rel, new_src, base_keys):
    try:
        compile(new_src, rel, "exec")
    except SyntaxError:
        return "uncompilable", ""
    try:
        global _PROGRAM
        if _PROGRAM is None:
            _PROGRAM = Program()
        program = _PROGRAM.derive({rel: new_src})
        ctx = RunCtx(prop, "quick", program)
        importlib.import_module(f"sa.props.{prop.lower()}").run(program, ctx)
        ctx.check_floors()
        new = [f.rule for f in ctx.findings if f.key not in base_keys]
        return ("detected" if new else "survived"), ",".join(sorted(set(new)))
    except AnalysisError as e:
        return "analysis-error", str(e)[:80]
    except Exception as e:  # a crash of a rule on odd input is a checker bug: surface it
        return "checker-crash", f"{type(e).__name__}: {e}"[:120]


_PROGRAM = None


def _share(args):
    """worker: regenerate the mutants of one anchor and analyse the share k (mod W) of them"""
    global _PROGRAM
    prop, qual, k, W, base_keys, per_anchor = args
    if _PROGRAM is None:
        _PROGRAM = Program()
    fn = _PROGRAM.func_opt(qual)
    if fn is None:
        return []
    m = fn._module
    muts = list(_mutations(fn))
    if len(muts) > per_anchor:  # deterministic thinning of very large functions
        step = len(muts) / per_anchor
        muts = [muts[int(i * step)] for i in range(per_anchor)]
    out = []
    for i, (desc, mfn) in enumerate(muts):
        if i % W != k:
            continue
        try:
            new_src = _splice(m.src, fn, mfn)
        except Exception:
            continue
        st, detail = _analyse(prop, m.rel, new_src, base_keys)
        out.append((f"{qual.split(':')[1]} {desc}", st, detail))
    return out


def run_for(prop: str, program: Program, workers: int = 16, per_anchor: int = 90) -> dict:
    mod = importlib.import_module(f"sa.props.{prop.lower()}")
    anchors = [q for q in getattr(mod, "ANCHORS", []) if program.func_opt(q) is not None and not program.func_opt(q)._module.rel.startswith("<dep>")]
    if not anchors:
        return {"summary": "no anchors declared"}
    ctx = RunCtx(prop, "quick", program)
    mod.run(program, ctx)
    base_keys = {f.key for f in ctx.findings}
    W = max(1, workers // max(1, min(len(anchors), workers)))
    W = max(W, 2)
    jobs = [(prop, q, k, W, base_keys, per_anchor) for q in anchors for k in range(W)]
    results = []
    with ProcessPoolExecutor(max_workers=workers) as ex:
        for part in ex.map(_share, jobs):
            results.extend(part)
    tally: dict = {}
    for _, st, _ in results:
        tally[st] = tally.get(st, 0) + 1
    survivors = [d for d, st, _ in results if st == "survived"]
    crashes = [f"{d}: {x}" for d, st, x in results if st == "checker-crash"]
    return {
        "summary": ",".join(f"{k}={v}" for k, v in sorted(tally.items())),
        "mutants": len(results),
        "anchors": anchors,
        "detected": tally.get("detected", 0) + tally.get("analysis-error", 0),
        "survived": len(survivors),
        "note": "syntactic mutants (statement deletion, comparison flip/boundary, negated test, dropped operand, truthiness for `is not None`, dropped `not`, "
                "flattened try/finally, small constant +1, swallowed exception, statement moved out of a with-block, adjacent statements swapped, value-less return, forgotten await) of the anchor functions; a survivor is not necessarily property-breaking - this is a sensitivity "
                "figure and a gap-finding aid, not a pass/fail criterion",
        "survivors_sample": survivors[:80],
        "_all_survivors": survivors,
        "checker_crashes": crashes[:10],
    }


def main(argv=None):
    import sys
    from . import check  # noqa: F401

    program = Program()
    for p in (argv or sys.argv[1:]):
        r = run_for(p.upper(), program)
        print(f"[{p}] {r.get('summary')}")
        for s in r.pop("_all_survivors", []):
            print("   survived:", s)
        for s in r.get("checker_crashes", []):
            print("   CRASH:", s)


if __name__ == "__main__":
    main()
