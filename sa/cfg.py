"""Hand-built statement-level CFG for the statement kinds nostr_relay uses.

Nodes are integers; ``g.nodes[n]`` carries ``kind`` (entry, exit, raise, cancel,
stmt, test, loop, with, with_exit, handler, reraise) and ``ast`` (the statement
or ExceptHandler).  ``finally`` bodies are duplicated per continuation, so one
AST statement may own several nodes (``nodes_of``).

Edges carry ``kinds`` - a set drawn from
  n       fall-through
  t / f   branch taken / not taken (loop: body entered / loop exhausted)
  exc     an ``Exception`` raised by the source node
  cancel  a ``BaseException`` that is not an ``Exception`` (CancelledError,
          GeneratorExit) raised at an ``await``/``yield`` point
"""
from __future__ import annotations

import ast
from dataclasses import dataclass
from typing import Callable, Iterable, Optional

import networkx as nx

from .core import AnalysisError, FuncNode, dotted, own_nodes

CANCEL_NAMES = {"BaseException", "CancelledError", "GeneratorExit", "KeyboardInterrupt"}
CATCH_ALL_EXC = {"Exception", "BaseException"}


def handler_names(h: ast.ExceptHandler) -> list:
    if h.type is None:
        return []
    if isinstance(h.type, ast.Tuple):
        return [dotted(e) for e in h.type.elts]
    return [dotted(h.type)]


def catches(h: ast.ExceptHandler, kind: str) -> str:
    """'all' | 'some' | 'none' - does handler ``h`` stop an exception of ``kind``."""
    if h.type is None:
        return "all"
    lasts = {n.split(".")[-1] for n in handler_names(h)}
    if kind == "exc":
        if lasts & CATCH_ALL_EXC:
            return "all"
        if lasts and lasts <= (CANCEL_NAMES - {"BaseException"}):
            return "none"
        return "some"
    # cancel
    if lasts & {"BaseException", "CancelledError"}:
        return "all"
    return "none"


# calls assumed total (never raise): logging and a few pure builtins.  Stated in the evidence
# assumptions; without it every handler that logs before assigning would look like a failure point.
TOTAL_CALL_PREFIXES = ("log.", "self.log.", "logger.", "logging.")
TOTAL_CALLS = {"str", "repr", "len", "max", "min", "isinstance", "bool", "time", "perf_counter", "id", "type", "print"}


def _total_call(call) -> bool:
    nm = dotted(call.func)
    if nm.startswith(TOTAL_CALL_PREFIXES) and nm.split(".")[-1] in ("debug", "info", "warning", "error", "exception", "critical", "getLogger", "log"):
        return True
    return nm in TOTAL_CALLS


def may_raise_kinds(stmt) -> set:
    """Which exception kinds the CFG node of ``stmt`` can emit."""
    kinds = set()
    if isinstance(stmt, (ast.Raise, ast.Assert)):
        kinds.add("exc")
    if isinstance(stmt, (ast.For, ast.With)):
        kinds.add("exc")
    if isinstance(stmt, (ast.AsyncFor, ast.AsyncWith)):
        kinds |= {"exc", "cancel"}
    if isinstance(stmt, (ast.Import, ast.ImportFrom)):
        kinds.add("exc")
    if isinstance(stmt, ast.Delete):
        kinds.add("exc")
    for n in own_nodes(stmt):
        if isinstance(n, ast.Call):
            if not _total_call(n):
                kinds.add("exc")
        elif isinstance(n, ast.Await):
            kinds |= {"exc", "cancel"}
        elif isinstance(n, ast.Subscript) and isinstance(n.ctx, (ast.Load, ast.Del)):
            kinds.add("exc")
        elif isinstance(n, (ast.Yield, ast.YieldFrom)):
            kinds.add("cancel")
        elif isinstance(n, ast.BinOp) and isinstance(n.op, (ast.Mod, ast.Div, ast.FloorDiv)):
            kinds.add("exc")
        elif isinstance(n, (ast.Starred,)):
            kinds.add("exc")
    if isinstance(stmt, ast.Assign):
        # tuple unpacking of a non-literal
        for t in stmt.targets:
            if isinstance(t, (ast.Tuple, ast.List)) and not isinstance(
                stmt.value, (ast.Tuple, ast.List)
            ):
                kinds.add("exc")
    return kinds


@dataclass
class Ctx:
    brk: Optional[Callable[[], int]]
    cont: Optional[Callable[[], int]]
    ret: Callable[[], int]
    exc: Callable[[str], list]
    rgx: Optional[Callable[[], int]] = None  # exit of the enclosing inlined region (normalize.Region)


class CFG:
    def __init__(self, fn):
        if not isinstance(fn, FuncNode):
            raise AnalysisError("CFG needs a function definition")
        self.fn = fn
        self.g = nx.DiGraph()
        self._n = 0
        self._by_ast: dict[int, list] = {}
        self.entry = self._new("entry")
        self.exit = self._new("exit")
        self.raise_exit = self._new("raise")
        self.cancel_exit = self._new("cancel")
        ctx = Ctx(
            None,
            None,
            lambda: self.exit,
            lambda kind: [self.raise_exit if kind == "exc" else self.cancel_exit],
        )
        first = self._seq(fn.body, self.exit, ctx)
        self._edge(self.entry, first, "n")

    # ---- construction ------------------------------------------------
    def _new(self, kind, node=None) -> int:
        self._n += 1
        n = self._n
        self.g.add_node(n, kind=kind, ast=node)
        if node is not None:
            self._by_ast.setdefault(id(node), []).append(n)
        return n

    def _edge(self, a, b, kind) -> None:
        if self.g.has_edge(a, b):
            self.g[a][b]["kinds"].add(kind)
        else:
            self.g.add_edge(a, b, kinds={kind})

    def _raises(self, n, stmt, ctx: Ctx, kinds=None) -> None:
        for k in (kinds if kinds is not None else may_raise_kinds(stmt)):
            for tgt in ctx.exc(k):
                self._edge(n, tgt, k)

    def _seq(self, stmts, succ, ctx) -> int:
        for s in reversed(stmts):
            succ = self._stmt(s, succ, ctx)
        return succ

    def _stmt(self, s, succ, ctx: Ctx) -> int:
        if isinstance(s, ast.If):
            n = self._new("test", s)
            self._edge(n, self._seq(s.body, succ, ctx), "t")
            self._edge(n, self._seq(s.orelse, succ, ctx), "f")
            self._raises(n, s, ctx)
            return n
        if type(s).__name__ == "Match":
            # structural pattern matching that the normaliser could not turn into an if-chain: one branch per case, in order
            n = self._new("test", s)
            nxt = succ
            heads = []
            for case in s.cases:
                heads.append(self._seq(case.body, succ, ctx))
            for h in heads:
                self._edge(n, h, "t")
            irrefutable = any(isinstance(c.pattern, ast.MatchAs) and c.pattern.pattern is None and c.guard is None for c in s.cases)
            if not irrefutable:
                self._edge(n, nxt, "f")
            self._raises(n, s, ctx)
            return n
        if isinstance(s, (ast.While, ast.For, ast.AsyncFor)):
            n = self._new("loop", s)
            inner = Ctx(lambda: succ, lambda: n, ctx.ret, ctx.exc, ctx.rgx)
            body = self._seq(s.body, n, inner)
            self._edge(n, body, "t")
            infinite = (
                isinstance(s, ast.While)
                and isinstance(s.test, ast.Constant)
                and bool(s.test.value)
            )
            if not infinite:
                self._edge(n, self._seq(s.orelse, succ, ctx), "f")
            self._raises(n, s, ctx)
            return n
        if isinstance(s, (ast.With, ast.AsyncWith)):
            n = self._new("with", s)
            x = self._new("with_exit", s)
            self._edge(x, succ, "n")
            if isinstance(s, ast.AsyncWith):
                self._raises(x, s, ctx, {"exc", "cancel"})
            else:
                self._raises(x, s, ctx, {"exc"})
            self._edge(n, self._seq(s.body, x, ctx), "n")
            self._raises(n, s, ctx)
            return n
        if isinstance(s, ast.Try) or type(s).__name__ == "TryStar":
            return self._try(s, succ, ctx)
        if isinstance(s, ast.Return):
            n = self._new("stmt", s)
            self._edge(n, ctx.ret(), "n")
            self._raises(n, s, ctx)
            return n
        if isinstance(s, ast.Raise):
            n = self._new("stmt", s)
            kinds = {"exc"}
            if s.exc is None:
                kinds = {"exc", "cancel"}  # bare re-raise of whatever was caught
            self._raises(n, s, ctx, kinds)
            return n
        if isinstance(s, ast.Break):
            n = self._new("stmt", s)
            if ctx.brk is None:
                raise AnalysisError("break outside loop")
            self._edge(n, ctx.brk(), "n")
            return n
        if isinstance(s, ast.Continue):
            n = self._new("stmt", s)
            if ctx.cont is None:
                raise AnalysisError("continue outside loop")
            self._edge(n, ctx.cont(), "n")
            return n
        if type(s).__name__ == "Match":
            raise AnalysisError("match statement not modelled")
        if type(s).__name__ == "Region":
            # body of an inlined helper: `RegionExit` (a former `return`) jumps behind it
            inner = Ctx(ctx.brk, ctx.cont, ctx.ret, ctx.exc, lambda: succ)
            return self._seq(s.body, succ, inner)
        if type(s).__name__ == "RegionExit":
            n = self._new("stmt", s)
            if ctx.rgx is None:
                raise AnalysisError("RegionExit outside a region")
            self._edge(n, ctx.rgx(), "n")
            return n
        n = self._new("stmt", s)
        self._edge(n, succ, "n")
        self._raises(n, s, ctx)
        return n

    def _try(self, t, succ, ctx: Ctx) -> int:
        if t.finalbody:
            memo: dict = {}

            def fin_to(key, target: Callable[[], int]) -> int:
                if key not in memo:
                    memo[key] = self._seq(t.finalbody, target(), ctx)
                return memo[key]

            def fin_exc(kind):
                key = ("exc", kind)
                if key not in memo:
                    p = self._new("reraise", t)
                    for tgt in ctx.exc(kind):
                        self._edge(p, tgt, kind)
                    memo[key] = self._seq(t.finalbody, p, ctx)
                return [memo[key]]

            inner = Ctx(
                (lambda: fin_to("brk", ctx.brk)) if ctx.brk else None,
                (lambda: fin_to("cont", ctx.cont)) if ctx.cont else None,
                lambda: fin_to("ret", ctx.ret),
                fin_exc,
                (lambda: fin_to("rgx", ctx.rgx)) if ctx.rgx else None,
            )
            after = fin_to(("n", succ), lambda: succ)
        else:
            inner = ctx
            after = succ

        h_entries = []
        for h in t.handlers:
            hn = self._new("handler", h)
            self._edge(hn, self._seq(h.body, after, inner), "n")
            h_entries.append((h, hn))

        def body_exc(kind):
            tgts = []
            for h, hn in h_entries:
                c = catches(h, kind)
                if c != "none":
                    tgts.append(hn)
                if c == "all":
                    return tgts
            return tgts + inner.exc(kind)

        body_ctx = Ctx(inner.brk, inner.cont, inner.ret, body_exc, inner.rgx)
        orelse = self._seq(t.orelse, after, inner) if t.orelse else after
        return self._seq(t.body, orelse, body_ctx)

    # ---- queries -----------------------------------------------------
    def nodes_of(self, stmt) -> list:
        return list(self._by_ast.get(id(stmt), []))

    def ast_of(self, n):
        return self.g.nodes[n]["ast"]

    def kind_of(self, n) -> str:
        return self.g.nodes[n]["kind"]

    def stmt_nodes(self, pred: Callable[[ast.AST], bool], kinds=("stmt", "test", "loop", "with")) -> list:
        out = []
        for n, d in self.g.nodes(data=True):
            if d["kind"] in kinds and d["ast"] is not None and pred(d["ast"]):
                out.append(n)
        return out

    def succ(self, n, kinds: Optional[set] = None, avoid_edges=()):
        for m in self.g.successors(n):
            if (n, m) in avoid_edges:
                continue
            ek = self.g[n][m]["kinds"]
            if kinds is None or ek & kinds:
                yield m

    def edge_kinds(self, a, b) -> set:
        return self.g[a][b]["kinds"]

    def reach(
        self,
        srcs: Iterable[int],
        avoid_nodes: Iterable[int] = (),
        avoid_edges: Iterable[tuple] = (),
        kinds: Optional[set] = None,
        avoid_edge_kinds: Optional[dict] = None,
    ) -> set:
        """Forward reachability. ``avoid_edge_kinds`` maps node -> edge kinds that
        are cut when leaving that node (e.g. the false edge of a gate test)."""
        avoid_nodes = set(avoid_nodes)
        avoid_edges = set(avoid_edges)
        avoid_edge_kinds = avoid_edge_kinds or {}
        seen = set()
        todo = [s for s in srcs if s not in avoid_nodes]
        while todo:
            n = todo.pop()
            if n in seen:
                continue
            seen.add(n)
            cut = avoid_edge_kinds.get(n)
            for m in self.g.successors(n):
                if m in avoid_nodes or (n, m) in avoid_edges or m in seen:
                    continue
                ek = self.g[n][m]["kinds"]
                if kinds is not None and not (ek & kinds):
                    continue
                if cut is not None and not (ek - cut):
                    continue
                todo.append(m)
        return seen

    def reaches_backward(self, targets: Iterable[int], kinds: Optional[set] = None) -> set:
        seen = set()
        todo = list(targets)
        while todo:
            n = todo.pop()
            if n in seen:
                continue
            seen.add(n)
            for p in self.g.predecessors(n):
                if p in seen:
                    continue
                if kinds is not None and not (self.g[p][n]["kinds"] & kinds):
                    continue
                todo.append(p)
        return seen

    def _flag_names(self) -> set:
        """synthetic result names of inlined helpers (__ret…/__val…) and the names they are copied into (`query = __ret…`)"""
        names = self.__dict__.get("_flag_names_memo")
        if names is None:
            names = set()
            for n, d in self.g.nodes(data=True):
                s = d["ast"]
                if d["kind"] == "stmt" and isinstance(s, ast.Assign) and len(s.targets) == 1 and isinstance(s.targets[0], ast.Name):
                    t = s.targets[0].id
                    if t.startswith(("__ret", "__val")):
                        names.add(t)
                    elif isinstance(s.value, ast.Name) and s.value.id.startswith(("__ret", "__val")):
                        names.add(t)
                    elif isinstance(s.value, ast.Constant) and (s.value.value is None or isinstance(s.value.value, bool)):
                        # any local that is set to None/True/False somewhere: `x = None … if x is None: continue` is decided on that path
                        names.add(t)
            self.__dict__["_flag_names_memo"] = names
        return names

    def _flag_effect(self, n):
        """[(name, value)] when node n (re)binds tracked names: value 'None' | 'True' | 'False' | ('copy', other) | None (unknown)"""
        memo = self.__dict__.setdefault("_flag_memo", {})
        if n in memo:
            return memo[n]
        res = None
        d = self.g.nodes[n]
        s = d["ast"]
        tracked = self._flag_names()
        if d["kind"] == "stmt" and isinstance(s, ast.Assign) and len(s.targets) == 1 and isinstance(s.targets[0], ast.Name) and s.targets[0].id in tracked:
            v = s.value
            if isinstance(v, ast.Constant) and (isinstance(v.value, bool) or v.value is None):
                res = [(s.targets[0].id, str(v.value))]
            elif isinstance(v, ast.Name) and v.id in tracked:
                res = [(s.targets[0].id, ("copy", v.id))]
            else:
                res = [(s.targets[0].id, None)]
        elif s is not None and d["kind"] in ("stmt", "loop", "with", "handler") and tracked:
            # any other store to a tracked name (loop target, tuple assignment, augmented assignment, with … as) makes it unknown
            stores = []
            tops = []
            if isinstance(s, (ast.For, ast.AsyncFor)):
                tops = [s.target]
            elif isinstance(s, (ast.With, ast.AsyncWith)):
                tops = [i.optional_vars for i in s.items if i.optional_vars is not None]
            elif isinstance(s, ast.Assign):
                tops = s.targets
            elif isinstance(s, (ast.AugAssign, ast.AnnAssign)):
                tops = [s.target]
            elif isinstance(s, ast.ExceptHandler) and s.name:
                stores.append(s.name)
            for t in tops:
                for x in ast.walk(t):
                    if isinstance(x, ast.Name) and x.id in tracked:
                        stores.append(x.id)
            if stores:
                res = [(nm, None) for nm in stores]
        memo[n] = res
        return res

    def _flag_test(self, n):
        """(name, kind, polarity) when node n branches on a tracked name: kind 'truth' (`if x` / `if not x`) or 'none' (`x is None`)"""
        d = self.g.nodes[n]
        s = d["ast"]
        if d["kind"] == "test" and isinstance(s, ast.If):
            t = s.test
            pol = True
            while isinstance(t, ast.UnaryOp) and isinstance(t.op, ast.Not):
                t = t.operand
                pol = not pol
            tracked = self._flag_names()
            if isinstance(t, ast.Name) and t.id in tracked:
                return t.id, "truth", pol
            if isinstance(t, ast.Compare) and len(t.ops) == 1 and isinstance(t.left, ast.Name) and t.left.id in tracked and isinstance(t.comparators[0], ast.Constant) and t.comparators[0].value is None:
                if isinstance(t.ops[0], (ast.Is, ast.Eq)):
                    return t.left.id, "none", pol
                if isinstance(t.ops[0], (ast.IsNot, ast.NotEq)):
                    return t.left.id, "none", not pol
        return None

    def find_path(self, srcs, targets, avoid_nodes=(), kinds=None, avoid_edge_kinds=None, edge_ok=None) -> list:
        """One witness path (list of nodes) or [].  ``edge_ok(n, m, kinds)`` may veto an edge.
        The boolean result flags that the normaliser introduces for inlined helpers (``__ret…``/``__val…``) are tracked along
        the path, so a branch on such a flag is only followed in the direction its known constant value allows."""
        avoid_nodes = set(avoid_nodes)
        targets = set(targets)
        avoid_edge_kinds = avoid_edge_kinds or {}
        has_flags = self.__dict__.get("_has_flags")
        if has_flags is None:
            has_flags = bool(self._flag_names())
            self.__dict__["_has_flags"] = has_flags
        prev = {}
        todo = []
        for s in srcs:
            if s not in avoid_nodes:
                st = (s, frozenset())
                prev[st] = None
                todo.append(st)
        i = 0
        while i < len(todo):
            state = todo[i]
            n, flags = state
            i += 1
            if n in targets:
                path = []
                cur = state
                while cur is not None:
                    path.append(cur[0])
                    cur = prev[cur]
                return path[::-1]
            if has_flags:
                eff = self._flag_effect(n)
                if eff is not None:
                    fd = dict(flags)
                    for name, val in eff:
                        if isinstance(val, tuple):
                            val = fd.get(val[1])
                        if val is None:
                            fd.pop(name, None)
                        else:
                            fd[name] = val
                    flags = frozenset(fd.items())
                ft = self._flag_test(n)
            else:
                ft = None
            cut = avoid_edge_kinds.get(n)
            for m in self.g.successors(n):
                if m in avoid_nodes:
                    continue
                ek = self.g[n][m]["kinds"]
                if kinds is not None and not (ek & kinds):
                    continue
                if cut is not None and not (ek - cut):
                    continue
                if ft is not None:
                    known = dict(flags).get(ft[0])
                    if known is not None:
                        holds = (known == "True") if ft[1] == "truth" else (known == "None")
                        truth = holds if ft[2] else not holds
                        feasible = {"t"} if truth else {"f"}
                        if not ((ek - {"t", "f"}) or (ek & feasible)):
                            continue
                if edge_ok is not None and not edge_ok(n, m, ek):
                    continue
                nst = (m, flags)
                if nst in prev:
                    continue
                prev[nst] = state
                todo.append(nst)
        return []

    def describe_path(self, path) -> list:
        from .core import norm

        out = []
        for n in path:
            d = self.g.nodes[n]
            if d["ast"] is not None:
                out.append(f"L{getattr(d['ast'], 'lineno', 0)}:{d['kind']}:{norm(d['ast'], 70)}")
            else:
                out.append(d["kind"])
        return out

    def count_marked(self, src: int, stops: set, marked: set, kinds=None, dead=()) -> tuple:
        """(min, max) number of ``marked`` nodes on any path from ``src`` to a node
        in ``stops`` (stops are not expanded).  The explored region must be acyclic."""
        memo: dict = {}
        onstack = set()

        def go(n):
            if n in memo:
                return memo[n]
            if n in dead:
                memo[n] = (None, None)
                return memo[n]
            if n in onstack:
                raise AnalysisError("cycle inside a region assumed acyclic")
            w = 1 if n in marked else 0
            if n in stops:
                memo[n] = (w, w)
                return memo[n]
            onstack.add(n)
            lo, hi = None, None
            for m in self.g.successors(n):
                if kinds is not None and not (self.g[n][m]["kinds"] & kinds):
                    continue
                a, b = go(m)
                if a is None:
                    continue
                lo = a if lo is None else min(lo, a)
                hi = b if hi is None else max(hi, b)
            onstack.discard(n)
            memo[n] = (None, None) if lo is None else (lo + w, hi + w)
            return memo[n]

        return go(src)


_cache: dict = {}


def cfg_of(fn) -> CFG:
    c = _cache.get(id(fn))
    if c is None or c.fn is not fn:
        c = CFG(fn)
        _cache[id(fn)] = c
    return c
