"""Checker self-test: in-memory mutants (must fire) and equivalence variants (must stay silent).

A mutant is a text edit of one module of the *current* tree, applied in memory
(``Program(overrides=…)``): nothing is written to disk, /repo is never touched.
A mutant whose anchor text is no longer present is *skipped* (the tree was
edited), never counted as a failure.  Self-test outcomes are recorded in the
evidence; they never change the exit status of a property check (a mutated
/repo must not turn a self-test hiccup into a false alarm).  ``python3-vt -m
sa.selftest`` is the developer entry point that does fail on a miss.
"""
from __future__ import annotations

import ast
import importlib
import os
import sys
from concurrent.futures import ProcessPoolExecutor
from dataclasses import dataclass
from typing import Optional

from .core import AnalysisError, Program
from .ctx import RunCtx


@dataclass
class M:
    """Mutant: replace ``old`` by ``new`` in module ``rel``; the check must then
    report a finding of rule ``expect`` (optionally inside function ``where``)."""

    id: str
    rel: str
    old: str
    new: str
    expect: str
    where: Optional[str] = None
    canary: bool = False
    count: int = 1  # which occurrence (1-based); 0 = must be unique


@dataclass
class E:
    """Equivalence variant: behaviour-preserving edit; finding keys must not change."""

    id: str
    rel: str
    old: str
    new: str


def _apply(src: str, old: str, new: str, count: int) -> Optional[str]:
    if count == 0:
        if src.count(old) != 1:
            return None
        return src.replace(old, new, 1)
    idx = -1
    for _ in range(count):
        idx = src.find(old, idx + 1)
        if idx < 0:
            return None
    return src[:idx] + new + src[idx + len(old):]


def _keys(prop: str, program: Program):
    ctx = RunCtx(prop, "quick", program)
    mod = importlib.import_module(f"sa.props.{prop.lower()}")
    mod.run(program, ctx)
    ctx.check_floors()
    return ctx


_BASE = None


def _run_mutant(args):
    prop, kind, spec, base_keys = args
    root = os.environ.get("SA_REPO", "/repo")
    path = os.path.join(root, spec.rel)
    try:
        with open(path, encoding="utf-8") as fp:
            src = fp.read()
    except OSError:
        return (spec.id, "skipped", "file missing")
    new_src = _apply(src, spec.old, spec.new, spec.count if kind == "M" else 1)
    if new_src is None:
        return (spec.id, "skipped", "anchor text not present")
    try:
        compile(new_src, spec.rel, "exec")
    except SyntaxError as e:
        return (spec.id, "broken", f"mutant does not compile: {e}")
    try:
        global _BASE
        if _BASE is None:
            _BASE = Program()
        program = _BASE.derive({spec.rel: new_src})
        ctx = _keys(prop, program)
        keys = {f.key for f in ctx.findings}
        rules = {(f.rule, f.qual) for f in ctx.findings if f.key not in base_keys}
        err = None
    except AnalysisError as e:
        keys, rules, err = set(), set(), str(e)
    if kind == "M":
        if err is not None:
            # the checker refused to decide (exit 2): not a silent pass, but not a report either
            return (spec.id, "analysis-error", err)
        hit = [
            r for r in rules
            if r[0] == spec.expect and (spec.where is None or spec.where in r[1])
        ]
        if hit:
            return (spec.id, "detected", f"{hit[0][0]} in {hit[0][1]}")
        other = sorted(rules)
        return (spec.id, "missed", f"new findings: {other}")
    else:
        if err is not None:
            return (spec.id, "false-alarm", f"analysis error on equivalent code: {err}")
        new = keys - set(base_keys)
        if new:
            return (spec.id, "false-alarm", f"new findings on equivalent code: {sorted(new)}")
        return (spec.id, "silent", "")


def reformat_variant(prop: str, program: Program, base_keys) -> tuple:
    """Whole-tree ast.unparse round trip (quotes, wrapping, comments change): same keys."""
    overrides = {}
    for m in program.modules.values():
        if m.rel.startswith("<dep>"):
            continue
        overrides[m.rel] = ast.unparse(ast.parse(m.src)) + "\n"
    try:
        ctx = _keys(prop, Program(overrides=overrides))
    except AnalysisError as e:
        return ("reformat-whole-tree", "false-alarm", f"analysis error: {e}")
    keys = {f.key for f in ctx.findings}
    if keys != set(base_keys):
        return (
            "reformat-whole-tree",
            "false-alarm",
            f"keys differ: +{sorted(keys - set(base_keys))} -{sorted(set(base_keys) - keys)}",
        )
    return ("reformat-whole-tree", "silent", "")


def run_for(prop: str, tier: str, program: Program, workers: int = 16) -> dict:
    mod = importlib.import_module(f"sa.props.{prop.lower()}")
    mutants = list(getattr(mod, "MUTANTS", []))
    equivs = list(getattr(mod, "EQUIVS", []))
    if tier == "quick":
        mutants = [m for m in mutants if m.canary]
        equivs = []
    base = _keys(prop, program)
    base_keys = sorted(f.key for f in base.findings)
    jobs = [(prop, "M", m, base_keys) for m in mutants] + [
        (prop, "E", e, base_keys) for e in equivs
    ]
    results = []
    if len(jobs) > 3 and workers > 1:
        with ProcessPoolExecutor(max_workers=min(workers, len(jobs))) as ex:
            results = list(ex.map(_run_mutant, jobs))
    else:
        results = [_run_mutant(j) for j in jobs]
    if tier == "thorough":
        results.append(reformat_variant(prop, program, base_keys))
    tally: dict = {}
    for _, status, _ in results:
        tally[status] = tally.get(status, 0) + 1
    return {
        "summary": ",".join(f"{k}={v}" for k, v in sorted(tally.items())) or "none",
        "mutants_defined": len(getattr(mod, "MUTANTS", [])),
        "equivalence_variants_defined": len(getattr(mod, "EQUIVS", [])),
        "results": [
            {"id": i, "status": s, "detail": d} for i, s, d in results
        ],
    }


def main(argv=None) -> int:
    from . import check  # noqa: F401  (networkx bootstrap)

    props = argv or sys.argv[1:] or check.ALL
    bad = 0
    program = Program()
    for p in props:
        try:
            importlib.import_module(f"sa.props.{p.lower()}")
        except ModuleNotFoundError:
            continue
        st = run_for(p.upper(), "thorough", program)
        print(f"[{p}] {st['summary']}")
        for r in st["results"]:
            if r["status"] in ("missed", "false-alarm", "broken", "analysis-error", "skipped"):
                print(f"   {r['status']:14s} {r['id']}: {r['detail']}")
                if r["status"] != "skipped":
                    bad += 1
    return 1 if bad else 0


if __name__ == "__main__":
    sys.exit(main())
