"""Program loader, symbol index, AST helpers, finding model.

Nothing here imports or executes relay code: everything is ``ast`` over files.
"""
from __future__ import annotations

import ast
import glob
import hashlib
import os
import re
from dataclasses import dataclass, field
from typing import Iterable, Iterator, Optional

PKG = "nostr_relay"


class AnalysisError(Exception):
    """The checker cannot build its model (exit 2) - never a pass, never a violation."""


def repo_root() -> str:
    return os.environ.get("SA_REPO", "/repo")


# --------------------------------------------------------------------------
# modules


@dataclass
class Module:
    name: str  # dotted
    path: str
    rel: str  # path relative to the repo root (or "<dep>/…")
    src: str
    tree: ast.Module
    digest: str
    lines: list = field(default_factory=list)
    normalized: dict = field(default_factory=dict)


def _annotate(tree: ast.AST, module: Module) -> None:
    """parent pointers, enclosing function / class, module back-reference."""
    tree._parent = None  # type: ignore[attr-defined]
    stack = [(tree, None, None)]
    while stack:
        node, func, cls = stack.pop()
        node._module = module  # type: ignore[attr-defined]
        node._func = func  # type: ignore[attr-defined]
        node._class = cls  # type: ignore[attr-defined]
        nf, nc = func, cls
        if isinstance(node, (ast.FunctionDef, ast.AsyncFunctionDef, ast.Lambda)):
            nf = node
        elif isinstance(node, ast.ClassDef):
            nc = node
            nf = None
        for child in ast.iter_child_nodes(node):
            child._parent = node  # type: ignore[attr-defined]
            stack.append((child, nf, nc))


FuncNode = (ast.FunctionDef, ast.AsyncFunctionDef)


@dataclass
class ClassInfo:
    qual: str  # "module:Class"
    node: ast.ClassDef
    module: Module
    base_names: list
    methods: dict  # name -> FunctionDef
    bases: list = field(default_factory=list)  # resolved ClassInfo


class Program:
    def __init__(self, root: Optional[str] = None, overrides: Optional[dict] = None):
        self.root = root or repo_root()
        self.overrides = overrides or {}  # rel path -> replacement source text (self-test mutants)
        self.modules: dict[str, Module] = {}
        self.functions: dict[str, ast.AST] = {}
        self.classes: dict[str, ClassInfo] = {}
        self.class_by_name: dict[str, list] = {}
        self.extra_files: dict[str, str] = {}  # rel -> text (yaml…)
        self._load()
        self._index()

    def derive(self, overrides: dict) -> "Program":
        """A program that differs from this one only in the given modules (rel path -> source).
        When no helper was inlined across modules in this program, unchanged modules share their parsed, annotated
        trees (they are treated as read-only); otherwise everything is re-read, because an inlined copy of a helper
        that lives in an overridden module would be stale."""
        cross = any((m.normalized or {}).get("helper_calls_inlined") for m in self.modules.values())
        if cross or os.environ.get("SA_NO_NORMALIZE") == "1" and False:
            ov = dict(self.overrides)
            ov.update(overrides)
            return Program(self.root, ov)
        p = Program.__new__(Program)
        p.root = self.root
        p.overrides = dict(overrides)
        p.modules = dict(self.modules)
        p.functions = {}
        p.classes = {}
        p.class_by_name = {}
        p.extra_files = dict(self.extra_files)
        changed = [(name, m) for name, m in self.modules.items() if m.rel in overrides]
        pending = {}
        for name, m in changed:
            pending[name] = p._parse_module(m.path, m.rel, name)
        if pending and os.environ.get("SA_NO_NORMALIZE") != "1":
            # the overridden modules are normalised with the (already normalised) rest of the package in view
            from .normalize import ProgramNormalizer

            trees = {n: mm.tree for n, mm in self.modules.items() if not mm.rel.startswith("<dep>")}
            for n, mm in pending.items():
                trees[n] = mm.tree
            try:
                pn = ProgramNormalizer(trees, {n: (pending.get(n) or self.modules[n]).path.endswith("__init__.py") for n in trees}, focus=set(pending))
                stats = pn.run()
                if pn.needs_full_reload:
                    ov = dict(self.overrides)
                    ov.update(overrides)
                    return Program(self.root, ov)
                for n, mm in pending.items():
                    mm.normalized = stats.get(n, {})
            except Exception as e:  # best effort
                for n, mm in pending.items():
                    mm.normalized = {"error": f"{type(e).__name__}: {e}"}
                    mm.tree = ast.parse(mm.src, filename=mm.rel)
        for name, mm in pending.items():
            _annotate(mm.tree, mm)
            p.modules[name] = mm
        p._index()
        return p

    # ---- loading -----------------------------------------------------
    def _load(self) -> None:
        pkgdir = os.path.join(self.root, PKG)
        if not os.path.isdir(pkgdir):
            raise AnalysisError(f"package directory {pkgdir} not found")
        for dirpath, dirnames, filenames in os.walk(pkgdir):
            dirnames[:] = [d for d in dirnames if d != "__pycache__"]
            for fn in sorted(filenames):
                full = os.path.join(dirpath, fn)
                rel = os.path.relpath(full, self.root)
                if fn.endswith(".py"):
                    self._add_module(full, rel, self._modname(rel))
                elif fn.endswith((".yaml", ".yml")):
                    with open(full, encoding="utf-8") as fp:
                        self.extra_files[rel] = fp.read()
        # the one dependency file the admission path resolves into
        cands = sorted(
            glob.glob("/venv/lib/python*/site-packages/aionostr/event.py")
        )
        depdir = os.environ.get("SA_DEP_EVENT")
        if depdir:
            cands = [depdir]
        if not cands:
            raise AnalysisError("aionostr/event.py not found under /venv")
        self._add_module(cands[0], "<dep>/aionostr/event.py", "aionostr.event")
        self._normalize_and_annotate()

    def _normalize_and_annotate(self) -> None:
        own = {n: m for n, m in self.modules.items() if not m.rel.startswith("<dep>")}
        if os.environ.get("SA_NO_NORMALIZE") != "1":
            from .normalize import ProgramNormalizer

            try:
                stats = ProgramNormalizer({n: m.tree for n, m in own.items()}, {n: m.path.endswith("__init__.py") for n, m in own.items()}).run()
                for n, m in own.items():
                    m.normalized = stats.get(n, {})
            except Exception as e:  # normalisation is best effort: analyse the trees as written
                for n, m in own.items():
                    m.normalized = {"error": f"{type(e).__name__}: {e}"}
                    m.tree = ast.parse(m.src, filename=m.rel)
        for m in self.modules.values():
            _annotate(m.tree, m)

    @staticmethod
    def _modname(rel: str) -> str:
        p = rel[:-3].replace(os.sep, ".")
        if p.endswith(".__init__"):
            p = p[: -len(".__init__")]
        return p

    def _parse_module(self, full: str, rel: str, name: str) -> Module:
        with open(full, "rb") as fp:
            raw = fp.read()
        if rel in self.overrides:
            raw = self.overrides[rel].encode("utf-8")
        try:
            src = raw.decode("utf-8")
            tree = ast.parse(src, filename=rel)
        except (SyntaxError, UnicodeDecodeError) as e:
            raise AnalysisError(f"{rel} does not parse: {e}")
        m = Module(name, full, rel, src, tree, hashlib.sha256(raw).hexdigest())
        m.lines = src.splitlines()
        return m

    def _add_module(self, full: str, rel: str, name: str) -> None:
        """parse only; normalisation and annotation happen once all modules are read (_normalize_and_annotate)"""
        self.modules[name] = self._parse_module(full, rel, name)

    # ---- index -------------------------------------------------------
    def _index(self) -> None:
        for m in self.modules.values():
            self._index_body(m, m.tree.body, prefix="")
        # a function of the frozen anchor table that was moved to another module and imported back keeps its address
        try:
            from .normalize import known_funcs

            for k in known_funcs():
                if k in self.functions:
                    continue
                mod, _, q = k.partition(":")
                m = self.modules.get(mod)
                if m is None or "." in q:
                    continue
                tgt = self.imports_of(m).get(q)
                seen = 0
                while tgt and seen < 4:
                    seen += 1
                    m2, _, sym = tgt.rpartition(".")
                    if f"{m2}:{sym}" in self.functions:
                        self.functions[k] = self.functions[f"{m2}:{sym}"]
                        break
                    mm2 = self.modules.get(m2)
                    tgt = self.imports_of(mm2).get(sym) if mm2 is not None else None
        except Exception:
            pass
        for ci in self.classes.values():
            for b in ci.base_names:
                r = self.resolve_class_name(ci.module, b)
                if r is not None:
                    ci.bases.append(r)

    def _index_body(self, m: Module, body, prefix: str) -> None:
        for node in body:
            if isinstance(node, FuncNode):
                q = f"{m.name}:{prefix}{node.name}"
                self.functions[q] = node
                node._qual = q  # type: ignore[attr-defined]
                self._index_nested(m, node, f"{prefix}{node.name}.")
            elif isinstance(node, ast.ClassDef):
                q = f"{m.name}:{prefix}{node.name}"
                methods = {}
                for sub in node.body:
                    if isinstance(sub, FuncNode):
                        fq = f"{q}.{sub.name}"
                        self.functions[fq] = sub
                        sub._qual = fq  # type: ignore[attr-defined]
                        methods[sub.name] = sub
                        self._index_nested(m, sub, f"{prefix}{node.name}.{sub.name}.")
                ci = ClassInfo(q, node, m, [dotted(b) for b in node.bases], methods)
                self.classes[q] = ci
                self.class_by_name.setdefault(node.name, []).append(ci)
            elif isinstance(node, (ast.If, ast.Try)):
                # module-level conditional definitions (try/except ImportError …)
                for sub in ast.iter_child_nodes(node):
                    if isinstance(sub, list):
                        continue
                blocks = []
                if isinstance(node, ast.If):
                    blocks = [node.body, node.orelse]
                else:
                    blocks = [node.body, node.orelse, node.finalbody] + [
                        h.body for h in node.handlers
                    ]
                for b in blocks:
                    self._index_body(m, b, prefix)

    def _index_nested(self, m: Module, fn, prefix: str) -> None:
        for node in ast.walk(fn):
            if node is fn:
                continue
            if isinstance(node, FuncNode) and node._func is fn:  # direct children only
                q = f"{m.name}:{prefix}{node.name}"
                self.functions[q] = node
                node._qual = q  # type: ignore[attr-defined]
                self._index_nested(m, node, f"{prefix}{node.name}.")

    # ---- lookups -----------------------------------------------------
    def module(self, name: str) -> Module:
        if name not in self.modules:
            raise AnalysisError(f"anchor module {name} not found")
        return self.modules[name]

    def func(self, qual: str):
        """qual = 'pkg.mod:Class.method' ; vanishing anchor = analysis error."""
        if qual not in self.functions:
            raise AnalysisError(f"anchor function {qual} not found")
        return self.functions[qual]

    def func_opt(self, qual: str):
        return self.functions.get(qual)

    def cls(self, qual: str) -> ClassInfo:
        if qual not in self.classes:
            raise AnalysisError(f"anchor class {qual} not found")
        return self.classes[qual]

    def imports_of(self, m: Module) -> dict:
        """local name -> dotted target ('pkg.mod' or 'pkg.mod.symbol')."""
        cache = getattr(m, "_imports", None)
        if cache is not None:
            return cache
        out = {}
        for node in ast.walk(m.tree):
            if isinstance(node, ast.Import):
                for a in node.names:
                    out[a.asname or a.name.split(".")[0]] = a.name
            elif isinstance(node, ast.ImportFrom):
                base = node.module or ""
                if node.level:
                    parts = m.name.split(".")
                    pkgparts = parts if m.path.endswith("__init__.py") else parts[:-1]
                    anchor = pkgparts[: len(pkgparts) - (node.level - 1)]
                    base = ".".join(anchor + ([node.module] if node.module else []))
                for a in node.names:
                    out[a.asname or a.name] = f"{base}.{a.name}" if base else a.name
        # module-level aliases of imported things (`_is_lower_hex = util.is_lower_hex`) resolve like imports
        defined = {s.name for s in m.tree.body if isinstance(s, (ast.FunctionDef, ast.AsyncFunctionDef, ast.ClassDef))}
        for st in m.tree.body:
            if isinstance(st, ast.Assign) and len(st.targets) == 1 and isinstance(st.targets[0], ast.Name) and st.targets[0].id not in defined:
                v = st.value
                if isinstance(v, ast.Attribute) and isinstance(v.value, ast.Name) and v.value.id in out and v.value.id not in defined:
                    out.setdefault(st.targets[0].id, f"{out[v.value.id]}.{v.attr}")
                elif isinstance(v, ast.Name) and v.id in out and v.id != st.targets[0].id:
                    out.setdefault(st.targets[0].id, out[v.id])
        m._imports = out  # type: ignore[attr-defined]
        return out

    def resolve_class_name(self, m: Module, name: str) -> Optional[ClassInfo]:
        last = name.split(".")[-1]
        q = f"{m.name}:{last}"
        if "." not in name and q in self.classes:
            return self.classes[q]
        imp = self.imports_of(m).get(name.split(".")[0])
        if imp:
            target = imp if "." not in name else imp + "." + ".".join(name.split(".")[1:])
            mod, _, sym = target.rpartition(".")
            q = f"{mod}:{sym}"
            if q in self.classes:
                return self.classes[q]
        return None

    def mro(self, ci: ClassInfo) -> list:
        """C3 linearisation restricted to repo classes."""
        def merge(seqs):
            res = []
            seqs = [list(s) for s in seqs if s]
            while seqs:
                for s in seqs:
                    head = s[0]
                    if not any(head in t[1:] for t in seqs):
                        break
                else:
                    raise AnalysisError(f"inconsistent MRO for {ci.qual}")
                res.append(head)
                for t in seqs:
                    if t and t[0] is head:
                        del t[0]
                seqs = [s for s in seqs if s]
            return res

        return [ci] + merge([self.mro(b) for b in ci.bases] + [list(ci.bases)])

    def resolve_method(self, ci: ClassInfo, name: str):
        for c in self.mro(ci):
            if name in c.methods:
                return c.methods[name]
        return None

    def subclasses(self, ci: ClassInfo, strict=False) -> list:
        out = [] if strict else [ci]
        for c in self.classes.values():
            if c is not ci and ci in self.mro(c):
                out.append(c)
        return out

    def digests(self) -> dict:
        return {m.rel: m.digest for m in self.modules.values()}


# --------------------------------------------------------------------------
# AST helpers


def clone(node):
    """structural copy of an AST subtree (fields and positions only - the analysis annotations
    _parent/_module/_func would drag the whole module into a deepcopy)"""
    if isinstance(node, list):
        return [clone(x) for x in node]
    if not isinstance(node, ast.AST):
        return node
    new = type(node)()
    for f in node._fields:
        if hasattr(node, f):
            setattr(new, f, clone(getattr(node, f)))
    for a in ("lineno", "col_offset", "end_lineno", "end_col_offset"):
        if hasattr(node, a):
            setattr(new, a, getattr(node, a))
    return new


def dotted(node) -> str:
    """'a.b.c' for Name/Attribute chains; calls and subscripts rendered compactly."""
    if isinstance(node, ast.Name):
        return node.id
    if isinstance(node, ast.Attribute):
        return f"{dotted(node.value)}.{node.attr}"
    if isinstance(node, ast.Call):
        return f"{dotted(node.func)}()"
    if isinstance(node, ast.Subscript):
        return f"{dotted(node.value)}[]"
    if isinstance(node, ast.Await):
        return dotted(node.value)
    if isinstance(node, ast.Constant):
        return repr(node.value)
    return f"<{type(node).__name__}>"


def call_name(call: ast.Call) -> str:
    return dotted(call.func)


def walk_no_nested(node) -> Iterator[ast.AST]:
    """ast.walk that does not descend into nested function/lambda/class bodies."""
    stack = [node]
    first = True
    while stack:
        n = stack.pop()
        if not first and isinstance(n, FuncNode + (ast.Lambda, ast.ClassDef)):
            continue
        first = False
        yield n
        stack.extend(ast.iter_child_nodes(n))


def calls_in(node, nested=False) -> Iterator[ast.Call]:
    it = ast.walk(node) if nested else walk_no_nested(node)
    for n in it:
        if isinstance(n, ast.Call):
            yield n


def header_only(stmt) -> Iterator[ast.AST]:
    """The expressions evaluated *at* a compound statement's own CFG node."""
    if isinstance(stmt, (ast.If, ast.While)):
        yield stmt.test
    elif isinstance(stmt, (ast.For, ast.AsyncFor)):
        yield stmt.target
        yield stmt.iter
    elif isinstance(stmt, (ast.With, ast.AsyncWith)):
        for it in stmt.items:
            yield it.context_expr
            if it.optional_vars is not None:
                yield it.optional_vars
    elif isinstance(stmt, ast.ExceptHandler):
        if stmt.type is not None:
            yield stmt.type
    elif isinstance(stmt, (ast.Try,)):
        return
    elif isinstance(stmt, FuncNode + (ast.ClassDef,)):
        for d in stmt.decorator_list:
            yield d
    else:
        yield stmt


def own_nodes(stmt) -> Iterator[ast.AST]:
    """All expression nodes evaluated when the CFG node of ``stmt`` executes."""
    for h in header_only(stmt):
        yield from walk_no_nested(h)


def own_calls(stmt) -> Iterator[ast.Call]:
    for n in own_nodes(stmt):
        if isinstance(n, ast.Call):
            yield n


def norm(stmt, limit=160) -> str:
    """Normalised one-line text of a statement header (formatter independent)."""
    try:
        if isinstance(stmt, ast.If):
            s = f"if {ast.unparse(stmt.test)}:"
        elif isinstance(stmt, ast.While):
            s = f"while {ast.unparse(stmt.test)}:"
        elif isinstance(stmt, (ast.For, ast.AsyncFor)):
            a = "async " if isinstance(stmt, ast.AsyncFor) else ""
            s = f"{a}for {ast.unparse(stmt.target)} in {ast.unparse(stmt.iter)}:"
        elif isinstance(stmt, (ast.With, ast.AsyncWith)):
            a = "async " if isinstance(stmt, ast.AsyncWith) else ""
            s = f"{a}with " + ", ".join(ast.unparse(i) for i in stmt.items) + ":"
        elif isinstance(stmt, ast.Try):
            s = "try:"
        elif isinstance(stmt, ast.ExceptHandler):
            s = "except" + (f" {ast.unparse(stmt.type)}" if stmt.type else "") + ":"
        elif isinstance(stmt, FuncNode):
            s = f"def {stmt.name}(...)"
        elif isinstance(stmt, ast.ClassDef):
            s = f"class {stmt.name}"
        else:
            s = ast.unparse(stmt)
    except Exception:  # pragma: no cover
        s = f"<{type(stmt).__name__}>"
    s = " ".join(s.split())
    return s if len(s) <= limit else s[: limit - 1] + "…"


def qual_of(node) -> str:
    f = node if isinstance(node, FuncNode) else getattr(node, "_func", None)
    while f is not None and not isinstance(f, FuncNode):
        f = getattr(f, "_func", None)
    if f is None:
        return "<module>"
    q = getattr(f, "_qual", None)
    return q.split(":", 1)[1] if q else f.name


def enclosing_stmt(node):
    n = node
    while n is not None and not isinstance(n, ast.stmt) and not isinstance(n, ast.ExceptHandler):
        n = getattr(n, "_parent", None)
    return n


def ancestors(node) -> Iterator[ast.AST]:
    n = getattr(node, "_parent", None)
    while n is not None:
        yield n
        n = getattr(n, "_parent", None)


def is_const(node, value=None) -> bool:
    if not isinstance(node, ast.Constant):
        return False
    return value is None or node.value == value


def names_in(node) -> set:
    return {n.id for n in ast.walk(node) if isinstance(n, ast.Name)}


def attr_chain_root(node):
    while isinstance(node, (ast.Attribute, ast.Subscript, ast.Call)):
        node = node.value if not isinstance(node, ast.Call) else node.func
    return node


def str_constants(node) -> set:
    return {
        n.value
        for n in ast.walk(node)
        if isinstance(n, ast.Constant) and isinstance(n.value, str)
    }


def assigned_names(target) -> set:
    out = set()
    for n in ast.walk(target):
        if isinstance(n, ast.Name) and isinstance(n.ctx, (ast.Store, ast.Del)):
            out.add(n.id)
    return out


def stmt_assigns(stmt) -> set:
    """Names (re)bound when the CFG node of ``stmt`` executes."""
    out = set()
    if isinstance(stmt, ast.Assign):
        for t in stmt.targets:
            out |= assigned_names(t)
    elif isinstance(stmt, (ast.AugAssign, ast.AnnAssign)):
        out |= assigned_names(stmt.target)
    elif isinstance(stmt, (ast.For, ast.AsyncFor)):
        out |= assigned_names(stmt.target)
    elif isinstance(stmt, (ast.With, ast.AsyncWith)):
        for it in stmt.items:
            if it.optional_vars is not None:
                out |= assigned_names(it.optional_vars)
    elif isinstance(stmt, ast.ExceptHandler):
        if stmt.name:
            out.add(stmt.name)
    elif isinstance(stmt, (ast.Import, ast.ImportFrom)):
        for a in stmt.names:
            out.add((a.asname or a.name).split(".")[0])
    elif isinstance(stmt, FuncNode + (ast.ClassDef,)):
        out.add(stmt.name)
    for n in own_nodes(stmt):
        if isinstance(n, ast.NamedExpr):
            out |= assigned_names(n.target)
    return out


# --------------------------------------------------------------------------
# findings


@dataclass
class Finding:
    prop: str
    rule: str
    unit: str  # module rel path
    qual: str  # function qualname inside the module
    stmt: str  # normalised statement text
    message: str
    line: int = 0
    extra: dict = field(default_factory=dict)

    @property
    def key(self) -> str:
        return f"{self.prop}|{self.rule}|{self.unit}|{self.qual}|{self.stmt}"

    def as_dict(self) -> dict:
        d = {
            "property": self.prop,
            "rule": self.rule,
            "unit": self.unit,
            "function": self.qual,
            "statement": self.stmt,
            "line": self.line,
            "message": self.message,
            "key": self.key,
        }
        if self.extra:
            d["extra"] = self.extra
        return d


def finding_at(prop, rule, node, message, stmt=None, text=None, label=None, **extra) -> Finding:
    """Finding located at ``node`` (any AST node inside a module of the program).
    ``text`` is appended to the normalised statement to tell apart several obligations on one statement.
    ``label`` replaces the statement text in the key by a stable obligation label (used where the finding is a
    recorded known finding: renaming a local variable in that statement must not turn it into a new alarm)."""
    s = stmt if stmt is not None else enclosing_stmt(node)
    if s is None:
        s = node
    m = node._module
    return Finding(
        prop,
        rule,
        m.rel,
        qual_of(node),
        (f"[{label}]" if label else norm(s) + (f" :: {text}" if text else "")),
        message,
        getattr(node, "lineno", 0) or getattr(s, "lineno", 0),
        extra,
    )


def finding_func(prop, rule, fn, message, text="<function>", **extra) -> Finding:
    m = fn._module
    return Finding(prop, rule, m.rel, qual_of(fn), text, message, fn.lineno, extra)
