"""Static checkers for nostr_relay properties C01-C20 (see /verif/DESIGN.md)."""
