"""Regression corpus for the thorough tier: confirmed property-breaking changes and benign refactors.

``/verif/seeded/<id>/patch.diff``   a change that was shown (dynamically, by its author and again by me) to break
                                    property <id's prefix> while the pinned test suite still passes
``/verif/benign/<id>/patch.diff``   a behaviour-preserving refactor (renames, helper extraction, reordering …)

Each patch is applied to a *scratch copy of the current /repo package* (a temporary directory outside /repo and
/verif, removed right after), the copy is parsed and the property's rules are run on it - nothing is executed.
Expected: every seeded change of this property produces a new finding, every benign refactor produces none.
A patch that no longer applies (the tree moved on) is reported as skipped.  Like the mutants, the outcome is
recorded in the evidence and never changes the exit status of the property check: ``python3-vt -m sa.corpus``
is the developer entry point that does fail on a miss / false alarm.
"""
from __future__ import annotations

import importlib
import json
import os
import shutil
import subprocess
import sys
import tempfile
from concurrent.futures import ProcessPoolExecutor

from .core import AnalysisError, Program, repo_root
from .ctx import RunCtx

VERIF = os.path.dirname(os.path.dirname(os.path.abspath(__file__)))


def _patched_copy(patch: str):
    w = tempfile.mkdtemp(prefix="sa-corpus.")
    shutil.copytree(os.path.join(repo_root(), "nostr_relay"), os.path.join(w, "nostr_relay"),
                    ignore=shutil.ignore_patterns("__pycache__"))
    subprocess.run(["git", "init", "-q", w], capture_output=True)
    r = subprocess.run(["git", "-C", w, "apply", "--whitespace=nowarn", patch], capture_output=True, text=True)
    if r.returncode != 0:
        shutil.rmtree(w, ignore_errors=True)
        return None
    return w


def _one(args):
    prop, kind, cid, patch, base_keys = args
    w = _patched_copy(patch)
    if w is None:
        return (cid, kind, "skipped", "patch does not apply to the current tree")
    try:
        try:
            program = Program(root=w)
            ctx = RunCtx(prop, "quick", program)
            importlib.import_module(f"sa.props.{prop.lower()}").run(program, ctx)
            ctx.check_floors()
            new = sorted({f.rule for f in ctx.findings if f.key not in base_keys})
            err = None
        except AnalysisError as e:
            new, err = [], str(e)[:160]
        except SyntaxError as e:
            return (cid, kind, "skipped", f"patched tree does not parse: {e}")
        if kind == "seed":
            if new:
                return (cid, kind, "detected", ",".join(new))
            if err:
                return (cid, kind, "analysis-error", err)
            return (cid, kind, "missed", "")
        if new or err:
            return (cid, kind, "false-alarm", ",".join(new) or err)
        return (cid, kind, "silent", "")
    finally:
        shutil.rmtree(w, ignore_errors=True)


def _entries(prop: str):
    out = []
    sroot = os.path.join(VERIF, "seeded")
    if os.path.isdir(sroot):
        for d in sorted(os.listdir(sroot)):
            if d.split("-")[0] != prop:
                continue
            for name in ("patch.rebased.diff", "patch.diff"):
                p = os.path.join(sroot, d, name)
                if os.path.exists(p):
                    out.append(("seed", d, p))
                    break
    broot = os.path.join(VERIF, "benign")
    if os.path.isdir(broot):
        for d in sorted(os.listdir(broot)):
            p = os.path.join(broot, d, "patch.diff")
            if os.path.exists(p):
                out.append(("benign", d, p))
    return out


def run_for(prop: str, program: Program, workers: int = 16) -> dict:
    ctx = RunCtx(prop, "quick", program)
    importlib.import_module(f"sa.props.{prop.lower()}").run(program, ctx)
    base_keys = sorted(f.key for f in ctx.findings)
    jobs = [(prop, kind, cid, patch, base_keys) for kind, cid, patch in _entries(prop)]
    if not jobs:
        return {"summary": "no corpus"}
    with ProcessPoolExecutor(max_workers=min(workers, len(jobs))) as ex:
        results = list(ex.map(_one, jobs))
    tally: dict = {}
    for _, kind, st, _ in results:
        tally[f"{kind}:{st}"] = tally.get(f"{kind}:{st}", 0) + 1
    return {
        "summary": ",".join(f"{k}={v}" for k, v in sorted(tally.items())),
        "note": "seed = confirmed property-breaking change written against this property by an independent author (see seeded/<id>/meta.json); "
                "benign = behaviour-preserving refactor; both applied to a scratch copy of the current tree and analysed, never executed",
        "results": [{"id": cid, "kind": kind, "status": st, "detail": d} for cid, kind, st, d in results],
    }


def main(argv=None) -> int:
    from . import check

    props = [p.upper() for p in (argv or sys.argv[1:])] or check.ALL
    program = Program()
    bad = 0
    for p in props:
        try:
            importlib.import_module(f"sa.props.{p.lower()}")
        except ModuleNotFoundError:
            continue
        r = run_for(p, program)
        print(f"[{p}] {r['summary']}")
        for x in r.get("results", []):
            if x["status"] not in ("detected", "silent"):
                print(f"   {x['status']:14s} {x['kind']} {x['id']}: {x['detail']}")
                if x["status"] in ("false-alarm", "analysis-error"):
                    bad += 1
    return 1 if bad else 0


if __name__ == "__main__":
    sys.exit(main())
