"""Normalising pre-pass: undo shape-only refactorings before the rules look at the code.

The rules of this checker are written against the code's *audited* structure (which function
contains which construct).  Ordinary maintenance changes that structure without changing
behaviour; such changes are normalised away here, on the parsed trees of the whole package,
before any rule runs:

  N1  module-level constants (``NAME = <literal>`` bound once) are propagated into their uses -
      also across modules when they are imported by name - and UPPER_CASE class constants into
      ``self.NAME`` / ``cls.NAME`` / ``Class.NAME``;
  N2  *new* helpers - functions/methods/nested closures that did not exist when the rule anchors
      were frozen (sa/known_funcs.json) - are inlined at their call sites:
        a. statement position (``helper(x)``, ``v = await self._helper(x)``, ``return helper(x)``);
           returns are linearised, or - for general control flow - turned into a one-trip
           ``while True: … break`` region, which keeps every path exactly
        b. expression position (``if not await self._accept(req, ws):``): the call is hoisted in
           front of the statement when it is evaluated unconditionally and first
        c. generator helpers consumed by a ``for`` loop are fused with the loop body; generator
           helpers consumed by set()/list()/extend()/update()/any()/… become an accumulating loop
        d. a dispatch table of new helpers (``{"add": self._op_add, …}.get(op)`` followed by a
           call, or a ``for f in (self._a, self._b): f(x)`` loop) is expanded into the equivalent
           if/elif chain resp. unrolled
        e. helpers may live in another module of the package (imported by name or through a
           module alias) or in a base class
      Functions that existed at freeze time are never inlined: the rules address them by name.
      A known function that was *moved* to another module and imported back keeps its old
      address (core.Program resolves it through the import).

Inlining is for analysis only (argument expressions may be duplicated, names of the callee's
module are not re-imported); it never changes what is reported as the property - a mutation
hidden inside a newly extracted helper is simply brought back into view of the rule that audits
the caller.
"""
from __future__ import annotations

import ast
import copy
import json
import os
from typing import Optional

HERE = os.path.dirname(os.path.abspath(__file__))
_KNOWN = None
DEBUG = os.environ.get("SA_DEBUG_NORMALIZE") == "1"


_KNOWN_IMPORTS = None


def _known_imports() -> dict:
    global _KNOWN_IMPORTS
    if _KNOWN_IMPORTS is None:
        p = os.path.join(os.path.dirname(os.path.abspath(__file__)), "known_imports.json")
        _KNOWN_IMPORTS = json.load(open(p)) if os.path.exists(p) else {}
    return _KNOWN_IMPORTS


def known_funcs() -> set:
    global _KNOWN
    if _KNOWN is None:
        try:
            with open(os.path.join(HERE, "known_funcs.json")) as fp:
                _KNOWN = set(json.load(fp))
        except FileNotFoundError:
            _KNOWN = set()
    return _KNOWN


FuncT = (ast.FunctionDef, ast.AsyncFunctionDef)
LoopT = (ast.For, ast.AsyncFor, ast.While)
_SIGS = None


def known_sigs() -> dict:
    global _SIGS
    if _SIGS is None:
        try:
            with open(os.path.join(HERE, "known_sigs.json")) as fp:
                _SIGS = {k: set(v) for k, v in json.load(fp).items()}
        except FileNotFoundError:
            _SIGS = {}
    return _SIGS


def _own_nodes_of(fn):
    todo = list(ast.iter_child_nodes(fn))
    while todo:
        n = todo.pop(0)
        if isinstance(n, (ast.FunctionDef, ast.AsyncFunctionDef, ast.Lambda, ast.ClassDef)):
            continue
        yield n
        todo[0:0] = list(ast.iter_child_nodes(n))


def local_fingerprints(fn) -> list:
    """[(name, fingerprint)] in order of first binding, for the local variables of fn (parameters, global/nonlocal names and
    comprehension variables excluded).  The fingerprint is the sorted list of the variable's binding sites, each rendered with every
    *local* name replaced by `_` - it does not change when locals are renamed consistently."""
    params = {a.arg for a in fn.args.args + fn.args.kwonlyargs + fn.args.posonlyargs}
    if fn.args.vararg:
        params.add(fn.args.vararg.arg)
    if fn.args.kwarg:
        params.add(fn.args.kwarg.arg)
    shared = set()
    stores = []
    for n in _own_nodes_of(fn):
        if isinstance(n, (ast.Global, ast.Nonlocal)):
            shared.update(n.names)
    comp_names = set()
    for n in _own_nodes_of(fn):
        if isinstance(n, ast.comprehension):
            for x in ast.walk(n.target):
                if isinstance(x, ast.Name):
                    comp_names.add(x.id)
    order = []
    sites: dict = {}

    def add(name, text):
        if name in params or name in shared:
            return
        if name not in sites:
            sites[name] = []
            order.append(name)
        sites[name].append(text)

    locals_all = set()
    for n in _own_nodes_of(fn):
        if isinstance(n, ast.Name) and isinstance(n.ctx, ast.Store) and n.id not in params and n.id not in shared:
            locals_all.add(n.id)
        if isinstance(n, ast.ExceptHandler) and n.name:
            locals_all.add(n.name)

    class Blank(ast.NodeTransformer):
        def visit_Name(self, node):
            if node.id in locals_all:
                return ast.copy_location(ast.Name(id="_", ctx=node.ctx), node)
            return node

    def render(e):
        try:
            return ast.unparse(Blank().visit(copy.deepcopy(e)))
        except Exception:
            return type(e).__name__

    def targets(t, path=""):
        if isinstance(t, ast.Name):
            yield t.id, path
        elif isinstance(t, (ast.Tuple, ast.List)):
            for i, e in enumerate(t.elts):
                yield from targets(e, f"{path}[{i}]")
        elif isinstance(t, ast.Starred):
            yield from targets(t.value, path + "*")

    for n in _own_nodes_of(fn):
        if isinstance(n, ast.Assign):
            for t in n.targets:
                for name, path in targets(t):
                    add(name, f"assign{path}:{render(n.value)}")
        elif isinstance(n, ast.AnnAssign) and n.value is not None:
            for name, path in targets(n.target):
                add(name, f"assign{path}:{render(n.value)}")
        elif isinstance(n, ast.AugAssign):
            for name, path in targets(n.target):
                add(name, f"aug:{type(n.op).__name__}:{render(n.value)}")
        elif isinstance(n, (ast.For, ast.AsyncFor)):
            for name, path in targets(n.target):
                add(name, f"for{path}:{render(n.iter)}")
        elif isinstance(n, (ast.With, ast.AsyncWith)):
            for it in n.items:
                if it.optional_vars is not None:
                    for name, path in targets(it.optional_vars):
                        add(name, f"with{path}:{render(it.context_expr)}")
        elif isinstance(n, ast.ExceptHandler) and n.name:
            add(n.name, f"except:{render(n.type) if n.type is not None else ''}")
        elif isinstance(n, ast.NamedExpr):
            for name, path in targets(n.target):
                add(name, f"walrus:{render(n.value)}")
    return [(name, "|".join(sorted(sites[name]))) for name in order if name not in comp_names or True]


_LOCALS = None


def known_locals() -> dict:
    global _LOCALS
    if _LOCALS is None:
        try:
            with open(os.path.join(HERE, "known_locals.json")) as fp:
                _LOCALS = json.load(fp)
        except FileNotFoundError:
            _LOCALS = {}
    return _LOCALS


def fingerprint(fn) -> set:
    """token set of a function body: called names, attributes, short string constants, parameter names - enough to recognise
    an audited function under a new name, robust against edits of a few statements"""
    out = set()
    for a in fn.args.args + fn.args.kwonlyargs:
        out.add("p:" + a.arg)
    out.add("async" if isinstance(fn, ast.AsyncFunctionDef) else "sync")
    for n in ast.walk(fn):
        if isinstance(n, ast.Call):
            f = n.func
            if isinstance(f, ast.Attribute):
                out.add("c:" + f.attr)
            elif isinstance(f, ast.Name):
                out.add("c:" + f.id)
        elif isinstance(n, ast.Attribute):
            out.add("a:" + n.attr)
        elif isinstance(n, ast.Constant) and isinstance(n.value, str) and 0 < len(n.value) <= 40:
            out.add("s:" + n.value)
    return out


def _dbg(*a):
    if DEBUG:
        print("[normalize]", *a)


# --------------------------------------------------------------------------
# N1 constants


def _is_literal(v) -> bool:
    if isinstance(v, ast.Constant):
        return True
    if isinstance(v, ast.UnaryOp) and isinstance(v.op, ast.USub) and isinstance(v.operand, ast.Constant):
        return True
    if isinstance(v, (ast.Tuple, ast.List)) and v.elts and all(_is_literal(e) for e in v.elts):
        return True
    # slice(-32, None) used as a subscript; frozenset({...}) / frozenset((…)) of literals used in membership tests
    if isinstance(v, ast.Call) and isinstance(v.func, ast.Name) and v.func.id == "slice" and not v.keywords and 1 <= len(v.args) <= 3 and all(_is_literal(a) for a in v.args):
        return True
    if isinstance(v, ast.Call) and isinstance(v.func, ast.Name) and v.func.id in ("frozenset", "set", "tuple") and not v.keywords and len(v.args) == 1 \
            and isinstance(v.args[0], (ast.Set, ast.Tuple, ast.List)) and v.args[0].elts and all(isinstance(e, ast.Constant) for e in v.args[0].elts):
        return True
    if isinstance(v, ast.Set) and v.elts and all(isinstance(e, ast.Constant) for e in v.elts):
        return True
    # a member of an enumeration / constants class: `EventKind.DELETE`
    if isinstance(v, ast.Attribute) and isinstance(v.value, ast.Name) and v.value.id[:1].isupper() and not v.value.id.isupper() and v.attr.isupper():
        return True
    return False


def module_constants(tree: ast.Module) -> dict:
    consts = {}
    counts = {}
    for st in tree.body:
        if isinstance(st, ast.Assign) and len(st.targets) == 1 and isinstance(st.targets[0], ast.Name):
            counts[st.targets[0].id] = counts.get(st.targets[0].id, 0) + 1
            if _is_literal(st.value):
                consts[st.targets[0].id] = st.value
        elif isinstance(st, ast.AnnAssign) and isinstance(st.target, ast.Name) and st.value is not None:
            counts[st.target.id] = counts.get(st.target.id, 0) + 1
            if _is_literal(st.value):
                consts[st.target.id] = st.value
    # names rebound anywhere else (global statements, augmented assignment) are not constants
    for n in ast.walk(tree):
        if isinstance(n, ast.Global):
            for nm in n.names:
                consts.pop(nm, None)
        if isinstance(n, (ast.AugAssign,)) and isinstance(n.target, ast.Name):
            consts.pop(n.target.id, None)
    return {k: v for k, v in consts.items() if counts.get(k) == 1 and k.isupper()}


def propagate_constants(tree: ast.Module, imported: Optional[dict] = None) -> int:
    consts = module_constants(tree)
    for k, v in (imported or {}).items():
        consts.setdefault(k, v)
    if not consts:
        return 0
    n_rep = 0

    class T(ast.NodeTransformer):
        def __init__(self):
            self.shadow = [set()]

        def _fn(self, node):
            local = {a.arg for a in node.args.args + node.args.kwonlyargs}
            for s in ast.walk(node):
                if isinstance(s, ast.Name) and isinstance(s.ctx, ast.Store):
                    local.add(s.id)
            self.shadow.append(local)
            self.generic_visit(node)
            self.shadow.pop()
            return node

        visit_FunctionDef = _fn
        visit_AsyncFunctionDef = _fn

        def visit_Name(self, node):
            nonlocal n_rep
            if isinstance(node.ctx, ast.Load) and node.id in consts and not any(node.id in s for s in self.shadow[1:]):
                n_rep += 1
                return ast.copy_location(copy.deepcopy(consts[node.id]), node)
            return node

    T().visit(tree)
    return n_rep


def propagate_class_constants(tree: ast.Module) -> int:
    """``self.NAME`` / ``cls.NAME`` / ``Class.NAME`` where NAME is an UPPER_CASE literal bound once in the class body."""
    n_rep = 0
    for cd in [c for c in ast.walk(tree) if isinstance(c, ast.ClassDef)]:
        consts = {}
        for st in cd.body:
            if isinstance(st, ast.Assign) and len(st.targets) == 1 and isinstance(st.targets[0], ast.Name) and st.targets[0].id.isupper() and _is_literal(st.value):
                consts[st.targets[0].id] = st.value
        if not consts:
            continue
        for n in ast.walk(tree):
            if isinstance(n, ast.Attribute) and isinstance(n.ctx, ast.Store) and n.attr in consts:
                consts.pop(n.attr, None)
        if not consts:
            continue

        class T(ast.NodeTransformer):
            def visit_Attribute(self, node):
                nonlocal n_rep
                self.generic_visit(node)
                if isinstance(node.ctx, ast.Load) and node.attr in consts and isinstance(node.value, ast.Name) and node.value.id in ("self", "cls", cd.name):
                    n_rep += 1
                    return ast.copy_location(copy.deepcopy(consts[node.attr]), node)
                return node

        for sub in cd.body:
            if isinstance(sub, FuncT):
                T().visit(sub)

        # a constants namespace class: `Class.NAME` anywhere else in the module
        cname = cd.name

        class T2(ast.NodeTransformer):
            def visit_Attribute(self, node):
                nonlocal n_rep
                self.generic_visit(node)
                if isinstance(node.ctx, ast.Load) and node.attr in consts and isinstance(node.value, ast.Name) and node.value.id == cname:
                    n_rep += 1
                    return ast.copy_location(copy.deepcopy(consts[node.attr]), node)
                return node

        for i, st in enumerate(tree.body):
            if st is not cd:
                tree.body[i] = T2().visit(st)
    return n_rep


# --------------------------------------------------------------------------
# helpers for inlining


def _body_wo_doc(fn):
    b = list(fn.body)
    if b and isinstance(b[0], ast.Expr) and isinstance(b[0].value, ast.Constant) and isinstance(b[0].value.value, str):
        b = b[1:]
    return b


def _own_walk(node):
    """walk without descending into nested function/lambda/class definitions (the node itself may be a def)"""
    todo = list(ast.iter_child_nodes(node))
    while todo:
        n = todo.pop()
        yield n
        if isinstance(n, FuncT + (ast.Lambda, ast.ClassDef)):
            continue
        todo.extend(ast.iter_child_nodes(n))


def _has_yield(fn) -> bool:
    return any(isinstance(n, (ast.Yield, ast.YieldFrom)) for n in _own_walk(fn))


def _returns_in(stmts) -> int:
    c = 0
    for s in stmts:
        if isinstance(s, ast.Return):
            c += 1
        if isinstance(s, FuncT + (ast.ClassDef,)):
            continue
        for n in _own_walk(s):
            if isinstance(n, ast.Return):
                c += 1
    return c


class NotInlinable(Exception):
    pass


def _linearize(stmts: list, target: Optional[str]) -> list:
    """Rewrite ``return e`` into ``<target> = e`` for a statement list whose returns appear only as the last statement of
    (nested) if/else chains at the tail; everything after an ``if c: …return`` is moved into the else branch."""
    out = []
    for i, s in enumerate(stmts):
        rest = stmts[i + 1:]
        if isinstance(s, ast.Return):
            if target is not None:
                val = s.value if s.value is not None else ast.Constant(value=None)
                out.append(ast.copy_location(ast.Assign(targets=[ast.Name(id=target, ctx=ast.Store())], value=val, lineno=s.lineno), s))
            elif s.value is not None and not isinstance(s.value, ast.Constant):
                out.append(ast.copy_location(ast.Expr(value=s.value), s))
            return out
        if isinstance(s, ast.If) and (_returns_in(s.body) or _returns_in(s.orelse)):
            body_ret = _always_returns(s.body)
            else_ret = _always_returns(s.orelse) if s.orelse else False
            new = copy.copy(s)
            if body_ret and not else_ret:
                new.body = _linearize(s.body, target)
                new.orelse = _linearize(list(s.orelse) + rest, target)
            elif else_ret and not body_ret:
                new.orelse = _linearize(s.orelse, target)
                new.body = _linearize(list(s.body) + rest, target)
            elif body_ret and else_ret:
                new.body = _linearize(s.body, target)
                new.orelse = _linearize(s.orelse, target)
            else:
                raise NotInlinable("conditional return that does not end its branch")
            if not new.body:
                new.body = [ast.copy_location(ast.Pass(), s)]
            out.append(new)
            return out
        if isinstance(s, ast.Try) and _returns_in([s]) and not _returns_in(s.finalbody) and not s.orelse and _always_returns([s]):
            # try: …return a / except: …return b (or raise): every way out of the statement leaves the helper - what follows is dead
            new = copy.copy(s)
            new.body = _linearize(s.body, target) or [ast.copy_location(ast.Pass(), s)]
            new.handlers = []
            for h in s.handlers:
                nh = copy.copy(h)
                nh.body = _linearize(h.body, target) if _returns_in(h.body) else list(h.body)
                if not nh.body:
                    nh.body = [ast.copy_location(ast.Pass(), h)]
                new.handlers.append(nh)
            out.append(new)
            return out
        if isinstance(s, (ast.With, ast.AsyncWith)) and _returns_in([s]) and not rest:
            new = copy.copy(s)
            new.body = _linearize(s.body, target)
            if not new.body:
                new.body = [ast.copy_location(ast.Pass(), s)]
            out.append(new)
            return out
        if _returns_in([s]):
            raise NotInlinable("return inside a loop / try / with")
        out.append(s)
    if target is not None:
        out.append(ast.Assign(targets=[ast.Name(id=target, ctx=ast.Store())], value=ast.Constant(value=None), lineno=getattr(stmts[-1], "lineno", 0) if stmts else 0))
    return out


def _always_returns(stmts) -> bool:
    if not stmts:
        return False
    last = stmts[-1]
    if isinstance(last, (ast.Return, ast.Raise)):
        return True
    if isinstance(last, ast.If) and last.orelse:
        return _always_returns(last.body) and _always_returns(last.orelse)
    if isinstance(last, ast.Try) and not last.orelse:
        return _always_returns(last.body) and all(_always_returns(h.body) for h in last.handlers)
    if isinstance(last, (ast.With, ast.AsyncWith)):
        return _always_returns(last.body)
    return False


class Region(ast.stmt):
    """Body of an inlined helper whose returns could not be linearised.  Not a loop: rules that count or look for loops do
    not see it; the CFG builder (sa/cfg.py) runs the body once and lets `RegionExit` jump behind it."""

    _fields = ("body",)


class RegionExit(ast.stmt):
    """a former `return` of an inlined helper: continue behind the enclosing Region"""

    _fields = ()


def _unparse_region(self, node):
    self.fill("if 'inlined helper'")
    with self.block():
        self.traverse(node.body)


def _unparse_region_exit(self, node):
    self.fill("pass  # leave the inlined helper")


# ast.unparse has no generic fallback for statement classes it does not know: teach it the two synthetic ones
def _unparse_formatted_value(self, node):
    """ast.unparse of Python < 3.12 refuses an f-string whose expression part needs a backslash; the text is only ever read by the rules (3.12 accepts it)"""
    def unparse_inner(inner):
        unparser = type(self)(_avoid_backslashes=True)
        unparser.set_precedence(ast._Precedence.TEST.next(), inner)
        return unparser.visit(inner)

    with self.delimit("{", "}"):
        expr = unparse_inner(node.value)
        if expr.startswith("{"):
            self.write(" ")
        self.write(expr)
        if node.conversion != -1:
            self.write(f"!{chr(node.conversion)}")
        if node.format_spec:
            self.write(":")
            self._write_fstring_inner(node.format_spec)


if hasattr(ast, "_Unparser"):
    if hasattr(ast, "_Precedence") and "_avoid_backslashes" in getattr(ast._Unparser.__init__, "__code__", type("x", (), {"co_varnames": ()})).co_varnames:
        ast._Unparser.visit_FormattedValue = _unparse_formatted_value  # type: ignore[attr-defined]
    ast._Unparser.visit_Region = _unparse_region  # type: ignore[attr-defined]
    ast._Unparser.visit_RegionExit = _unparse_region_exit  # type: ignore[attr-defined]


def _loopify(stmts: list, target: Optional[str], suffix: str) -> list:
    """General return elimination: the body becomes a Region, ``return e`` becomes ``<target> = e; RegionExit``."""

    def assign(name, value, at):
        return ast.copy_location(ast.Assign(targets=[ast.Name(id=name, ctx=ast.Store())], value=value, lineno=getattr(at, "lineno", 0)), at)

    def conv(block):
        out = []
        for s in block:
            if isinstance(s, ast.Return):
                if target is not None:
                    out.append(assign(target, s.value if s.value is not None else ast.Constant(value=None), s))
                elif s.value is not None and not isinstance(s.value, ast.Constant):
                    out.append(ast.copy_location(ast.Expr(value=s.value), s))
                out.append(ast.copy_location(RegionExit(), s))
                continue
            if isinstance(s, FuncT + (ast.ClassDef,)) or not _returns_in([s]):
                out.append(s)
                continue
            if type(s).__name__ == "Match":
                raise NotInlinable("match statement")
            new = copy.copy(s)
            if isinstance(s, ast.Try):
                if _returns_in(s.finalbody):
                    raise NotInlinable("return inside finally")
                new.handlers = []
                for h in s.handlers:
                    nh = copy.copy(h)
                    nh.body = conv(h.body)
                    new.handlers.append(nh)
            for field in ("body", "orelse"):
                sub = getattr(s, field, None)
                if isinstance(sub, list) and sub and isinstance(sub[0], ast.stmt):
                    setattr(new, field, conv(sub))
            out.append(new)
        return out

    body = conv(stmts)
    at = stmts[0] if stmts else ast.Pass()
    if target is not None and not _always_returns(stmts):
        body.append(assign(target, ast.Constant(value=None), at))
    region = ast.copy_location(Region(body=body or [ast.copy_location(ast.Pass(), at)]), at)
    return [region]


def _as_expression(fn) -> Optional[ast.AST]:
    """helper whose body is `return e` or an if-chain of returns -> a single expression (IfExp chain)"""
    body = _body_wo_doc(fn)

    def conv(stmts, env):
        if not stmts:
            return None
        s = stmts[0]
        if isinstance(s, ast.Assign) and len(s.targets) == 1 and isinstance(s.targets[0], ast.Name) and len(stmts) > 1:
            nm = s.targets[0].id
            if nm in env:
                return None  # re-bound temporary
            env2 = dict(env)
            env2[nm] = _Subst(env, {}).visit(copy.deepcopy(s.value))
            return conv(stmts[1:], env2)
        if isinstance(s, ast.Return) and s.value is not None:
            return _Subst(env, {}).visit(copy.deepcopy(s.value))
        if isinstance(s, ast.If) and len(s.body) == 1 and isinstance(s.body[0], ast.Return) and s.body[0].value is not None:
            other = conv(list(s.orelse) + stmts[1:], env) if s.orelse else conv(stmts[1:], env)
            if other is None:
                return None
            test = _Subst(env, {}).visit(copy.deepcopy(s.test))
            val = _Subst(env, {}).visit(copy.deepcopy(s.body[0].value))
            return ast.IfExp(test=test, body=val, orelse=other)
        return None

    return conv(body, {})


class _Subst(ast.NodeTransformer):
    def __init__(self, mapping, rename):
        self.mapping = mapping
        self.rename = rename

    def visit_Name(self, node):
        if node.id in self.mapping and isinstance(node.ctx, ast.Load):
            return ast.copy_location(copy.deepcopy(self.mapping[node.id]), node)
        if node.id in self.rename:
            return ast.copy_location(ast.Name(id=self.rename[node.id], ctx=node.ctx), node)
        return node

    def visit_FunctionDef(self, node):
        return node  # do not descend into nested defs

    visit_AsyncFunctionDef = visit_FunctionDef
    visit_Lambda = visit_FunctionDef


def _bind(fn, call: ast.Call, drop_self: bool):
    params = [a.arg for a in fn.args.args]
    if drop_self and params:
        params = params[1:]
    defaults = list(fn.args.defaults)
    dmap = dict(zip(params[len(params) - len(defaults):], defaults)) if defaults else {}
    mapping = {}
    if any(isinstance(a, ast.Starred) for a in call.args) or any(k.arg is None for k in call.keywords):
        raise NotInlinable("star args")
    if len(call.args) > len(params):
        raise NotInlinable("too many args")
    for p, a in zip(params, call.args):
        mapping[p] = a
    kwonly = {a.arg: d for a, d in zip(fn.args.kwonlyargs, fn.args.kw_defaults)}
    for k in call.keywords:
        if k.arg not in params and k.arg not in kwonly:
            raise NotInlinable("unknown keyword")
        mapping[k.arg] = k.value
    for p in params:
        if p not in mapping:
            if p in dmap:
                mapping[p] = dmap[p]
            else:
                raise NotInlinable("missing argument")
    for p, d in kwonly.items():
        if p not in mapping:
            if d is None:
                raise NotInlinable("missing kw-only argument")
            mapping[p] = d
    if fn.args.vararg or fn.args.kwarg:
        raise NotInlinable("variadic helper")
    return mapping


_counter = [0]


def _next_suffix() -> str:
    _counter[0] += 1
    return f"__inl{_counter[0]}"


def _prepare_body(fn, call, drop_self, taken=None):
    """(pre statements, body copy, parameter mapping, local renaming, suffix).  Locals of the helper are renamed only when
    their name is `taken` in the caller (None = rename all): rules that look for a variable by name keep finding it."""
    mapping = _bind(fn, call, drop_self)
    body = copy.deepcopy(_body_wo_doc(fn))
    shared = set()
    for s in body:
        for n in [s] + list(_own_walk(s)):
            if isinstance(n, (ast.Nonlocal, ast.Global)):
                shared.update(n.names)

    class Strip(ast.NodeTransformer):
        def visit_Nonlocal(self, node):
            return ast.copy_location(ast.Pass(), node)

        visit_Global = visit_Nonlocal

        def visit_FunctionDef(self, node):
            return node

        visit_AsyncFunctionDef = visit_FunctionDef

    body = [Strip().visit(s) for s in body]
    stores = set()
    for s in body:
        for n in [s] + list(_own_walk(s)):
            if isinstance(n, ast.Name) and isinstance(n.ctx, ast.Store):
                stores.add(n.id)
            if isinstance(n, ast.ExceptHandler) and n.name:
                stores.add(n.name)
    stores -= shared
    suffix = _next_suffix()
    pre = []
    rename = {}
    for p in list(mapping):
        effectful = any(isinstance(x, (ast.Call, ast.Await, ast.Yield, ast.NamedExpr)) for x in ast.walk(mapping[p]))
        n_uses = sum(1 for b in body for x in [b] + list(_own_walk(b)) if isinstance(x, ast.Name) and x.id == p and isinstance(x.ctx, ast.Load))
        if effectful and n_uses != 0 and p not in stores:
            # evaluate the argument once, where the call was: `p = <arg>` (renamed on collision)
            name = p if (taken is None or p not in taken) else p + suffix
            if taken is not None:
                taken.add(name)
            if name != p:
                rename[p] = name
            pre.append(ast.copy_location(ast.Assign(targets=[ast.Name(id=name, ctx=ast.Store())], value=copy.deepcopy(mapping[p]), lineno=call.lineno), call))
            del mapping[p]
            continue
        if p in stores:
            rename[p] = p + suffix
            pre.append(ast.copy_location(ast.Assign(targets=[ast.Name(id=p + suffix, ctx=ast.Store())], value=copy.deepcopy(mapping[p]), lineno=call.lineno), call))
            del mapping[p]
    for nm in stores:
        if nm not in rename and (taken is None or nm in taken):
            rename[nm] = nm + suffix
    if taken is not None:
        taken.update(stores)
    return pre, body, mapping, rename, suffix


class _FoldFStrings(ast.NodeTransformer):
    """f"{'>='} x" -> f">= x": a constant that was substituted into a replacement field becomes literal text again"""

    def visit_JoinedStr(self, node):
        self.generic_visit(node)
        vals = []
        for v in node.values:
            if isinstance(v, ast.FormattedValue) and isinstance(v.value, ast.Constant) and isinstance(v.value.value, (str, int)) and not isinstance(v.value.value, bool) \
                    and v.conversion == -1 and v.format_spec is None:
                v = ast.copy_location(ast.Constant(value=str(v.value.value)), v)
            if isinstance(v, ast.Constant) and vals and isinstance(vals[-1], ast.Constant):
                vals[-1] = ast.copy_location(ast.Constant(value=str(vals[-1].value) + str(v.value)), vals[-1])
            else:
                vals.append(v)
        node.values = vals
        return node


class _RenameHandlers(ast.NodeTransformer):
    def __init__(self, rename):
        self.rename = rename

    def visit_ExceptHandler(self, node):
        self.generic_visit(node)
        if node.name and node.name in self.rename:
            node.name = self.rename[node.name]
        return node

    def visit_FunctionDef(self, node):
        return node

    visit_AsyncFunctionDef = visit_FunctionDef


def _instantiate(fn, call, drop_self, target, taken=None):
    """statements of fn's body with parameters substituted, locals renamed, returns eliminated into `target`"""
    pre, body, mapping, rename, suffix = _prepare_body(fn, call, drop_self, taken)
    internal = f"__ret{suffix}" if target is not None else None
    if target is not None:
        names_in_body = {n.id for b in body for n in [b] + list(_own_walk(b)) if isinstance(n, ast.Name)}
        arg_names = {n.id for v in mapping.values() for n in ast.walk(v) if isinstance(n, ast.Name)}
        rets = [r for b in body for r in [b] + list(_own_walk(b)) if isinstance(r, ast.Return)]
        stores_b = {n.id for b in body for n in [b] + list(_own_walk(b)) if isinstance(n, ast.Name) and isinstance(n.ctx, ast.Store)}
        uniform = {r.value.id for r in rets if isinstance(r.value, ast.Name)} if rets and all(isinstance(r.value, ast.Name) for r in rets) else set()
        if len(uniform) == 1 and next(iter(uniform)) in stores_b and next(iter(uniform)) not in mapping and target not in arg_names \
                and (target == next(iter(uniform)) or target not in names_in_body) and target not in set(rename.values()):
            # the helper builds its result in one local and returns it: that local *is* the caller's variable
            rename[next(iter(uniform))] = target
            internal = target
        elif target not in (names_in_body | set(rename.values()) | arg_names):
            internal = target  # assign the caller's variable directly in every branch: no synthetic copy
    try:
        body2 = _linearize(body, internal)
    except NotInlinable:
        body2 = _loopify(body, internal, suffix)
    sub = _Subst(mapping, rename)
    body2 = [_FoldFStrings().visit(_RenameHandlers(rename).visit(sub.visit(s))) for s in body2]
    body2 = _drop_self_assign(body2)
    if target is not None and internal != target:
        body2.append(ast.copy_location(ast.Assign(targets=[ast.Name(id=target, ctx=ast.Store())], value=ast.Name(id=internal, ctx=ast.Load()), lineno=call.lineno), call))
    for s in pre + body2:
        ast.fix_missing_locations(s)
    return pre + body2


def _spread_tuple(stmts, tmp, names):
    """`tmp = NT(x, y)` / `tmp = (x, y)` in every branch -> `a = x; b = y` (the caller unpacks the result into a, b); None if some
    binding of tmp is not such a constructor"""
    okk = [True]

    def elems(v):
        if isinstance(v, (ast.Tuple, ast.List)) and len(v.elts) == len(names) and not any(isinstance(e, ast.Starred) for e in v.elts):
            return list(v.elts)
        if isinstance(v, ast.Call) and not v.keywords and len(v.args) == len(names) and not any(isinstance(e, ast.Starred) for e in v.args) and isinstance(v.func, (ast.Name, ast.Attribute)):
            nm = v.func.id if isinstance(v.func, ast.Name) else v.func.attr
            if nm.lstrip("_")[:1].isupper():
                return list(v.args)
        if isinstance(v, ast.Call) and v.keywords and not v.args and len(v.keywords) == len(names) and isinstance(v.func, ast.Name) and v.func.id.lstrip("_")[:1].isupper():
            return None
        return None

    def fix(block):
        out = []
        for st in block:
            if isinstance(st, ast.Assign) and len(st.targets) == 1 and isinstance(st.targets[0], ast.Name) and st.targets[0].id == tmp:
                es = elems(st.value)
                if es is None:
                    okk[0] = False
                    out.append(st)
                    continue
                # a target that is read by a later element would be clobbered: go through temporaries then
                hazard = any(isinstance(n, ast.Name) and n.id in names[:i] for i, e in enumerate(es) for n in ast.walk(e))
                if hazard:
                    okk[0] = False
                    out.append(st)
                    continue
                for nm, e in zip(names, es):
                    if not (isinstance(e, ast.Name) and e.id == nm):
                        out.append(ast.copy_location(ast.Assign(targets=[ast.Name(id=nm, ctx=ast.Store())], value=e, lineno=st.lineno), st))
                continue
            if not isinstance(st, FuncT + (ast.ClassDef,)):
                for field in ("body", "orelse", "finalbody"):
                    sub = getattr(st, field, None)
                    if isinstance(sub, list) and sub and isinstance(sub[0], ast.stmt):
                        nb = fix(sub)
                        setattr(st, field, nb if (nb or field != "body") else [ast.copy_location(ast.Pass(), st)])
                if isinstance(st, ast.Try):
                    for h in st.handlers:
                        h.body = fix(h.body) or [ast.copy_location(ast.Pass(), h)]
            out.append(st)
        return out

    res = fix(copy.deepcopy(stmts))
    return res if okk[0] else None


def _strip_cm_dummy(block):
    out = []
    for st in block:
        if isinstance(st, ast.Assign) and len(st.targets) == 1 and isinstance(st.targets[0], ast.Name) and st.targets[0].id.startswith("__cm"):
            continue
        if not isinstance(st, FuncT + (ast.ClassDef,)):
            for field in ("body", "orelse", "finalbody"):
                sub = getattr(st, field, None)
                if isinstance(sub, list) and sub and isinstance(sub[0], ast.stmt):
                    nb = _strip_cm_dummy(sub)
                    setattr(st, field, nb if (nb or field != "body") else [ast.copy_location(ast.Pass(), st)])
            if isinstance(st, ast.Try):
                for h in st.handlers:
                    h.body = _strip_cm_dummy(h.body) or [ast.copy_location(ast.Pass(), h)]
        out.append(st)
    return out


def _drop_self_assign(block):
    out = []
    for s in block:
        if isinstance(s, ast.Assign) and len(s.targets) == 1 and isinstance(s.targets[0], ast.Name) and isinstance(s.value, ast.Name) and s.value.id == s.targets[0].id:
            continue
        if not isinstance(s, FuncT + (ast.ClassDef,)):
            for field in ("body", "orelse", "finalbody"):
                sub = getattr(s, field, None)
                if isinstance(sub, list) and sub and isinstance(sub[0], ast.stmt):
                    nb = _drop_self_assign(sub)
                    setattr(s, field, nb if (nb or field != "body") else [ast.copy_location(ast.Pass(), s)])
            if isinstance(s, ast.Try):
                for h in s.handlers:
                    h.body = _drop_self_assign(h.body) or [ast.copy_location(ast.Pass(), h)]
        out.append(s)
    return out


def _yield_nodes(fn):
    return [n for n in _own_walk(fn) if isinstance(n, (ast.Yield, ast.YieldFrom))]


def _parent_map(root):
    pm = {}
    for p in ast.walk(root):
        for c in ast.iter_child_nodes(p):
            pm[id(c)] = p
    return pm


def _is_tail(node, top, parents) -> bool:
    """nothing of `top` executes after `node` (node is last in its block, recursively up to top's body; no enclosing loop)"""
    cur = node
    while cur is not top:
        p = parents.get(id(cur))
        if p is None:
            return False
        placed = False
        for field in ("body", "orelse", "finalbody"):
            seq = getattr(p, field, None)
            if isinstance(seq, list) and any(x is cur for x in seq):
                placed = True
                if seq[-1] is not cur:
                    return False
                if isinstance(p, LoopT) and p is not top and field == "body":
                    return False
                if isinstance(p, ast.Try) and field == "body" and (p.orelse or p.finalbody):
                    return False
        if isinstance(p, ast.ExceptHandler):
            placed = True
        if not placed and not isinstance(p, (ast.ExceptHandler,)):
            # expression parents etc.
            pass
        cur = p
    return True


def _unbound_jumps(stmts, kinds):
    """break/continue statements in stmts that are bound to the *enclosing* loop (not to a loop nested in stmts)"""
    out = []

    def go(block, depth):
        for s in block:
            if isinstance(s, kinds) and depth == 0:
                out.append(s)
            if isinstance(s, FuncT + (ast.ClassDef,)):
                continue
            d2 = depth + 1 if isinstance(s, LoopT) else depth
            for field in ("body", "orelse", "finalbody"):
                sub = getattr(s, field, None)
                if isinstance(sub, list) and sub and isinstance(sub[0], ast.stmt):
                    go(sub, d2 if field == "body" else depth)
            if isinstance(s, ast.Try):
                for h in s.handlers:
                    go(h.body, depth)

    go(stmts, 0)
    return out


def _fuse_generator(fn, call, drop_self, target_node, loop_body, taken=None):
    """``for T in gen(args): BODY`` -> gen's body with every ``yield e`` replaced by ``T = e; BODY``"""
    ynodes = _yield_nodes(fn)
    if any(isinstance(y, ast.YieldFrom) for y in ynodes):
        raise NotInlinable("yield from")
    body0 = _body_wo_doc(fn)
    ystmts = [n for s in body0 for n in [s] + list(_own_walk(s)) if isinstance(n, ast.Expr) and isinstance(n.value, ast.Yield)]
    if len(ystmts) != len(ynodes):
        raise NotInlinable("yield used as an expression")
    gen_returns = bool(_returns_in(body0))
    has_break = bool(_unbound_jumps(loop_body, (ast.Break,)))
    has_continue = bool(_unbound_jumps(loop_body, (ast.Continue,)))
    use_region = gen_returns or has_break  # `return` in the generator / `break` in the consumer both end the whole iteration
    if has_continue:
        parents = _parent_map(fn)
        loops = set()
        for y in ystmts:
            p = parents.get(id(y))
            lp = None
            while p is not None and p is not fn:
                if isinstance(p, LoopT):
                    lp = p
                    break
                p = parents.get(id(p))
            if lp is None:
                raise NotInlinable("break/continue in the consumer but the yield is not inside a loop")
            loops.add(id(lp))
            if has_continue and not _is_tail(y, lp, parents):
                raise NotInlinable("continue in the consumer but statements follow the yield")
        if len(loops) != 1:
            raise NotInlinable("yields in several loops")
    pre, body, mapping, rename, suffix = _prepare_body(fn, call, drop_self, taken)
    # a generator that yields a plain local name into a plain target: rename instead of assigning (keeps the audited shape)
    if isinstance(target_node, ast.Name):
        ynames = {y.value.value.id for s in body for y in [s] + list(_own_walk(s)) if isinstance(y, ast.Expr) and isinstance(y.value, ast.Yield) and isinstance(y.value.value, ast.Name)}
        nyield = sum(1 for s in body for y in [s] + list(_own_walk(s)) if isinstance(y, ast.Expr) and isinstance(y.value, ast.Yield))
        if len(ynames) == 1 and nyield == len([1 for s in body for y in [s] + list(_own_walk(s)) if isinstance(y, ast.Expr) and isinstance(y.value, ast.Yield) and isinstance(y.value.value, ast.Name)]):
            v = next(iter(ynames))
            all_names = {n.id for s in body for n in [s] + list(_own_walk(s)) if isinstance(n, ast.Name)}
            if v == target_node.id and v not in mapping:
                rename.pop(v, None)  # same name on both sides: keep it
            elif target_node.id not in all_names and v not in mapping:
                rename[v] = target_node.id
    sub = _Subst(mapping, rename)
    body = [_RenameHandlers(rename).visit(sub.visit(s)) for s in body]

    # a consumer body that reads the item exactly once (`acc.add(item)`): substitute the yielded expression itself
    single_use = False
    if isinstance(target_node, ast.Name):
        uses = [n for b in loop_body for n in [b] + list(_own_walk(b)) if isinstance(n, ast.Name) and n.id == target_node.id]
        single_use = len(uses) == 1 and isinstance(uses[0].ctx, ast.Load) and len(loop_body) == 1 and isinstance(loop_body[0], (ast.Expr, ast.Assign, ast.AugAssign))

    def fix(block):
        out = []
        for s in block:
            if isinstance(s, ast.Expr) and isinstance(s.value, ast.Yield):
                val = s.value.value if s.value.value is not None else ast.Constant(value=None)
                if single_use and not (isinstance(val, ast.Name) and val.id == target_node.id):
                    out.extend(_Subst({target_node.id: val}, {}).visit(b) for b in copy.deepcopy(loop_body))
                    continue
                if isinstance(target_node, (ast.Tuple, ast.List)) and isinstance(val, (ast.Tuple, ast.List)) and len(val.elts) == len(target_node.elts) \
                        and all(isinstance(t, ast.Name) for t in target_node.elts) and not any(isinstance(e, ast.Starred) for e in val.elts):
                    # element-wise binding keeps each name a simple alias of its expression
                    tnames = {t.id for t in target_node.elts}
                    if not any(isinstance(n, ast.Name) and n.id in tnames for e in val.elts for n in ast.walk(e)):
                        for t, e in zip(target_node.elts, val.elts):
                            if not (isinstance(e, ast.Name) and e.id == t.id):
                                out.append(ast.copy_location(ast.Assign(targets=[copy.deepcopy(t)], value=e, lineno=s.lineno), s))
                        out.extend(copy.deepcopy(loop_body))
                        continue
                if not (isinstance(val, ast.Name) and isinstance(target_node, ast.Name) and val.id == target_node.id):
                    out.append(ast.copy_location(ast.Assign(targets=[copy.deepcopy(target_node)], value=val, lineno=s.lineno), s))
                out.extend(copy.deepcopy(loop_body))
                continue
            if not isinstance(s, FuncT + (ast.ClassDef,)):
                for field in ("body", "orelse", "finalbody"):
                    subb = getattr(s, field, None)
                    if isinstance(subb, list) and subb and isinstance(subb[0], ast.stmt):
                        setattr(s, field, fix(subb))
                if isinstance(s, ast.Try):
                    for h in s.handlers:
                        h.body = fix(h.body)
            out.append(s)
        return out

    if use_region:
        # the consumer's own `break` (bound to the fused loop) leaves the whole region
        brk_ids = {id(b) for b in _unbound_jumps(loop_body, (ast.Break,))}
        lb_index = {}

        def mark(block, depth):
            for st in block:
                if isinstance(st, ast.Break) and depth == 0:
                    st._region_exit = True  # type: ignore[attr-defined]
                if isinstance(st, FuncT + (ast.ClassDef,)):
                    continue
                d2 = depth + 1 if isinstance(st, LoopT) else depth
                for field in ("body", "orelse", "finalbody"):
                    sub = getattr(st, field, None)
                    if isinstance(sub, list) and sub and isinstance(sub[0], ast.stmt):
                        mark(sub, d2 if field == "body" else depth)
                if isinstance(st, ast.Try):
                    for h in st.handlers:
                        mark(h.body, depth)

        loop_body = copy.deepcopy(loop_body)
        mark(loop_body, 0)
    body = fix(body)
    if use_region:
        def conv(block):
            out = []
            for st in block:
                if isinstance(st, ast.Return):
                    out.append(ast.copy_location(RegionExit(), st))
                    continue
                if isinstance(st, ast.Break) and getattr(st, "_region_exit", False):
                    out.append(ast.copy_location(RegionExit(), st))
                    continue
                if not isinstance(st, FuncT + (ast.ClassDef,)):
                    for field in ("body", "orelse", "finalbody"):
                        sub = getattr(st, field, None)
                        if isinstance(sub, list) and sub and isinstance(sub[0], ast.stmt):
                            setattr(st, field, conv(sub))
                    if isinstance(st, ast.Try):
                        for h in st.handlers:
                            h.body = conv(h.body)
                out.append(st)
            return out

        body = [ast.copy_location(Region(body=conv(body) or [ast.Pass()]), call)]
    for s in pre + body:
        ast.fix_missing_locations(s)
    return pre + body


# --------------------------------------------------------------------------
# program-level normaliser


class ProgramNormalizer:
    def __init__(self, trees: dict, is_init: dict, focus: Optional[set] = None):
        self.trees = trees
        self.is_init = is_init
        self.focus = focus  # when set: only these modules are (re-)normalised, the others already are
        self.needs_full_reload = False
        self.known = known_funcs()
        self.funcs: dict = {}
        self.classes: dict = {}
        self.imports: dict = {}
        self.stats = {m: {"constants_propagated": 0, "helper_calls_inlined": 0} for m in trees}
        self._moved_cache: dict = {}
        self._index()

    # ---- index -----------------------------------------------------------
    def _index(self):
        for mod, tree in self.trees.items():
            fs, cs = {}, {}

            def scan(body):
                for st in body:
                    if isinstance(st, FuncT):
                        fs[st.name] = st
                    elif isinstance(st, ast.ClassDef):
                        cs[st.name] = st
                    elif isinstance(st, (ast.If, ast.Try)):
                        scan(st.body)
                        scan(st.orelse)
                        if isinstance(st, ast.Try):
                            scan(st.finalbody)
                            for h in st.handlers:
                                scan(h.body)

            scan(tree.body)
            self.funcs[mod] = fs
            self.classes[mod] = cs
            imp = {}
            for node in ast.walk(tree):
                if isinstance(node, ast.Import):
                    for a in node.names:
                        imp[a.asname or a.name.split(".")[0]] = a.name if a.asname else a.name.split(".")[0]
                elif isinstance(node, ast.ImportFrom):
                    base = node.module or ""
                    if node.level:
                        parts = mod.split(".")
                        pkgparts = parts if self.is_init.get(mod) else parts[:-1]
                        anchor = pkgparts[: len(pkgparts) - (node.level - 1)]
                        base = ".".join(anchor + ([node.module] if node.module else []))
                    for a in node.names:
                        imp[a.asname or a.name] = f"{base}.{a.name}" if base else a.name
            # module-level aliases of imported things (`_is_lower_hex = util.is_lower_hex`) resolve like imports
            for st in tree.body:
                if isinstance(st, ast.Assign) and len(st.targets) == 1 and isinstance(st.targets[0], ast.Name) and st.targets[0].id not in fs and st.targets[0].id not in cs:
                    v = st.value
                    if isinstance(v, ast.Attribute) and isinstance(v.value, ast.Name) and v.value.id in imp and v.value.id not in fs:
                        imp.setdefault(st.targets[0].id, f"{imp[v.value.id]}.{v.attr}")
                    elif isinstance(v, ast.Name) and v.id in imp and v.id != st.targets[0].id:
                        imp.setdefault(st.targets[0].id, imp[v.id])
            self.imports[mod] = imp
        # a known function that now lives elsewhere under another name and is imported/aliased back under its audited name
        self._aliased_known = set()
        for mod, imp in self.imports.items():
            for local, tgt in imp.items():
                if f"{mod}:{local}" in self.known and local not in self.funcs.get(mod, {}):
                    m2, _, sym = tgt.rpartition(".")
                    if m2 in self.trees and sym in self.funcs.get(m2, {}):
                        self._aliased_known.add((m2, sym))

    def resolve(self, mod, name, depth=0):
        """name visible in module `mod` -> ('func', mod2, def) | ('class', mod2, ClassDef) | ('module', mod2) | None"""
        if depth > 4:
            return None
        if name in self.funcs.get(mod, {}):
            return ("func", mod, self.funcs[mod][name])
        if name in self.classes.get(mod, {}):
            return ("class", mod, self.classes[mod][name])
        tgt = self.imports.get(mod, {}).get(name)
        if tgt is None:
            return None
        if tgt in self.trees:
            return ("module", tgt)
        m2, _, sym = tgt.rpartition(".")
        if m2 in self.trees and m2 != mod:
            return self.resolve(m2, sym, depth + 1)
        return None

    def _moved_known(self, qual) -> bool:
        """a known function of that qualified name is missing from its frozen module: this def is the moved original"""
        if qual in self._moved_cache:
            return self._moved_cache[qual]
        res = False
        for k in self.known:
            m0, _, q0 = k.partition(":")
            if q0 == qual and m0 in self.trees:
                if "." in q0:
                    c, _, meth = q0.partition(".")
                    cd = self.classes.get(m0, {}).get(c)
                    if cd is None or not any(isinstance(s, FuncT) and s.name == meth for s in cd.body):
                        res = True
                elif q0 not in self.funcs.get(m0, {}):
                    res = True
        self._moved_cache[qual] = res
        return res

    def is_new(self, mod, qual, fn) -> bool:
        if f"{mod}:{qual}" in self.known:
            return False
        if self._moved_known(qual):
            return False
        if (mod, qual) in getattr(self, "_aliased_known", ()):
            return False
        for d in fn.decorator_list:
            if not (isinstance(d, ast.Name) and d.id in ("staticmethod", "classmethod")):
                return False
        if fn.name.startswith("__") and fn.name.endswith("__"):
            return False
        return True

    def class_method(self, mod, cd, name, seen=None):
        """(defining module, ClassDef, def) for method `name` of class cd or its bases"""
        seen = seen if seen is not None else set()
        if id(cd) in seen:
            return None
        seen.add(id(cd))
        for s in cd.body:
            if isinstance(s, FuncT) and s.name == name:
                return mod, cd, s
        for b in cd.bases:
            r = None
            if isinstance(b, ast.Name):
                r = self.resolve(mod, b.id)
            elif isinstance(b, ast.Attribute) and isinstance(b.value, ast.Name):
                rm = self.resolve(mod, b.value.id)
                if rm and rm[0] == "module":
                    r = self.resolve(rm[1], b.attr)
            if r and r[0] == "class":
                got = self.class_method(r[1], r[2], name, seen)
                if got:
                    return got
        return None

    def class_attr(self, mod, cd, name):
        for s in cd.body:
            if isinstance(s, ast.Assign) and len(s.targets) == 1 and isinstance(s.targets[0], ast.Name) and s.targets[0].id == name:
                return s.value
        return None

    # ---- callee resolution -----------------------------------------------
    def callee_of(self, func_expr, ctx):
        """(def, drop_self) for a callable expression, if it denotes a *new* helper"""
        mod, cd, fn, nested = ctx["mod"], ctx["cls"], ctx["fn"], ctx["nested"]
        f = func_expr
        if isinstance(f, ast.Name):
            if f.id in nested:
                d = nested[f.id]
                return (d, False) if d is not fn else None
            if ctx.get("class_scope_names") and f.id in ctx["class_scope_names"]:
                return (ctx["class_scope_names"][f.id], False)
            r = self.resolve(mod, f.id)
            if r and r[0] == "func" and self.is_new(r[1], r[2].name, r[2]) and r[2] is not fn:
                return (r[2], False)
            return None
        if isinstance(f, ast.Attribute) and isinstance(f.value, ast.Name):
            base = f.value.id
            if base in ("self", "cls") and cd is not None:
                got = self.class_method(mod, cd, f.attr)
                if got:
                    m2, c2, d = got
                    if d is fn or not self.is_new(m2, f"{c2.name}.{d.name}", d):
                        return None
                    static = any(isinstance(x, ast.Name) and x.id == "staticmethod" for x in d.decorator_list)
                    return (d, not static)
                return None
            r = self.resolve(mod, base)
            if r and r[0] == "module":
                d = self.funcs.get(r[1], {}).get(f.attr)
                if d is not None and d is not fn and self.is_new(r[1], d.name, d):
                    return (d, False)
            if r and r[0] == "class":
                got = self.class_method(r[1], r[2], f.attr)
                if got:
                    m2, c2, d = got
                    if d is fn or not self.is_new(m2, f"{c2.name}.{d.name}", d):
                        return None
                    clsm = any(isinstance(x, ast.Name) and x.id == "classmethod" for x in d.decorator_list)
                    return (d, clsm)  # staticmethod / Class.method(self, …): arguments as written
        return None

    # ---- per function ----------------------------------------------------
    def process_function(self, fn, mod, cd):
        nested = {}
        qual_prefix = (f"{cd.name}." if cd is not None else "") + fn.name

        def collect_nested(block):
            for s in block:
                if isinstance(s, FuncT):
                    q = f"{qual_prefix}.{s.name}"
                    if f"{mod}:{q}" not in self.known and not s.decorator_list and not _has_yield(s):
                        nested[s.name] = s
                elif not isinstance(s, ast.ClassDef):
                    for field in ("body", "orelse", "finalbody"):
                        sub = getattr(s, field, None)
                        if isinstance(sub, list) and sub and isinstance(sub[0], ast.stmt):
                            collect_nested(sub)
                    if isinstance(s, ast.Try):
                        for h in s.handlers:
                            collect_nested(h.body)

        collect_nested(fn.body)
        taken = set()
        for n in ast.walk(fn):
            if isinstance(n, ast.Name):
                taken.add(n.id)
            elif isinstance(n, ast.arg):
                taken.add(n.arg)
        for d in nested.values():
            # names that only occur inside a closure about to be inlined do not collide with anything
            inner = {n.id for n in ast.walk(d) if isinstance(n, ast.Name)}
            outside = set()
            ids_inside = {id(n) for n in ast.walk(d)}
            for n in ast.walk(fn):
                if isinstance(n, ast.Name) and id(n) not in ids_inside:
                    outside.add(n.id)
            taken -= (inner - outside)
        ctx = {"mod": mod, "cls": cd, "fn": fn, "nested": nested, "taken": taken}
        count = [0]
        fn.body = self.rewrite_block(fn.body, ctx, count)
        outer = self

        class E(ast.NodeTransformer):
            def visit_Call(self, node):
                self.generic_visit(node)
                got = outer.callee_of(node.func, ctx)
                if got is None:
                    return node
                callee, drop_self = got
                if isinstance(callee, ast.AsyncFunctionDef) or _has_yield(callee):
                    return node
                expr = _as_expression(callee)
                if expr is None:
                    return node
                try:
                    mapping = _bind(callee, node, drop_self)
                except NotInlinable:
                    return node
                count[0] += 1
                new = _Subst(mapping, {}).visit(copy.deepcopy(expr))
                return ast.copy_location(new, node)

            def visit_FunctionDef(self, node):
                return node

            visit_AsyncFunctionDef = visit_FunctionDef

        for i, s in enumerate(fn.body):
            if not isinstance(s, FuncT + (ast.ClassDef,)):
                fn.body[i] = E().visit(s)
        ast.fix_missing_locations(fn)
        if nested and count[0]:
            def used_outside(d):
                inside = {id(n) for n in ast.walk(d)}
                return any(isinstance(n, ast.Name) and n.id == d.name and isinstance(n.ctx, ast.Load) and id(n) not in inside for n in ast.walk(fn))

            def drop(block):
                out = []
                for s in block:
                    if isinstance(s, FuncT) and s.name in nested and not used_outside(s):
                        continue
                    if not isinstance(s, FuncT + (ast.ClassDef,)):
                        for field in ("body", "orelse", "finalbody"):
                            sub = getattr(s, field, None)
                            if isinstance(sub, list) and sub and isinstance(sub[0], ast.stmt):
                                nb = drop(sub)
                                if field == "body" and not nb:
                                    nb = [ast.copy_location(ast.Pass(), s)]
                                setattr(s, field, nb)
                        if isinstance(s, ast.Try):
                            for h in s.handlers:
                                h.body = drop(h.body) or [ast.copy_location(ast.Pass(), h)]
                    out.append(s)
                return out

            fn.body = drop(fn.body) or [ast.Pass()]
            ast.fix_missing_locations(fn)
        return count[0]

    # ---- statement rewriting ------------------------------------------------
    def rewrite_block(self, stmts, ctx, count):
        out = []
        todo = list(stmts)
        guard = 0
        while todo:
            s = todo.pop(0)
            guard += 1
            if isinstance(s, FuncT) and s.name not in ctx["nested"] and guard <= 3000:
                # a nested function that is part of the audited shape: its body may call new helpers as well
                ctx2 = dict(ctx)
                ctx2["fn"] = s
                s.body = self.rewrite_block(s.body, ctx2, count)
                out.append(s)
                continue
            if guard > 3000 or isinstance(s, FuncT + (ast.ClassDef,)):
                out.append(s)
                continue
            repl = self.rewrite_stmt(s, ctx, count)
            if repl is None:
                for field in ("body", "orelse", "finalbody"):
                    sub = getattr(s, field, None)
                    if isinstance(sub, list) and sub and isinstance(sub[0], ast.stmt):
                        setattr(s, field, self.rewrite_block(sub, ctx, count))
                if isinstance(s, ast.Try):
                    for h in s.handlers:
                        h.body = self.rewrite_block(h.body, ctx, count)
                out.append(s)
            else:
                todo = list(repl) + todo  # re-examine (helpers calling helpers, several calls in one statement)
        return out

    def _single_binding(self, name, ctx):
        fn = ctx["fn"]
        binds = [s for s in ast.walk(fn) if isinstance(s, ast.Assign) and len(s.targets) == 1 and isinstance(s.targets[0], ast.Name) and s.targets[0].id == name]
        other = [n for n in ast.walk(fn) if isinstance(n, ast.Name) and n.id == name and isinstance(n.ctx, ast.Store)]
        if len(binds) == 1 and len(other) == 1:
            return binds[0].value
        return None

    def _local_dispatch(self, name, ctx):
        """`name = D.get(K[, default])` / `D[K]`: ((Dict node, ctx'), K expr, default expr|None)"""
        v = self._single_binding(name, ctx)
        if v is None:
            return None
        dexpr = key = default = None
        if isinstance(v, ast.Call) and isinstance(v.func, ast.Attribute) and v.func.attr == "get" and 1 <= len(v.args) <= 2 and not v.keywords:
            dexpr, key = v.func.value, v.args[0]
            default = v.args[1] if len(v.args) == 2 else None
        elif isinstance(v, ast.Subscript):
            dexpr, key = v.value, v.slice
        if dexpr is None:
            return None
        d = self._dict_of(dexpr, ctx)
        if d is None:
            return None
        return d, key, default

    def _dict_of(self, dexpr, ctx):
        """Dict literal denoted by a literal / local name / module name / self.attr / Class.attr, all values denoting new helpers"""
        fn, mod, cd = ctx["fn"], ctx["mod"], ctx["cls"]
        node = None
        scope_names = None
        if isinstance(dexpr, ast.Dict):
            node = dexpr
        elif isinstance(dexpr, ast.Name):
            v = self._single_binding(dexpr.id, ctx)
            if isinstance(v, ast.Dict):
                node = v
            elif v is None and not any(isinstance(n, ast.Name) and n.id == dexpr.id and isinstance(n.ctx, ast.Store) for n in ast.walk(fn)):
                for st in self.trees[mod].body:
                    if isinstance(st, ast.Assign) and len(st.targets) == 1 and isinstance(st.targets[0], ast.Name) and st.targets[0].id == dexpr.id and isinstance(st.value, ast.Dict):
                        node = st.value
        elif isinstance(dexpr, ast.Attribute) and isinstance(dexpr.value, ast.Name) and cd is not None and dexpr.value.id in ("self", "cls", cd.name):
            v = self.class_attr(mod, cd, dexpr.attr)
            if isinstance(v, ast.Dict):
                node = v
                scope_names = {s.name: s for s in cd.body if isinstance(s, FuncT) and self.is_new(mod, f"{cd.name}.{s.name}", s)}
        if node is None or not node.keys or any(k is None or not isinstance(k, ast.Constant) for k in node.keys):
            return None
        ctx2 = dict(ctx)
        if scope_names:
            ctx2["class_scope_names"] = scope_names
        for v in node.values:
            if self._callable_target(v, ctx2) is None:
                return None
        return node, ctx2

    def _callable_target(self, v, ctx):
        """(func expr, extra leading args) when v denotes a new helper (possibly functools.partial(helper, a…))"""
        if isinstance(v, ast.Call) and ast.unparse(v.func) in ("partial", "functools.partial") and v.args and not v.keywords:
            inner = self._callable_target(v.args[0], ctx)
            if inner is None:
                return None
            return inner[0], list(inner[1]) + list(v.args[1:])
        if isinstance(v, (ast.Name, ast.Attribute)):
            got = self.callee_of(v, ctx)
            if got is not None and not _has_yield(got[0]):
                return v, []
        return None

    def _materialise(self, fexpr, ctx2):
        """a class-scope function name used as a table value is called with an explicit self: address it as Class.name"""
        if isinstance(fexpr, ast.Name) and ctx2.get("class_scope_names") and fexpr.id in ctx2["class_scope_names"] and ctx2["cls"] is not None:
            return ast.Attribute(value=ast.Name(id=ctx2["cls"].name, ctx=ast.Load()), attr=fexpr.id, ctx=ast.Load())
        return copy.deepcopy(fexpr)

    def rewrite_stmt(self, s, ctx, count):
        """list of replacement statements, or None when s is left as it is"""
        r = self._rewrite_dispatch(s, ctx, count)
        if r is not None:
            return r
        # for f in (helper_a, helper_b): f(x)   /   for name, f in (("a", self._a), ("b", self._b)): …
        if isinstance(s, ast.For) and isinstance(s.iter, (ast.Tuple, ast.List)) and s.iter.elts and not s.orelse and not _unbound_jumps(s.body, (ast.Break, ast.Continue)):
            tnames = None
            if isinstance(s.target, ast.Name):
                tnames = [s.target.id]
                rows = [[e] for e in s.iter.elts]
            elif isinstance(s.target, (ast.Tuple, ast.List)) and all(isinstance(t, ast.Name) for t in s.target.elts):
                tnames = [t.id for t in s.target.elts]
                rows = [list(e.elts) if isinstance(e, (ast.Tuple, ast.List)) and len(e.elts) == len(tnames) else None for e in s.iter.elts]
            if tnames and all(r is not None for r in rows):
                cols_callable = [i for i in range(len(tnames)) if all(self._callable_target(r[i], ctx) is not None for r in rows)]
                others_simple = all(isinstance(r[i], ast.Constant) or i in cols_callable for r in rows for i in range(len(tnames)))
                if cols_callable and others_simple:
                    self.__dict__.setdefault("unrolled_tables", set()).add(id(s.iter))
                    out = []
                    body_stores = {n.id for b in s.body for n in [b] + list(_own_walk(b)) if isinstance(n, ast.Name) and isinstance(n.ctx, ast.Store)} - set(tnames)
                    for r in rows:
                        suffix = _next_suffix()
                        targets = {tnames[i]: self._callable_target(r[i], ctx) for i in cols_callable}
                        consts = {tnames[i]: r[i] for i in range(len(tnames)) if i not in cols_callable}
                        rename = {nm: nm + suffix for nm in body_stores}

                        class R(ast.NodeTransformer):
                            def visit_Call(self, node):
                                self.generic_visit(node)
                                if isinstance(node.func, ast.Name) and node.func.id in targets:
                                    fexpr, extra = targets[node.func.id]
                                    node.func = copy.deepcopy(fexpr)
                                    node.args = [copy.deepcopy(a) for a in extra] + node.args
                                elif isinstance(node.func, ast.Name) and node.func.id == "getattr" and len(node.args) == 2 and isinstance(node.args[1], ast.Constant) and isinstance(node.args[1].value, str):
                                    return ast.copy_location(ast.Attribute(value=node.args[0], attr=node.args[1].value, ctx=ast.Load()), node)
                                return node

                            def visit_Name(self, node):
                                if node.id in consts and isinstance(node.ctx, ast.Load):
                                    return ast.copy_location(copy.deepcopy(consts[node.id]), node)
                                if node.id in rename:
                                    return ast.copy_location(ast.Name(id=rename[node.id], ctx=node.ctx), node)
                                return node

                        for b in copy.deepcopy(s.body):
                            out.append(R().visit(b))
                    count[0] += 1
                    for o in out:
                        ast.fix_missing_locations(o)
                    return out
        # generator helpers
        if isinstance(s, (ast.For, ast.AsyncFor)) and not s.orelse and isinstance(s.iter, ast.Call):
            got = self.callee_of(s.iter.func, ctx)
            if got is not None and _has_yield(got[0]) and isinstance(got[0], ast.AsyncFunctionDef) == isinstance(s, ast.AsyncFor):
                try:
                    r = _fuse_generator(got[0], s.iter, got[1], s.target, s.body, ctx["taken"])
                    count[0] += 1
                    return r
                except NotInlinable as e:
                    _dbg("generator", got[0].name, "not fused:", e)
        r = self._rewrite_generator_consumer(s, ctx, count)
        if r is not None:
            return r
        r = self._rewrite_ctxmgr(s, ctx, count)
        if r is not None:
            return r
        r = self._rewrite_executor(s, ctx, count)
        if r is not None:
            return r
        # statement-position calls
        call, wrap = None, None
        if isinstance(s, ast.Expr):
            v = s.value
            call = v.value if isinstance(v, ast.Await) else v
            wrap = "expr"
        elif isinstance(s, ast.Assign) and len(s.targets) == 1 and isinstance(s.targets[0], ast.Name):
            v = s.value
            call = v.value if isinstance(v, ast.Await) else v
            wrap = "assign"
        elif isinstance(s, ast.Return) and s.value is not None:
            v = s.value
            call = v.value if isinstance(v, ast.Await) else v
            wrap = "return"
        if isinstance(s, ast.Assign) and len(s.targets) == 1 and isinstance(s.targets[0], (ast.Tuple, ast.List)) and all(isinstance(t, ast.Name) for t in s.targets[0].elts):
            v = s.value
            c2 = v.value if isinstance(v, ast.Await) else v
            if isinstance(c2, ast.Call):
                got = self.callee_of(c2.func, ctx)
                if got is not None and not _has_yield(got[0]) and isinstance(got[0], ast.AsyncFunctionDef) == isinstance(v, ast.Await):
                    try:
                        tmp = f"__tup{_next_suffix()}"
                        repl = _instantiate(got[0], c2, got[1], tmp, ctx["taken"])
                        names = [t.id for t in s.targets[0].elts]
                        repl2 = _spread_tuple(repl, tmp, names)
                        if repl2 is None:
                            repl2 = repl + [ast.copy_location(ast.Assign(targets=[s.targets[0]], value=ast.Name(id=tmp, ctx=ast.Load()), lineno=s.lineno), s)]
                        for o in repl2:
                            ast.fix_missing_locations(o)
                        count[0] += 1
                        return repl2
                    except NotInlinable as e:
                        _dbg("helper", got[0].name, "not inlined (tuple target):", e)
        if isinstance(call, ast.Call):
            got = self.callee_of(call.func, ctx)
            if got is not None and not _has_yield(got[0]):
                callee, drop_self = got
                is_async = isinstance(callee, ast.AsyncFunctionDef)
                awaited = isinstance(s.value, ast.Await)
                if is_async == awaited:
                    try:
                        if wrap == "expr":
                            repl = _instantiate(callee, call, drop_self, None, ctx["taken"])
                        elif wrap == "assign":
                            repl = _instantiate(callee, call, drop_self, s.targets[0].id, ctx["taken"])
                        else:
                            tmp = f"__ret{_next_suffix()}"
                            repl = _instantiate(callee, call, drop_self, tmp, ctx["taken"])
                            repl.append(ast.copy_location(ast.Return(value=ast.Name(id=tmp, ctx=ast.Load())), s))
                        count[0] += 1
                        return repl or [ast.copy_location(ast.Pass(), s)]
                    except NotInlinable as e:
                        _dbg("helper", callee.name, "not inlined:", e)
        return self._hoist(s, ctx, count)

    def _rewrite_dispatch(self, s, ctx, count):
        if not (isinstance(s, (ast.Expr, ast.Assign, ast.Return, ast.AugAssign)) and getattr(s, "value", None) is not None):
            return None
        for c in [c for c in _first_evaluated(s.value) if isinstance(c, ast.Call)]:
            disp = None
            if isinstance(c.func, ast.Name):
                disp = self._local_dispatch(c.func.id, ctx)
            elif isinstance(c.func, ast.Subscript):
                d = self._dict_of(c.func.value, ctx)
                if d is not None:
                    disp = (d, c.func.slice, None)
            elif isinstance(c.func, ast.Call) and isinstance(c.func.func, ast.Attribute) and c.func.func.attr == "get" and 1 <= len(c.func.args) <= 2:
                d = self._dict_of(c.func.func.value, ctx)
                if d is not None:
                    disp = (d, c.func.args[0], c.func.args[1] if len(c.func.args) == 2 else None)
            if disp is None:
                continue
            (dnode, ctx2), key, default = disp
            self.__dict__.setdefault("expanded_tables", set()).add(id(dnode))

            def variant(v):
                fexpr, extra = self._callable_target(v, ctx2)
                st = copy.deepcopy(s)
                tgt_call = _find_same(st, s, c)
                tgt_call.func = self._materialise(fexpr, ctx2)
                tgt_call.args = [copy.deepcopy(a) for a in extra] + tgt_call.args
                return st

            tail = []
            if default is not None and self._callable_target(default, ctx2) is not None:
                tail = [variant(default)]
            for k, v in reversed(list(zip(dnode.keys, dnode.values))):
                test = ast.Compare(left=copy.deepcopy(key), ops=[ast.Eq()], comparators=[copy.deepcopy(k)])
                node = ast.copy_location(ast.If(test=test, body=[variant(v)], orelse=tail), s)
                tail = [node]
            count[0] += 1
            for t in tail:
                ast.fix_missing_locations(t)
            return tail
        return None

    def _rewrite_generator_consumer(self, s, ctx, count):
        """X = set(gen(a)) / list / tuple / sorted / frozenset / any / all / sum / ''.join ; X.extend(gen(a)) ; X.update(gen(a)) ; [*gen(a)]"""
        if not isinstance(s, (ast.Expr, ast.Assign, ast.Return, ast.AugAssign, ast.If)):
            return None
        # [*gen(a)] / {*gen(a)} / (*gen(a),) -> list(gen(a)) / set(gen(a)) / tuple(gen(a))
        head0 = s.test if isinstance(s, ast.If) else getattr(s, "value", None)
        if head0 is not None:
            for n in ast.walk(head0):
                if isinstance(n, (ast.List, ast.Set, ast.Tuple)) and len(n.elts) == 1 and isinstance(n.elts[0], ast.Starred) and isinstance(n.elts[0].value, ast.Call):
                    g0 = n.elts[0].value
                    got0 = self.callee_of(g0.func, ctx)
                    if got0 is not None and _has_yield(got0[0]):
                        ctor = {"List": "list", "Set": "set", "Tuple": "tuple"}[type(n).__name__]
                        new = ast.copy_location(ast.Call(func=ast.Name(id=ctor, ctx=ast.Load()), args=[g0], keywords=[]), n)
                        if isinstance(s, ast.If):
                            s.test = _replace_node(s.test, n, new)
                        else:
                            s.value = _replace_node(s.value, n, new)
                        ast.fix_missing_locations(s)
                        break
        head = s.test if isinstance(s, ast.If) else getattr(s, "value", None)
        if head is None:
            return None
        for c in _first_evaluated(head):
            if not isinstance(c, ast.Call) or len(c.args) != 1 or (c.keywords and not all(k.arg in ("key", "reverse") for k in c.keywords)):
                continue
            g = c.args[0]
            if not isinstance(g, ast.Call):
                continue
            got = self.callee_of(g.func, ctx)
            if got is None or not _has_yield(got[0]) or isinstance(got[0], ast.AsyncFunctionDef):
                continue
            fname = ast.unparse(c.func)
            method = c.func.attr if isinstance(c.func, ast.Attribute) else None
            T = ast.Name(id=f"__item{_next_suffix()}", ctx=ast.Store())
            Tl = ast.Name(id=T.id, ctx=ast.Load())
            try:
                if isinstance(s, ast.Expr) and c is s.value and method in ("extend", "update"):
                    add = "append" if method == "extend" else "add"
                    body = [ast.Expr(value=ast.Call(func=ast.Attribute(value=copy.deepcopy(c.func.value), attr=add, ctx=ast.Load()), args=[Tl], keywords=[]))]
                    r = _fuse_generator(got[0], g, got[1], T, body, ctx["taken"])
                    count[0] += 1
                    return r
                if isinstance(s, ast.Assign) and c is s.value and fname in ("set", "list") and len(s.targets) == 1 and isinstance(s.targets[0], ast.Name):
                    X = s.targets[0].id
                    init = ast.Assign(targets=[ast.Name(id=X, ctx=ast.Store())], value=ast.Call(func=ast.Name(id=fname, ctx=ast.Load()), args=[], keywords=[]), lineno=s.lineno)
                    add = "add" if fname == "set" else "append"
                    body = [ast.Expr(value=ast.Call(func=ast.Attribute(value=ast.Name(id=X, ctx=ast.Load()), attr=add, ctx=ast.Load()), args=[Tl], keywords=[]))]
                    r = _fuse_generator(got[0], g, got[1], T, body, ctx["taken"])
                    count[0] += 1
                    out = [ast.copy_location(init, s)] + r
                    for o in out:
                        ast.fix_missing_locations(o)
                    return out
                if fname in ("set", "list", "tuple", "frozenset", "sorted", "any", "all", "sum", "max", "min", "dict") or method == "join":
                    acc = f"__acc{_next_suffix()}"
                    init = ast.Assign(targets=[ast.Name(id=acc, ctx=ast.Store())], value=ast.List(elts=[], ctx=ast.Load()), lineno=s.lineno)
                    body = [ast.Expr(value=ast.Call(func=ast.Attribute(value=ast.Name(id=acc, ctx=ast.Load()), attr="append", ctx=ast.Load()), args=[Tl], keywords=[]))]
                    r = _fuse_generator(got[0], g, got[1], T, body, ctx["taken"])
                    if fname == "list" and len(c.args) == 1 and not c.keywords:
                        # list(<fresh list>) is that list
                        new_s = _replace_node(s, c, ast.copy_location(ast.Name(id=acc, ctx=ast.Load()), c))
                        if new_s is not s:
                            s = new_s
                    else:
                        c.args[0] = ast.Name(id=acc, ctx=ast.Load())
                    count[0] += 1
                    out = [ast.copy_location(init, s)] + r + [s]
                    for o in out:
                        ast.fix_missing_locations(o)
                    return out
            except NotInlinable as e:
                _dbg("generator consumer", got[0].name, "not fused:", e)
        return None

    def _rewrite_ctxmgr(self, s, ctx, count):
        """`with helper(a) as x: BODY` where helper is a *new* @contextmanager / @asynccontextmanager generator with a single `yield`:
        the helper's body with the yield replaced by `x = <yielded>; BODY` (an exception raised in BODY surfaces at the yield, i.e.
        inside whatever try/finally of the helper encloses it - exactly the spliced code)"""
        if not isinstance(s, (ast.With, ast.AsyncWith)) or len(s.items) != 1:
            return None
        it = s.items[0]
        c = it.context_expr
        if not isinstance(c, ast.Call):
            return None
        mod, cd, fn = ctx["mod"], ctx["cls"], ctx["fn"]
        callee = None
        drop_self = False
        f = c.func
        if isinstance(f, ast.Name):
            r = self.resolve(mod, f.id)
            if r and r[0] == "func":
                callee, cmod, q = r[2], r[1], r[2].name
        elif isinstance(f, ast.Attribute) and isinstance(f.value, ast.Name) and f.value.id in ("self", "cls") and cd is not None:
            got = self.class_method(mod, cd, f.attr)
            if got:
                cmod, c2, callee = got
                q = f"{c2.name}.{callee.name}"
                drop_self = not any(isinstance(x, ast.Name) and x.id == "staticmethod" for x in callee.decorator_list)
        elif isinstance(f, ast.Attribute) and isinstance(f.value, ast.Name):
            r = self.resolve(mod, f.value.id)
            if r and r[0] == "module" and f.attr in self.funcs.get(r[1], {}):
                callee, cmod, q = self.funcs[r[1]][f.attr], r[1], f.attr
        if callee is None or f"{cmod}:{q}" in self.known or self._moved_known(q):
            return None
        decos = [ast.unparse(d).split(".")[-1] for d in callee.decorator_list if not (isinstance(d, ast.Name) and d.id in ("staticmethod", "classmethod"))]
        want = "asynccontextmanager" if isinstance(s, ast.AsyncWith) else "contextmanager"
        if decos != [want] or isinstance(callee, ast.AsyncFunctionDef) != isinstance(s, ast.AsyncWith):
            return None
        ys = _yield_nodes(callee)
        if len(ys) != 1 or isinstance(ys[0], ast.YieldFrom):
            return None
        try:
            target = it.optional_vars if it.optional_vars is not None else ast.Name(id=f"__cm{_next_suffix()}", ctx=ast.Store())
            body = list(s.body)
            if it.optional_vars is None and ys[0].value is None:
                # nothing is bound: fuse without the dummy assignment by using a single-use target that the body never reads
                pass
            r = _fuse_generator(callee, c, drop_self, target, body, ctx["taken"])
            if it.optional_vars is None:
                r = [x for x in r if not (isinstance(x, ast.Assign) and isinstance(x.targets[0], ast.Name) and x.targets[0].id.startswith("__cm"))]
                r = _strip_cm_dummy(r)
            count[0] += 1
            for o in r:
                ast.fix_missing_locations(o)
            return r
        except NotInlinable as e:
            _dbg("context manager", callee.name, "not inlined:", e)
            return None

    def _rewrite_executor(self, s, ctx, count):
        """loop.run_in_executor(ex, helper, a, b) / asyncio.to_thread(helper, a, b) with a new helper: the helper becomes a local
        closure without parameters (the shape `run_in_executor(None, inner)` that the rules know)"""
        if not isinstance(s, (ast.Expr, ast.Assign, ast.Return)) or getattr(s, "value", None) is None:
            return None
        for c in ast.walk(s.value):
            if not isinstance(c, ast.Call):
                continue
            nm = ast.unparse(c.func)
            if nm.endswith(".run_in_executor") and len(c.args) >= 3:
                fpos = 1
            elif nm.endswith("to_thread") and len(c.args) >= 2:
                fpos = 0
            else:
                continue
            f = c.args[fpos]
            if isinstance(f, ast.Name) and f.id in ctx.get("nested_made", ()):
                continue
            got = self.callee_of(f, ctx) if isinstance(f, (ast.Name, ast.Attribute)) else None
            if got is None or isinstance(got[0], ast.AsyncFunctionDef) or _has_yield(got[0]) or c.keywords:
                continue
            callee, drop_self = got
            # arguments that are locals/parameters of the calling function stay parameters of the closure; the others (captured
            # variables of an outer scope, constants, expressions) are substituted - the shape `run_in_executor(None, inner, event, config)`
            here = ctx["fn"]
            here_locals = {a.arg for a in here.args.args + here.args.kwonlyargs} | {n.id for n in _own_walk(here) if isinstance(n, ast.Name) and isinstance(n.ctx, ast.Store)}
            cparams = [a.arg for a in callee.args.args][1 if drop_self else 0:]
            given = list(c.args[fpos + 1:])
            if len(given) > len(cparams) or callee.args.vararg or callee.args.kwarg or callee.args.kwonlyargs:
                continue
            keep = [(p, a) for p, a in zip(cparams, given) if isinstance(a, ast.Name) and a.id in here_locals]
            subst = [(p, a) for p, a in zip(cparams, given) if not (isinstance(a, ast.Name) and a.id in here_locals)]
            body = copy.deepcopy(_body_wo_doc(callee))
            defaults = list(callee.args.defaults)
            dmap = dict(zip(cparams[len(cparams) - len(defaults):], defaults)) if defaults else {}
            mapping = {p: a for p, a in subst}
            for p in cparams[len(given):]:
                if p not in dmap:
                    mapping = None
                    break
                mapping[p] = dmap[p]
            if mapping is None:
                continue
            stores = {n.id for b in body for n in [b] + list(_own_walk(b)) if isinstance(n, ast.Name) and isinstance(n.ctx, ast.Store)}
            if any(p in stores for p in mapping):
                continue
            sub = _Subst(mapping, {})
            body = [sub.visit(b) for b in body] or [ast.Pass()]
            name = callee.name
            if name in ctx["nested"] or any(isinstance(x, FuncT) and x.name == name for x in _own_walk(here)):
                name = callee.name + _next_suffix()
            d = ast.FunctionDef(name=name, args=ast.arguments(posonlyargs=[], args=[ast.arg(arg=p, annotation=None) for p, _ in keep], vararg=None, kwonlyargs=[], kw_defaults=[], kwarg=None, defaults=[]),
                                body=body, decorator_list=[], returns=None, type_comment=None, lineno=s.lineno, col_offset=s.col_offset)
            if hasattr(d, "type_params"):
                d.type_params = []
            c.args = list(c.args[:fpos]) + [ast.Name(id=name, ctx=ast.Load())] + [a for _, a in keep]
            count[0] += 1
            ctx["nested_made"] = ctx.get("nested_made", set()) | {name}
            out = [ast.copy_location(d, s), s]
            for o in out:
                ast.fix_missing_locations(o)
            return out
        return None

    def _hoist(self, s, ctx, count):
        heads = []
        if isinstance(s, ast.If):
            heads = [("test", s.test)]
        elif isinstance(s, (ast.Assign, ast.AugAssign, ast.AnnAssign, ast.Return, ast.Expr)) and getattr(s, "value", None) is not None:
            heads = [("value", s.value)]
        elif isinstance(s, (ast.For, ast.AsyncFor)):
            heads = [("iter", s.iter)]
        elif isinstance(s, ast.Raise) and s.exc is not None:
            heads = [("exc", s.exc)]
        for field, head in heads:
            for c in _first_evaluated(head):
                if not isinstance(c, ast.Call):
                    continue
                got = self.callee_of(c.func, ctx)
                if got is None or _has_yield(got[0]):
                    continue
                callee, drop_self = got
                is_async = isinstance(callee, ast.AsyncFunctionDef)
                par = _parent_in(head, c)
                awaited = isinstance(par, ast.Await)
                if is_async != awaited:
                    continue
                top = par if awaited else c
                if head is top and (isinstance(s, (ast.Expr, ast.Return)) or (isinstance(s, ast.Assign) and len(s.targets) == 1 and isinstance(s.targets[0], ast.Name))):
                    continue  # statement position: handled (or refused) by the caller
                try:
                    tmp = f"__val{_next_suffix()}"
                    pre = _instantiate(callee, c, drop_self, tmp, ctx["taken"])
                except NotInlinable as e:
                    _dbg("helper", callee.name, "not hoisted:", e)
                    continue
                new_head = _replace_node(head, top, ast.copy_location(ast.Name(id=tmp, ctx=ast.Load()), c))
                setattr(s, field, new_head)
                count[0] += 1
                ast.fix_missing_locations(s)
                return pre + [s]
        return None

    # ---- driver ------------------------------------------------------------
    def rename_back(self):
        """N0: an audited function that was *renamed* (same scope, recognisably the same body) gets its audited name back,
        definition and every reference in the package - the rules address functions by name."""
        sigs = known_sigs()
        if not sigs:
            return 0
        renames = {}
        for mod, tree in self.trees.items():
            scopes = [(None, self.funcs[mod])] + [(cn, {s.name: s for s in cd.body if isinstance(s, FuncT)}) for cn, cd in self.classes[mod].items()]
            for cname, defs in scopes:
                prefix = f"{mod}:{cname + '.' if cname else ''}"
                missing = []
                for k in sigs:
                    if k.startswith(prefix) and "." not in k[len(prefix):] and k[len(prefix):] not in defs:
                        nm = k[len(prefix):]
                        if cname is None and nm in self.imports.get(mod, {}):
                            continue  # moved and imported back
                        missing.append(k)
                fresh = {n: d for n, d in defs.items() if f"{prefix}{n}" not in self.known and not (n.startswith("__") and n.endswith("__"))}
                if not missing or not fresh:
                    continue
                fps = {n: fingerprint(d) for n, d in fresh.items()}
                for k in missing:
                    want = sigs[k]
                    scored = sorted(((len(want & fp) / max(1, len(want | fp)), n) for n, fp in fps.items()), reverse=True)
                    if not scored:
                        continue
                    best, name = scored[0]
                    second = scored[1][0] if len(scored) > 1 else 0.0
                    old = k[len(prefix):]
                    if best >= 0.6 and best - second >= 0.15 and name not in renames and old not in renames.values():
                        renames[name] = old
                        fps.pop(name)
        # only unambiguous renames: the new name must not also be an audited name, and must not be used for something else
        all_known_names = {k.split(":")[1].split(".")[-1] for k in self.known}
        renames = {n: o for n, o in renames.items() if n not in all_known_names}
        if not renames:
            return 0
        n_changed = 0
        for mod, tree in self.trees.items():
            for node in ast.walk(tree):
                if isinstance(node, FuncT) and node.name in renames:
                    node.name = renames[node.name]
                    n_changed += 1
                elif isinstance(node, ast.Attribute) and node.attr in renames:
                    node.attr = renames[node.attr]
                elif isinstance(node, ast.Name) and node.id in renames:
                    node.id = renames[node.id]
                elif isinstance(node, ast.alias) and node.name in renames:
                    node.name = renames[node.name]
                elif isinstance(node, ast.keyword) and node.arg in renames:
                    pass
        if n_changed:
            self.renamed = dict(renames)
            self._index()
        return n_changed

    def rename_locals_back(self, only=None):
        """N0b: inside an audited function, a local variable whose binding sites are exactly those of an audited local that no
        longer exists under its audited name gets that name back (consistent renames of locals are undone)."""
        table = known_locals()
        if not table:
            return 0
        n_total = 0
        for mod, tree in self.trees.items():
            if only is not None and mod not in only:
                continue
            defs = []

            def scan(node, prefix):
                for ch in ast.iter_child_nodes(node):
                    if isinstance(ch, FuncT):
                        defs.append((f"{mod}:{prefix}{ch.name}", ch))
                        scan(ch, prefix + ch.name + ".")
                    elif isinstance(ch, ast.ClassDef):
                        scan(ch, prefix + ch.name + ".")
                    else:
                        scan(ch, prefix)

            scan(tree, "")
            for q, fn in defs:
                want = table.get(q)
                if not want:
                    continue
                # cheap pre-check on names only: nothing to do unless an audited local is gone and an unknown one appeared
                quick = {x.id for x in _own_nodes_of(fn) if isinstance(x, ast.Name) and isinstance(x.ctx, ast.Store)} | {x.name for x in _own_nodes_of(fn) if isinstance(x, ast.ExceptHandler) and x.name}
                wn = {w for w, _ in want}
                if not (wn - quick) or not (quick - wn):
                    continue
                have = local_fingerprints(fn)
                have_names = {n for n, _ in have}
                # every name that occurs in the function at all (attribute names excluded): a rename target must be free
                used = {x.id for x in ast.walk(fn) if isinstance(x, ast.Name)} | {a.arg for a in fn.args.args + fn.args.kwonlyargs}
                missing = [(n, fp) for n, fp in want if n not in have_names and n not in used]
                fresh = [(n, fp) for n, fp in have if n not in {w for w, _ in want}]
                if not missing or not fresh:
                    continue
                ren = {}
                by_fp_missing: dict = {}
                for n, fp in missing:
                    by_fp_missing.setdefault(fp, []).append(n)
                by_fp_fresh: dict = {}
                for n, fp in fresh:
                    by_fp_fresh.setdefault(fp, []).append(n)
                for fp, olds in by_fp_missing.items():
                    news = by_fp_fresh.get(fp, [])
                    if len(news) == len(olds):
                        for o, nw in zip(olds, news):  # same order of first binding
                            ren[nw] = o
                if not ren:
                    continue

                class R(ast.NodeTransformer):
                    def visit_Name(self, node):
                        if node.id in ren:
                            node.id = ren[node.id]
                        return node

                    def visit_ExceptHandler(self, node):
                        self.generic_visit(node)
                        if node.name in ren:
                            node.name = ren[node.name]
                        return node

                    def _skip(self, node):
                        return node

                    visit_Lambda = _skip
                    visit_ClassDef = _skip

                    def visit_FunctionDef(self, node):
                        # nested functions may read the renamed closure variables
                        self.generic_visit(node)
                        return node

                    visit_AsyncFunctionDef = visit_FunctionDef

                fn.body = [R().visit(st) for st in fn.body]
                n_total += len(ren)
        return n_total

    def scalarize_records(self, only=None):
        """N3: a local bound once to a constructor call of a *record class that did not exist at freeze time* (typing.NamedTuple subclass,
        collections.namedtuple, @dataclass) and used only through `x.field` reads is replaced by one local per field
        (`seen = _Seen(relay=a, challenge=b) … seen.relay` -> `seen__relay = a … seen__relay`)."""
        n_total = 0
        for mod, tree in self.trees.items():
            if only is not None and mod not in only:
                continue
            records = {}
            for st in tree.body:
                if isinstance(st, ast.ClassDef) and f"{mod}:{st.name}" not in self.known_classes():
                    bases = [ast.unparse(b) for b in st.bases]
                    is_nt = any(b.split(".")[-1] == "NamedTuple" for b in bases)
                    is_dc = any(ast.unparse(d).split("(")[0].split(".")[-1] == "dataclass" for d in st.decorator_list)
                    if is_nt or is_dc:
                        fields = [a.target.id for a in st.body if isinstance(a, ast.AnnAssign) and isinstance(a.target, ast.Name)]
                        if fields and not any(isinstance(x, FuncT) for x in st.body):
                            records[st.name] = fields
                elif isinstance(st, ast.Assign) and len(st.targets) == 1 and isinstance(st.targets[0], ast.Name) and isinstance(st.value, ast.Call) \
                        and ast.unparse(st.value.func).split(".")[-1] == "namedtuple" and len(st.value.args) >= 2:
                    fa = st.value.args[1]
                    fields = None
                    if isinstance(fa, (ast.Tuple, ast.List)) and all(isinstance(x, ast.Constant) and isinstance(x.value, str) for x in fa.elts):
                        fields = [x.value for x in fa.elts]
                    elif isinstance(fa, ast.Constant) and isinstance(fa.value, str):
                        fields = fa.value.replace(",", " ").split()
                    if fields:
                        records[st.targets[0].id] = fields
            if not records:
                continue
            for fn, cd in self._all_defs(tree):
                binds = {}
                for st in _own_walk(fn):
                    if isinstance(st, ast.Assign) and len(st.targets) == 1 and isinstance(st.targets[0], ast.Name) and isinstance(st.value, ast.Call) and isinstance(st.value.func, ast.Name) and st.value.func.id in records:
                        binds.setdefault(st.targets[0].id, []).append(st)
                for name, sts in binds.items():
                    if len(sts) != 1:
                        continue
                    st = sts[0]
                    fields = records[st.value.func.id]
                    if any(isinstance(a, ast.Starred) for a in st.value.args) or any(k.arg is None for k in st.value.keywords) or len(st.value.args) > len(fields):
                        continue
                    vals = dict(zip(fields, st.value.args))
                    for k in st.value.keywords:
                        vals[k.arg] = k.value
                    if set(vals) != set(fields):
                        continue
                    # every other occurrence of the name is a `name.field` read
                    uses = [x for x in _own_walk(fn) if isinstance(x, ast.Name) and x.id == name and x is not st.targets[0]]
                    pm = _parent_map(fn)
                    if not uses or not all(isinstance(pm.get(id(u)), ast.Attribute) and pm[id(u)].attr in fields and isinstance(pm[id(u)].ctx, ast.Load) for u in uses):
                        continue
                    stores = sum(1 for x in _own_walk(fn) if isinstance(x, ast.Name) and x.id == name and isinstance(x.ctx, ast.Store))
                    if stores != 1:
                        continue

                    class R(ast.NodeTransformer):
                        def visit_Attribute(self, node):
                            self.generic_visit(node)
                            if isinstance(node.value, ast.Name) and node.value.id == name and node.attr in fields:
                                return ast.copy_location(ast.Name(id=f"{name}__{node.attr}", ctx=ast.Load()), node)
                            return node

                        def visit_FunctionDef(self, node):
                            return node

                        visit_AsyncFunctionDef = visit_FunctionDef
                        visit_Lambda = visit_FunctionDef

                    def fix(block):
                        out = []
                        for b in block:
                            if b is st:
                                for f in fields:
                                    out.append(ast.copy_location(ast.Assign(targets=[ast.Name(id=f"{name}__{f}", ctx=ast.Store())], value=vals[f], lineno=st.lineno), st))
                                continue
                            if not isinstance(b, FuncT + (ast.ClassDef,)):
                                for field in ("body", "orelse", "finalbody"):
                                    sub = getattr(b, field, None)
                                    if isinstance(sub, list) and sub and isinstance(sub[0], ast.stmt):
                                        setattr(b, field, fix(sub))
                                if isinstance(b, ast.Try):
                                    for h in b.handlers:
                                        h.body = fix(h.body)
                            out.append(R().visit(b))
                        return out

                    fn.body = fix(fn.body)
                    ast.fix_missing_locations(fn)
                    n_total += 1
        return n_total

    def known_classes(self):
        kc = self.__dict__.get("_known_classes")
        if kc is None:
            kc = {k.rsplit(".", 1)[0] for k in self.known if "." in k.split(":")[1]}
            # classes without methods at freeze time are not in the function table: load the explicit list if present
            try:
                with open(os.path.join(HERE, "known_classes.json")) as fp:
                    kc |= set(json.load(fp))
            except FileNotFoundError:
                pass
            self.__dict__["_known_classes"] = kc
        return kc

    def fold_new_temporaries(self, only=None):
        """N0c: inside an audited function, a *new* local (not among the audited locals) that is bound once by a plain assignment and
        read once, in the head expression of the very next statement, is substituted back (`t = f(x); if t:` -> `if f(x):`)."""
        table = known_locals()
        n_total = 0
        for mod, tree in self.trees.items():
            if only is not None and mod not in only:
                continue
            defs = []

            def scan(node, prefix):
                for ch in ast.iter_child_nodes(node):
                    if isinstance(ch, FuncT):
                        defs.append((f"{mod}:{prefix}{ch.name}", ch))
                        scan(ch, prefix + ch.name + ".")
                    elif isinstance(ch, ast.ClassDef):
                        scan(ch, prefix + ch.name + ".")
                    else:
                        scan(ch, prefix)

            scan(tree, "")
            for q, fn in defs:
                if q not in self.known:
                    continue
                audited = {n for n, _ in table.get(q, [])}
                counts_store: dict = {}
                counts_load: dict = {}
                for n in ast.walk(fn):
                    if isinstance(n, ast.Name):
                        d = counts_store if isinstance(n.ctx, ast.Store) else counts_load
                        d[n.id] = d.get(n.id, 0) + 1
                params = {a.arg for a in fn.args.args + fn.args.kwonlyargs}

                def fix(block):
                    nonlocal n_total
                    out = []
                    i = 0
                    while i < len(block):
                        s = block[i]
                        nxt = block[i + 1] if i + 1 < len(block) else None
                        if (isinstance(s, ast.Assign) and len(s.targets) == 1 and isinstance(s.targets[0], ast.Name) and nxt is not None):
                            t = s.targets[0].id
                            if t not in audited and t not in params and counts_store.get(t) == 1 and counts_load.get(t) == 1:
                                head_field = None
                                if isinstance(nxt, (ast.If, ast.While)):
                                    head_field = "test"
                                elif isinstance(nxt, (ast.Assign, ast.AugAssign, ast.Return, ast.Expr, ast.AnnAssign)) and getattr(nxt, "value", None) is not None:
                                    head_field = "value"
                                elif isinstance(nxt, (ast.For, ast.AsyncFor)):
                                    head_field = "iter"
                                if head_field and not isinstance(nxt, ast.While):
                                    head = getattr(nxt, head_field)
                                    uses = [x for x in _first_evaluated(head) if isinstance(x, ast.Name) and x.id == t]
                                    if len(uses) == 1:
                                        setattr(nxt, head_field, _replace_node(head, uses[0], s.value))
                                        ast.fix_missing_locations(nxt)
                                        n_total += 1
                                        i += 1
                                        continue
                        if not isinstance(s, FuncT + (ast.ClassDef,)):
                            for field in ("body", "orelse", "finalbody"):
                                sub = getattr(s, field, None)
                                if isinstance(sub, list) and sub and isinstance(sub[0], ast.stmt):
                                    setattr(s, field, fix(sub))
                            if isinstance(s, ast.Try):
                                for h in s.handlers:
                                    h.body = fix(h.body)
                        out.append(s)
                        i += 1
                    return out

                fn.body = fix(fn.body)
        return n_total

    def split_with_items(self, focus=None):
        """`with a as x, b as y: BODY` -> `with a as x:` / `with b as y: BODY` (same semantics; one context per statement is the
        form the rules were written against)"""
        n = 0

        class T(ast.NodeTransformer):
            def _split(self, node):
                nonlocal n
                self.generic_visit(node)
                if len(node.items) > 1:
                    n += 1
                    inner = node
                    cls = type(node)
                    body = node.body
                    for it in reversed(node.items[1:]):
                        w = cls(items=[it], body=body, type_comment=None)
                        ast.copy_location(w, node)
                        body = [w]
                    node.items = node.items[:1]
                    node.body = body
                return node

            visit_With = _split
            visit_AsyncWith = _split

        for mod, tree in self.trees.items():
            if focus is not None and mod not in focus:
                continue
            T().visit(tree)
            if n:
                ast.fix_missing_locations(tree)
        return n

    def closures_from_callable_classes(self):
        """a class the audited tree does not have, with `__init__` + `__call__` (+ private methods) and no bases, that is instantiated inside a function
        is the object spelling of a closure: at the instantiation the constructor's body runs with `self.x` as locals of the enclosing function, every
        method becomes a nested function over those locals, and the instance is its `__call__`.  `x = C(…)` becomes `def x(…)`; the class is left in place
        (dropped later as an orphan)."""
        kc = self.known_classes()
        n = 0
        uid = [0]
        for mod, tree in list(self.trees.items()):
            for fn in [f for f in ast.walk(tree) if isinstance(f, FuncT)]:
                for call in [c for c in _own_walk(fn) if isinstance(c, ast.Call)]:
                    f = call.func
                    r = None
                    if isinstance(f, ast.Name):
                        r = self.resolve(mod, f.id)
                    elif isinstance(f, ast.Attribute) and isinstance(f.value, ast.Name):
                        rm = self.resolve(mod, f.value.id)
                        if rm and rm[0] == "module":
                            r = self.resolve(rm[1], f.attr)
                    if not r or r[0] != "class":
                        continue
                    cmod, cd = r[1], r[2]
                    if f"{cmod}:{cd.name}" in kc or cd.decorator_list or cd.keywords or any(not (isinstance(b, ast.Name) and b.id == "object") for b in cd.bases):
                        continue
                    methods = {m.name: m for m in cd.body if isinstance(m, FuncT)}
                    if "__call__" not in methods or any(isinstance(x, ast.ClassDef) for x in cd.body):
                        continue
                    if any(m.decorator_list for m in methods.values()) or any(k.startswith("__") and k not in ("__init__", "__call__") for k in methods):
                        continue
                    if any(isinstance(a, ast.Starred) for a in call.args) or any(k.arg is None for k in call.keywords):
                        continue
                    # `self` only as `self.<name>`
                    okself = True
                    attrs_read, attrs_set = set(), set()
                    for m in methods.values():
                        if not m.args.args or m.args.args[0].arg != "self" or m.args.vararg or m.args.kwarg:
                            okself = False
                            break
                        for x in ast.walk(m):
                            if isinstance(x, ast.Name) and x.id == "self":
                                par = _parent_in(m, x)
                                if not (isinstance(par, ast.Attribute) and par.value is x):
                                    okself = False
                                elif isinstance(par.ctx, ast.Store):
                                    attrs_set.add(par.attr)
                                else:
                                    attrs_read.add(par.attr)
                    class_consts = {t.id: st.value for st in cd.body if isinstance(st, ast.Assign) for t in st.targets if isinstance(t, ast.Name) and t.id != "__slots__"}
                    if not okself or (attrs_read - attrs_set - set(methods) - set(class_consts)):
                        continue
                    init = methods.get("__init__")
                    # bind the constructor's parameters
                    bind = {}
                    if init is not None:
                        params = [a.arg for a in init.args.args[1:]]
                        defaults = dict(zip(params[len(params) - len(init.args.defaults):], init.args.defaults))
                        if len(call.args) > len(params) or init.args.kwonlyargs:
                            continue
                        for p_, a_ in zip(params, call.args):
                            bind[p_] = a_
                        bad = False
                        for k in call.keywords:
                            if k.arg not in params or k.arg in bind:
                                bad = True
                            bind[k.arg] = k.value
                        for p_ in params:
                            if p_ not in bind:
                                if p_ in defaults:
                                    bind[p_] = defaults[p_]
                                else:
                                    bad = True
                        if bad:
                            continue
                    elif call.args or call.keywords:
                        continue
                    # the statement of fn that holds the instantiation; everything it evaluates before must be plain
                    holder = None
                    for par in [fn] + [x for x in _own_walk(fn)]:
                        for field in ("body", "orelse", "finalbody"):
                            lst = getattr(par, field, None)
                            if isinstance(lst, list):
                                for i, st in enumerate(lst):
                                    if isinstance(st, ast.stmt) and not isinstance(st, FuncT + (ast.ClassDef,)) and any(x is call for x in ast.walk(st)) \
                                            and not any(any(x is call for x in ast.walk(sub)) for f2 in ("body", "orelse", "finalbody") for sub in (getattr(st, f2, None) or []) if isinstance(sub, ast.stmt)) \
                                            and not (isinstance(st, ast.Try) and any(any(x is call for x in ast.walk(h)) for h in st.handlers)):
                                        holder = (lst, i, st)
                    if holder is None:
                        continue
                    lst, i, st = holder
                    host = st.test if isinstance(st, (ast.If, ast.While)) else getattr(st, "value", None)
                    if host is None or isinstance(st, ast.While):
                        continue
                    order = _first_evaluated(host)
                    if call not in order:
                        continue
                    inside = {id(x) for x in ast.walk(call)}

                    def plain(e):
                        return isinstance(e, (ast.Name, ast.Constant)) or (isinstance(e, ast.Attribute) and plain(e.value))

                    if not all(id(e) in inside or plain(e) for e in order[: order.index(call)]):
                        continue
                    uid[0] += 1
                    tag = f"__c{uid[0]}"
                    taken = {x.id for x in ast.walk(fn) if isinstance(x, ast.Name)} | {a.arg for a in ast.walk(fn) if isinstance(a, ast.arg)}
                    names = {}

                    def local_for(attr, prefer_free=False):
                        if attr not in names:
                            names[attr] = attr if (attr not in taken or prefer_free) else attr + tag
                        return names[attr]

                    # parameters: reuse the caller's variable when the argument is that very name
                    pre = []
                    pmap = {}
                    for p_, a_ in bind.items():
                        if isinstance(a_, ast.Name):
                            pmap[p_] = a_.id
                        else:
                            nm = p_ if p_ not in taken else p_ + tag
                            taken.add(nm)
                            pmap[p_] = nm
                            pre.append(ast.Assign(targets=[ast.Name(id=nm, ctx=ast.Store())], value=copy.deepcopy(a_), type_comment=None))
                    # attribute -> local: `self.a = a` keeps the caller's variable
                    if init is not None:
                        for s_ in _body_wo_doc(init):
                            if isinstance(s_, ast.Assign) and len(s_.targets) == 1 and isinstance(s_.targets[0], ast.Attribute) and isinstance(s_.targets[0].value, ast.Name) \
                                    and s_.targets[0].value.id == "self" and isinstance(s_.value, ast.Name) and s_.value.id in pmap and s_.targets[0].attr not in names:
                                names[s_.targets[0].attr] = pmap[s_.value.id]
                    mnames = {}
                    target_name = st.targets[0].id if isinstance(st, ast.Assign) and st.value is call and len(st.targets) == 1 and isinstance(st.targets[0], ast.Name) else None
                    for mn in methods:
                        if mn == "__init__":
                            continue
                        if mn == "__call__":
                            mnames[mn] = target_name or ("call" + tag)
                        else:
                            mnames[mn] = mn if mn not in taken else mn + tag

                    class R(ast.NodeTransformer):
                        def __init__(self, rename_params):
                            self.rp = rename_params

                        def visit_Attribute(self, node):
                            self.generic_visit(node)
                            if isinstance(node.value, ast.Name) and node.value.id == "self":
                                if node.attr in mnames and node.attr not in attrs_set:
                                    return ast.copy_location(ast.Name(id=mnames[node.attr], ctx=ast.Load()), node)
                                if node.attr in class_consts and node.attr not in attrs_set:
                                    return ast.copy_location(copy.deepcopy(class_consts[node.attr]), node)
                                return ast.copy_location(ast.Name(id=local_for(node.attr), ctx=node.ctx), node)
                            return node

                        def visit_Name(self, node):
                            if node.id in self.rp:
                                return ast.copy_location(ast.Name(id=self.rp[node.id], ctx=node.ctx), node)
                            return node

                    body_init = []
                    if init is not None:
                        for s_ in _body_wo_doc(init):
                            s2 = R(pmap).visit(copy.deepcopy(s_))
                            if isinstance(s2, ast.Assign) and len(s2.targets) == 1 and isinstance(s2.targets[0], ast.Name) and isinstance(s2.value, ast.Name) and s2.targets[0].id == s2.value.id:
                                continue
                            if isinstance(s2, ast.Expr) and isinstance(s2.value, ast.Constant):
                                continue
                            body_init.append(s2)
                    defs = []
                    for mn, m in methods.items():
                        if mn == "__init__":
                            continue
                        m2 = copy.deepcopy(m)
                        m2.name = mnames[mn]
                        m2.args.args = m2.args.args[1:]
                        m2 = R({}).visit(m2)
                        stored = sorted({x.id for x in ast.walk(m2) if isinstance(x, ast.Name) and isinstance(x.ctx, ast.Store) and x.id in set(names.values())})
                        if stored:
                            m2.body.insert(0, ast.Nonlocal(names=stored))
                        defs.append(m2)
                    # order: helper methods first, __call__ last
                    defs.sort(key=lambda d: d.name == mnames["__call__"])
                    new = pre + body_init + defs
                    if target_name is not None:
                        lst[i:i + 1] = new
                    else:
                        _replace_node(st, call, ast.copy_location(ast.Name(id=mnames["__call__"], ctx=ast.Load()), call))
                        lst[i:i] = new
                    for x in new:
                        ast.copy_location(x, st)
                        ast.fix_missing_locations(x)
                    n += 1
                    self.stats.setdefault(mod, {}).setdefault("callable_classes_closed", 0)
                    self.stats[mod]["callable_classes_closed"] += 1
        if n:
            self._index()
        return n

    def flatten_new_bases(self):
        """a base class that the audited tree does not have (an extracted mixin / abstract base) is folded back into the classes that
        inherit from it: its methods and class-level assignments are copied into the subclass unless the subclass - or a base listed
        before it - already defines the name, and the new class is dropped from the base list.  Method resolution for the subclass is
        unchanged by construction; `super()` inside the copied methods now starts one step later, which is where the mixin's own
        `super()` pointed when it sat first in the list."""
        kc = self.known_classes()
        n = 0
        folded_classes = {}
        for _ in range(3):
            changed = False
            for mod, tree in self.trees.items():
                for cd in [c for c in tree.body if isinstance(c, ast.ClassDef)]:
                    for bi, b in enumerate(list(cd.bases)):
                        r = None
                        if isinstance(b, ast.Name):
                            r = self.resolve(mod, b.id)
                        elif isinstance(b, ast.Attribute) and isinstance(b.value, ast.Name):
                            rm = self.resolve(mod, b.value.id)
                            if rm and rm[0] == "module":
                                r = self.resolve(rm[1], b.attr)
                        if not r or r[0] != "class":
                            continue
                        bmod, bcd = r[1], r[2]
                        if f"{bmod}:{bcd.name}" in kc or bcd.decorator_list or bcd.keywords or bcd is cd:
                            continue
                        # the new base's own bases take its place in the list (C(B), B(T) -> C(T) with B's members: same linearisation for C)
                        inherited = [copy.deepcopy(x) for x in bcd.bases if not (isinstance(x, ast.Name) and x.id == "object")]
                        if inherited and bmod != mod:
                            continue  # the base names would have to be re-resolved in another module
                        own = {s_.name for s_ in cd.body if isinstance(s_, FuncT + (ast.ClassDef,))} | \
                              {t.id for s_ in cd.body if isinstance(s_, ast.Assign) for t in s_.targets if isinstance(t, ast.Name)} | \
                              {s_.target.id for s_ in cd.body if isinstance(s_, ast.AnnAssign) and isinstance(s_.target, ast.Name)}
                        earlier = cd.bases[:bi]

                        def earlier_defines(name):
                            for e in earlier:
                                re_ = self.resolve(mod, e.id) if isinstance(e, ast.Name) else None
                                if re_ and re_[0] == "class" and (self.class_method(re_[1], re_[2], name) or self.class_attr(re_[1], re_[2], name) is not None):
                                    return True
                                if re_ is None or re_[0] != "class":
                                    return True  # unknown base listed first: be conservative
                            return False

                        add = []
                        for st in bcd.body:
                            names = []
                            if isinstance(st, FuncT):
                                names = [st.name]
                            elif isinstance(st, ast.Assign):
                                names = [t.id for t in st.targets if isinstance(t, ast.Name)]
                            elif isinstance(st, ast.AnnAssign) and isinstance(st.target, ast.Name):
                                if st.value is None:
                                    continue
                                names = [st.target.id]
                            else:
                                continue
                            if "__slots__" in names:
                                continue
                            if any(nm in own or earlier_defines(nm) for nm in names):
                                continue
                            add.append(copy.deepcopy(st))
                        cd.body.extend(add)
                        folded_classes[id(bcd)] = True
                        pos = cd.bases.index(b)
                        cd.bases[pos:pos + 1] = [x for x in inherited if ast.dump(x) not in {ast.dump(y) for y in cd.bases}]
                        n += 1
                        changed = True
                        self.stats.setdefault(mod, {}).setdefault("new_bases_folded", 0)
                        self.stats[mod]["new_bases_folded"] += 1
            if changed:
                # a folded class that nothing refers to any more is gone (its members live on in the subclasses)
                for mod, tree in self.trees.items():
                    for cd in [c for c in tree.body if isinstance(c, ast.ClassDef) and f"{mod}:{c.name}" not in kc]:
                        used = False
                        for m2, t2 in self.trees.items():
                            for x in ast.walk(t2):
                                if (isinstance(x, ast.Name) and x.id == cd.name and isinstance(x.ctx, ast.Load)) or (isinstance(x, ast.Attribute) and x.attr == cd.name) \
                                        or (isinstance(x, ast.alias) and x.name == cd.name):
                                    if not any(x is y for y in ast.walk(cd)):
                                        used = True
                                        break
                            if used:
                                break
                        if not used and folded_classes.get(id(cd)):
                            tree.body.remove(cd)
            if not changed:
                break
            # refresh the per-module tables
            for mod, tree in self.trees.items():
                self.classes[mod] = {c.name: c for c in tree.body if isinstance(c, ast.ClassDef)} | {k: v for k, v in self.classes.get(mod, {}).items() if v not in tree.body}
        return n

    def rename_imports_back(self, focus=None):
        """import style is not behaviour: where the audited module said `from time import time` and the module now says `import time as _t`
        (or the reverse), spell the uses the audited way (`_t.time` -> `time`, `wait` -> `asyncio.wait`).  known_imports.json is the audited
        import table per module; only names that are not otherwise bound in the module are touched."""
        try:
            known = _known_imports()
        except Exception:
            return 0
        n = 0
        for mod, tree in self.trees.items():
            if focus is not None and mod not in focus:
                continue
            want = known.get(mod)
            cur = self.imports.get(mod, {})
            if not want:
                continue
            bound = set(self.funcs.get(mod, {})) | set(self.classes.get(mod, {}))
            for st in tree.body:
                if isinstance(st, ast.Assign):
                    bound |= {t.id for t in st.targets if isinstance(t, ast.Name)}
            attr_to_name = {}   # (alias, attr) -> audited local name          `_t.time` -> `time`
            name_to_attr = {}   # current local name -> (audited module alias, attr)   `wait` -> `asyncio.wait`
            for loc, tgt in want.items():
                if cur.get(loc) == tgt:
                    continue
                base, _, last = tgt.rpartition(".")
                if base and loc not in bound and (loc not in cur or cur.get(loc) == base):
                    for a, t in cur.items():
                        if t == base:
                            attr_to_name[(a, last)] = loc
                if loc not in bound and (loc not in cur):
                    # audited: `import asyncio` (loc -> module); now: `from asyncio import wait`
                    for a, t in cur.items():
                        b2, _, l2 = t.rpartition(".")
                        if b2 == tgt and a == l2 and a not in want and a not in bound:
                            name_to_attr[a] = (loc, l2)
            if not attr_to_name and not name_to_attr:
                continue

            class T(ast.NodeTransformer):
                def __init__(self):
                    self.shadow = [set()]

                def _fn(self, node):
                    local = {a.arg for a in node.args.args + node.args.kwonlyargs + node.args.posonlyargs}
                    if node.args.vararg:
                        local.add(node.args.vararg.arg)
                    if node.args.kwarg:
                        local.add(node.args.kwarg.arg)
                    for x in ast.walk(node):
                        if isinstance(x, ast.Name) and isinstance(x.ctx, ast.Store):
                            local.add(x.id)
                    self.shadow.append(local)
                    self.generic_visit(node)
                    self.shadow.pop()
                    return node

                visit_FunctionDef = _fn
                visit_AsyncFunctionDef = _fn

                def visit_Attribute(self, node):
                    nonlocal n
                    self.generic_visit(node)
                    if isinstance(node.value, ast.Name) and isinstance(node.ctx, ast.Load) and (node.value.id, node.attr) in attr_to_name \
                            and not any(node.value.id in sh for sh in self.shadow[1:]):
                        new = attr_to_name[(node.value.id, node.attr)]
                        if not any(new in sh for sh in self.shadow[1:]):
                            n += 1
                            return ast.copy_location(ast.Name(id=new, ctx=ast.Load()), node)
                    return node

                def visit_Name(self, node):
                    nonlocal n
                    if isinstance(node.ctx, ast.Load) and node.id in name_to_attr and not any(node.id in sh for sh in self.shadow[1:]):
                        m_, a_ = name_to_attr[node.id]
                        n += 1
                        return ast.copy_location(ast.Attribute(value=ast.Name(id=m_, ctx=ast.Load()), attr=a_, ctx=ast.Load()), node)
                    return node

            for i, st in enumerate(tree.body):
                if not isinstance(st, (ast.Import, ast.ImportFrom)):
                    tree.body[i] = T().visit(st)
            ast.fix_missing_locations(tree)
            # the import table seen by later passes (and by the rules) follows the audited spelling
            extra = []
            for (a, last), loc in attr_to_name.items():
                if self.imports[mod].get(loc) != want[loc]:
                    self.imports[mod][loc] = want[loc]
                    base_, _, last_ = want[loc].rpartition(".")
                    extra.append(ast.ImportFrom(module=base_, names=[ast.alias(name=last_, asname=None if loc == last_ else loc)], level=0))
            for a, (m_, a_) in name_to_attr.items():
                if m_ not in self.imports[mod]:
                    self.imports[mod][m_] = want[m_]
                    extra.append(ast.Import(names=[ast.alias(name=want[m_], asname=None if m_ == want[m_] else m_)]))
            if extra:
                pos = max([i for i, st in enumerate(tree.body) if isinstance(st, (ast.Import, ast.ImportFrom))] or [-1]) + 1
                tree.body[pos:pos] = extra
                ast.fix_missing_locations(tree)
        return n

    def canonical_forms(self, focus=None):
        """statement-level canonical forms (each rewrite is an exact equivalence):
        `t = A if c else B` -> if c: t = A / else: t = B;  a walrus that is the first thing its statement evaluates -> an assignment in front of it;
        adjacent `except X: BODY` / `except Y: BODY` with identical bodies and no binding -> `except (X, Y): BODY`."""
        n = 0

        def simple(e):
            return isinstance(e, (ast.Name, ast.Constant)) or (isinstance(e, ast.Attribute) and simple(e.value))

        in_class = [False]

        def exit_stack(st):
            """with ExitStack() as S: [x = S.enter_context(CM) | if c: x = S.enter…(A) else: x = S.enter…(B)]; TAIL  ->  with CM as x: TAIL  (nested, in order)"""
            if not (isinstance(st, (ast.With, ast.AsyncWith)) and len(st.items) == 1 and isinstance(st.items[0].context_expr, ast.Call)
                    and dotted_name(st.items[0].context_expr.func).split(".")[-1] in ("ExitStack", "AsyncExitStack") and not st.items[0].context_expr.args
                    and isinstance(st.items[0].optional_vars, ast.Name)):
                return None
            S = st.items[0].optional_vars.id

            def enter_of(x):
                """(target or None, cm expr, is_async) for `t = [await] S.enter_[async_]context(CM)` / the bare expression statement"""
                v = x.value if isinstance(x, (ast.Assign, ast.Expr)) else None
                if v is None or (isinstance(x, ast.Assign) and (len(x.targets) != 1 or not isinstance(x.targets[0], ast.Name))):
                    return None
                aw = isinstance(v, ast.Await)
                c = v.value if aw else v
                if isinstance(c, ast.Call) and isinstance(c.func, ast.Attribute) and isinstance(c.func.value, ast.Name) and c.func.value.id == S and len(c.args) == 1 and not c.keywords:
                    if c.func.attr == "enter_async_context" and aw:
                        return (x.targets[0] if isinstance(x, ast.Assign) else None, c.args[0], True)
                    if c.func.attr == "enter_context" and not aw:
                        return (x.targets[0] if isinstance(x, ast.Assign) else None, c.args[0], False)
                return None

            def mentions_stack(nodes):
                return any(isinstance(y, ast.Name) and y.id == S for x in nodes for y in ast.walk(x))

            def build(body):
                if not body:
                    return [ast.Pass()]
                head, tail = body[0], body[1:]
                e = enter_of(head)
                if e is not None:
                    tgt, cm, is_async = e
                    inner = build(tail)
                    w = (ast.AsyncWith if is_async else ast.With)(items=[ast.withitem(context_expr=cm, optional_vars=(ast.Name(id=tgt.id, ctx=ast.Store()) if tgt is not None else None))], body=inner, type_comment=None)
                    return [w]
                if isinstance(head, ast.If) and head.body and head.orelse and len(head.body) == 1 and len(head.orelse) == 1 and enter_of(head.body[0]) and enter_of(head.orelse[0]) \
                        and not mentions_stack([head.test]):
                    a = build([head.body[0]] + [copy.deepcopy(x) for x in tail])
                    b = build([head.orelse[0]] + tail)
                    return [ast.If(test=head.test, body=a, orelse=b)]
                if mentions_stack(body):
                    raise ValueError("stack used otherwise")
                return body

            try:
                new = build(list(st.body))
            except ValueError:
                return None
            if new == st.body or (len(new) == len(st.body) and all(a is b for a, b in zip(new, st.body))):
                return None
            for x in new:
                ast.copy_location(x, st)
                ast.fix_missing_locations(x)
            return new

        def update_genexp(st):
            """X.update(<genexp>) / X.extend(<genexp | listcomp>) as a statement  ->  the loop that adds element by element"""
            if not (isinstance(st, ast.Expr) and isinstance(st.value, ast.Call) and isinstance(st.value.func, ast.Attribute) and st.value.func.attr in ("update", "extend")
                    and len(st.value.args) == 1 and not st.value.keywords and isinstance(st.value.args[0], (ast.GeneratorExp, ast.ListComp)) and simple(st.value.func.value)):
                return None
            g = st.value.args[0]
            if any(gen.is_async for gen in g.generators):
                return None
            add = "add" if st.value.func.attr == "update" else "append"
            if st.value.func.attr == "update" and isinstance(g, ast.ListComp):
                pass
            body = [ast.Expr(value=ast.Call(func=ast.Attribute(value=copy.deepcopy(st.value.func.value), attr=add, ctx=ast.Load()), args=[g.elt], keywords=[]))]
            for gen in reversed(g.generators):
                for cond in reversed(gen.ifs):
                    body = [ast.If(test=cond, body=body, orelse=[])]
                body = [ast.For(target=gen.target, iter=gen.iter, body=body, orelse=[], type_comment=None)]
            for x in body:
                ast.copy_location(x, st)
                ast.fix_missing_locations(x)
            return body

        def rewrite_list(stmts):
            nonlocal n
            out = []
            pending = list(stmts)
            stmts = []
            for st in pending:
                r = exit_stack(st)
                if r is None:
                    r = update_genexp(st)
                if r is not None:
                    n += 1
                    for x in r:
                        visit(x)
                    stmts.extend(r)
                else:
                    stmts.append(st)
            # `if C: __v = True / else: __v = False` followed by `if __v: …` (the result flag of an inlined boolean helper) is `if C: …`
            folded = []
            k = 0
            while k < len(stmts):
                a = stmts[k]
                b = stmts[k + 1] if k + 1 < len(stmts) else None
                if isinstance(a, ast.If) and isinstance(b, ast.If) and len(a.body) == 1 and len(a.orelse) == 1 \
                        and all(isinstance(x, ast.Assign) and len(x.targets) == 1 and isinstance(x.targets[0], ast.Name) and isinstance(x.value, ast.Constant) and isinstance(x.value.value, bool) for x in (a.body[0], a.orelse[0])) \
                        and a.body[0].targets[0].id == a.orelse[0].targets[0].id and a.body[0].targets[0].id.startswith(("__val", "__ret")) \
                        and a.body[0].value.value != a.orelse[0].value.value:
                    v = a.body[0].targets[0].id
                    t = b.test
                    neg = isinstance(t, ast.UnaryOp) and isinstance(t.op, ast.Not)
                    core = t.operand if neg else t
                    later = any(isinstance(y, ast.Name) and y.id == v for x in stmts[k + 2:] + b.body + b.orelse for y in ast.walk(x))
                    if isinstance(core, ast.Name) and core.id == v and not later:
                        cond = a.test if a.body[0].value.value is True else ast.UnaryOp(op=ast.Not(), operand=a.test)
                        if neg:
                            cond = ast.UnaryOp(op=ast.Not(), operand=cond)
                        b.test = ast.copy_location(cond, a)
                        ast.fix_missing_locations(b)
                        folded.append(b)
                        n += 1
                        k += 2
                        continue
                folded.append(a)
                k += 1
            stmts = folded
            for st in stmts:
                # annotations are not behaviour (outside class bodies, where they declare dataclass / model / NamedTuple fields)
                if isinstance(st, ast.AnnAssign) and not in_class[0] and isinstance(st.target, (ast.Name, ast.Attribute, ast.Subscript)):
                    if st.value is None:
                        if isinstance(st.target, ast.Name):
                            n += 1
                            continue
                    else:
                        st = ast.copy_location(ast.Assign(targets=[st.target], value=st.value, type_comment=None), st)
                        n += 1
                # walrus first
                host = None
                if isinstance(st, (ast.If,)):
                    host = st.test
                elif isinstance(st, (ast.Expr, ast.Return)) and st.value is not None:
                    host = st.value
                elif isinstance(st, ast.Assign):
                    host = st.value
                guard = 0
                while host is not None and guard < 4:
                    guard += 1
                    order = _first_evaluated(host)
                    w = next((e for e in order if isinstance(e, ast.NamedExpr)), None)
                    if w is None or not isinstance(w.target, ast.Name):
                        break
                    inside = {id(x) for x in ast.walk(w)}
                    before = order[: order.index(w)]
                    if not all(id(e) in inside or simple(e) for e in before):
                        break
                    asg = ast.copy_location(ast.Assign(targets=[ast.Name(id=w.target.id, ctx=ast.Store())], value=w.value, type_comment=None), st)
                    out.append(asg)
                    newhost = _replace_node(host, w, ast.copy_location(ast.Name(id=w.target.id, ctx=ast.Load()), w))
                    if isinstance(st, ast.If):
                        st.test = newhost
                    else:
                        st.value = newhost
                    host = newhost
                    n += 1
                if isinstance(st, ast.Assign) and isinstance(st.value, ast.IfExp) and len(st.targets) == 1 and isinstance(st.targets[0], (ast.Name, ast.Attribute)) \
                        and (isinstance(st.targets[0], ast.Name) or simple(st.targets[0].value)):
                    ie = st.value
                    a = ast.copy_location(ast.Assign(targets=[copy.deepcopy(st.targets[0])], value=ie.body, type_comment=None), st)
                    b = ast.copy_location(ast.Assign(targets=[copy.deepcopy(st.targets[0])], value=ie.orelse, type_comment=None), st)
                    new = ast.copy_location(ast.If(test=ie.test, body=rewrite_list([a]), orelse=rewrite_list([b])), st)
                    out.append(new)
                    n += 1
                    continue
                out.append(st)
            return out

        def takewhile(node):
            """for T in itertools.takewhile(lambda p: COND, IT): BODY  ->  for T in IT: if not COND[p:=T]: break; BODY"""
            nonlocal n
            it = node.iter
            if not (isinstance(node, ast.For) and isinstance(it, ast.Call) and (dotted_name(it.func) in ("itertools.takewhile", "takewhile")) and len(it.args) == 2 and not it.keywords
                    and isinstance(it.args[0], ast.Lambda) and len(it.args[0].args.args) == 1 and not node.orelse and isinstance(node.target, ast.Name)):
                return
            lam = it.args[0]
            p = lam.args.args[0].arg
            cond = copy.deepcopy(lam.body)
            for x in ast.walk(cond):
                if isinstance(x, ast.Name) and x.id == p:
                    x.id = node.target.id
            test = cond.operand if isinstance(cond, ast.UnaryOp) and isinstance(cond.op, ast.Not) else ast.UnaryOp(op=ast.Not(), operand=cond)
            brk = ast.copy_location(ast.If(test=test, body=[ast.copy_location(ast.Break(), node)], orelse=[]), node)
            node.iter = it.args[1]
            node.body = [brk] + node.body
            n += 1

        def match_to_if(st):
            """match SUBJ: case <value | None | A | B | _ | name> [if G]: …   ->   the if/elif chain with the same tests in the same order"""
            if not isinstance(st, ast.Match):
                return None
            subj = st.subject
            pre = []
            if not (simple(subj) or (isinstance(subj, ast.Subscript) and simple(subj.value) and isinstance(subj.slice, ast.Constant))):
                return None

            def test_of(p):
                if isinstance(p, ast.MatchValue):
                    return ast.Compare(left=copy.deepcopy(subj), ops=[ast.Eq()], comparators=[p.value])
                if isinstance(p, ast.MatchSingleton):
                    return ast.Compare(left=copy.deepcopy(subj), ops=[ast.Is()], comparators=[ast.Constant(value=p.value)])
                if isinstance(p, ast.MatchOr):
                    parts = [test_of(x) for x in p.patterns]
                    if any(x is None or x is True for x in parts):
                        return None
                    return ast.BoolOp(op=ast.Or(), values=parts)
                if isinstance(p, ast.MatchAs) and p.pattern is None:
                    return True
                return None

            chain = []
            for case in st.cases:
                t = test_of(case.pattern)
                if t is None:
                    return None
                body = list(case.body)
                bind = None
                if t is True and isinstance(case.pattern, ast.MatchAs) and case.pattern.name:
                    bind = ast.Assign(targets=[ast.Name(id=case.pattern.name, ctx=ast.Store())], value=copy.deepcopy(subj), type_comment=None)
                    if case.guard is None:
                        body = [bind] + body
                        bind = None
                if case.guard is not None:
                    t = case.guard if t is True else ast.BoolOp(op=ast.And(), values=[t, case.guard])
                chain.append((t, body, bind))
            node = None
            for t, body, bind in reversed(chain):
                if t is True:
                    node = body
                else:
                    new = ast.If(test=t, body=body, orelse=(node if isinstance(node, list) else ([node] if node is not None else [])))
                    # `case name if guard:` binds the capture before the guard is evaluated (and keeps it bound when the guard fails)
                    node = [bind, new] if bind is not None else new
            if isinstance(node, list):
                return pre + node
            return pre + ([node] if node is not None else [])

        def visit(node):
            nonlocal n
            if isinstance(node, ast.ClassDef):
                saved = in_class[0]
                in_class[0] = True
                try:
                    for ch in node.body:
                        if isinstance(ch, FuncT):
                            in_class[0] = False
                            visit(ch)
                            in_class[0] = True
                        elif isinstance(ch, ast.ClassDef):
                            visit(ch)
                finally:
                    in_class[0] = saved
                return
            if isinstance(node, FuncT):
                saved = in_class[0]
                in_class[0] = False
                try:
                    _visit_inner(node)
                finally:
                    in_class[0] = saved
                return
            _visit_inner(node)

        def _visit_inner(node):
            nonlocal n
            for field in ("body", "orelse", "finalbody"):
                v = getattr(node, field, None)
                if isinstance(v, list) and any(isinstance(x, ast.Match) for x in v):
                    out = []
                    for x in v:
                        r = match_to_if(x) if isinstance(x, ast.Match) else None
                        if r is None:
                            out.append(x)
                        else:
                            for y in r:
                                ast.copy_location(y, x)
                                ast.fix_missing_locations(y)
                            out.extend(r)
                            n += 1
                    setattr(node, field, out)
            if isinstance(node, ast.Match):
                for case in node.cases:
                    visit(case)
            if isinstance(node, ast.For):
                takewhile(node)
            for field in ("body", "orelse", "finalbody"):
                v = getattr(node, field, None)
                if isinstance(v, list) and v and isinstance(v[0], ast.stmt):
                    for ch in v:
                        visit(ch)
                    setattr(node, field, rewrite_list(v))
            if isinstance(node, ast.Try):
                merged = []
                for h in node.handlers:
                    visit(h)
                    if merged and h.name is None and merged[-1].name is None and h.type is not None and merged[-1].type is not None \
                            and [ast.dump(x) for x in h.body] == [ast.dump(x) for x in merged[-1].body]:
                        prev = merged[-1]
                        elts = (list(prev.type.elts) if isinstance(prev.type, ast.Tuple) else [prev.type]) + (list(h.type.elts) if isinstance(h.type, ast.Tuple) else [h.type])
                        prev.type = ast.copy_location(ast.Tuple(elts=elts, ctx=ast.Load()), prev.type)
                        n += 1
                        continue
                    merged.append(h)
                node.handlers = merged
            elif isinstance(node, ast.ClassDef):
                pass

        class Fmt(ast.NodeTransformer):
            """'…{!r}…'.format(a, b) with a constant template and plain fields -> the f-string with the same pieces"""

            def visit_Call(self, node):
                nonlocal n
                self.generic_visit(node)
                f = node.func
                if not (isinstance(f, ast.Attribute) and f.attr == "format" and isinstance(f.value, ast.Constant) and isinstance(f.value.value, str)):
                    return node
                js = format_to_joined(f.value.value, node.args, node.keywords)
                if js is None:
                    return node
                n += 1
                return ast.copy_location(js, node)

            def visit_Call(self, node):  # noqa: F811  (extended below)
                return self._call(node)

            @staticmethod
            def _bytes_template(parts):
                """parts (Constant bytes | other expr) -> b"…%s…" % (exprs)"""
                tmpl, args = b"", []
                for p in parts:
                    if isinstance(p, ast.Constant) and isinstance(p.value, bytes):
                        tmpl += p.value.replace(b"%", b"%%")
                    else:
                        tmpl += b"%s"
                        args.append(p)
                if not args:
                    return ast.Constant(value=tmpl.replace(b"%%", b"%"))
                right = args[0] if len(args) == 1 and not isinstance(args[0], ast.Tuple) else ast.Tuple(elts=args, ctx=ast.Load())
                return ast.BinOp(left=ast.Constant(value=tmpl), op=ast.Mod(), right=right)

            def visit_BinOp(self, node):
                nonlocal n
                self.generic_visit(node)
                # a + b"\x00" + c  (bytes concatenation with at least one literal piece)  ->  b"%s\x00%s" % (a, c)
                if isinstance(node.op, ast.Add):
                    flat = []

                    def fl(e):
                        if isinstance(e, ast.BinOp) and isinstance(e.op, ast.Add):
                            fl(e.left)
                            fl(e.right)
                        else:
                            flat.append(e)

                    fl(node)
                    if len(flat) >= 2 and any(isinstance(p, ast.Constant) and isinstance(p.value, bytes) for p in flat) \
                            and not any(isinstance(p, ast.Constant) and not isinstance(p.value, bytes) for p in flat) \
                            and not any(isinstance(p, ast.BinOp) and isinstance(p.op, ast.Mod) for p in flat):
                        n += 1
                        return ast.copy_location(self._bytes_template(flat), node)
                return node

            def visit_Subscript(self, node):
                nonlocal n
                self.generic_visit(node)
                sl = node.slice
                if isinstance(sl, ast.Call) and isinstance(sl.func, ast.Name) and sl.func.id == "slice" and not sl.keywords and all(isinstance(a, (ast.Constant, ast.UnaryOp)) for a in sl.args):
                    a = list(sl.args)
                    none = lambda x: None if (isinstance(x, ast.Constant) and x.value is None) else x  # noqa: E731
                    if len(a) == 1:
                        lo, hi, stp = None, none(a[0]), None
                    else:
                        lo, hi, stp = none(a[0]), none(a[1]), (none(a[2]) if len(a) == 3 else None)
                    node.slice = ast.copy_location(ast.Slice(lower=lo, upper=hi, step=stp), sl)
                    n += 1
                return node

            def visit_Compare(self, node):
                nonlocal n
                self.generic_visit(node)
                # 'id' in frozenset({'id', 'pubkey'})  with constants on both sides
                if len(node.ops) == 1 and isinstance(node.ops[0], (ast.In, ast.NotIn)) and isinstance(node.left, ast.Constant):
                    c = node.comparators[0]
                    if isinstance(c, ast.Call) and isinstance(c.func, ast.Name) and c.func.id in ("frozenset", "set", "tuple") and len(c.args) == 1:
                        c = c.args[0]
                    if isinstance(c, (ast.Set, ast.Tuple, ast.List)) and all(isinstance(e, ast.Constant) for e in c.elts):
                        val = node.left.value in [e.value for e in c.elts]
                        n += 1
                        return ast.copy_location(ast.Constant(value=val if isinstance(node.ops[0], ast.In) else not val), node)
                return node

            def visit_IfExp(self, node):
                nonlocal n
                self.generic_visit(node)
                if isinstance(node.test, ast.Constant) and isinstance(node.test.value, bool):
                    n += 1
                    return node.body if node.test.value else node.orelse
                return node

            def visit_DictComp(self, node):
                nonlocal n
                # {K: V for a, b in TABLE.items()} over a module-level constant dict: the dict display with a, b substituted
                if len(node.generators) == 1 and not node.generators[0].ifs and not node.generators[0].is_async:
                    g = node.generators[0]
                    it = g.iter
                    if isinstance(it, ast.Call) and isinstance(it.func, ast.Attribute) and it.func.attr == "items" and isinstance(it.func.value, ast.Name) and not it.args \
                            and isinstance(g.target, ast.Tuple) and len(g.target.elts) == 2 and all(isinstance(e, ast.Name) for e in g.target.elts):
                        table = const_dicts.get(cur_mod[0], {}).get(it.func.value.id)
                        if table is not None:
                            kn, vn = g.target.elts[0].id, g.target.elts[1].id
                            keys, vals = [], []
                            for k, v in zip(table.keys, table.values):
                                def sub(e):
                                    e = copy.deepcopy(e)
                                    class S(ast.NodeTransformer):
                                        def visit_Name(self_, nd):
                                            if isinstance(nd.ctx, ast.Load) and nd.id == kn:
                                                return ast.copy_location(copy.deepcopy(k), nd)
                                            if isinstance(nd.ctx, ast.Load) and nd.id == vn:
                                                return ast.copy_location(copy.deepcopy(v), nd)
                                            return nd
                                    return S().visit(e)
                                keys.append(sub(node.key))
                                vals.append(sub(node.value))
                            n += 1
                            new = ast.copy_location(ast.Dict(keys=keys, values=vals), node)
                            ast.fix_missing_locations(new)
                            return self.visit(new)
                self.generic_visit(node)
                return node

            def _call(self, node):
                nonlocal n
                self.generic_visit(node)
                f = node.func
                # b"\x00".join((a, b, c)) over a literal tuple/list of pieces  ->  b"%s\x00%s\x00%s" % (a, b, c)
                if isinstance(f, ast.Attribute) and f.attr == "join" and isinstance(f.value, ast.Constant) and isinstance(f.value.value, bytes) and len(node.args) == 1 and not node.keywords \
                        and isinstance(node.args[0], (ast.Tuple, ast.List)) and node.args[0].elts and not any(isinstance(e, ast.Starred) for e in node.args[0].elts):
                    parts = []
                    for i, e in enumerate(node.args[0].elts):
                        if i and f.value.value:
                            parts.append(ast.Constant(value=f.value.value))
                        parts.append(e)
                    n += 1
                    return ast.copy_location(self._bytes_template(parts), node)
                # F(**{"a": x, "b": y})  is  F(a=x, b=y)
                for kw in list(node.keywords):
                    if kw.arg is None and isinstance(kw.value, ast.Dict) and kw.value.keys and all(isinstance(k, ast.Constant) and isinstance(k.value, str) and k.value.isidentifier() for k in kw.value.keys):
                        i = node.keywords.index(kw)
                        node.keywords[i:i + 1] = [ast.keyword(arg=k.value, value=v) for k, v in zip(kw.value.keys, kw.value.values)]
                        n += 1
                # TD(k=v, …) for a TypedDict class TD builds the plain dict {"k": v, …}
                if isinstance(f, ast.Name) and f.id in typed_dicts.get(cur_mod[0], ()) and not node.args and node.keywords and all(k.arg for k in node.keywords):
                    n += 1
                    return ast.copy_location(ast.Dict(keys=[ast.Constant(value=k.arg) for k in node.keywords], values=[k.value for k in node.keywords]), node)
                # list(<generator expression>) is the list comprehension, set(<genexp>) the set comprehension
                if isinstance(f, ast.Name) and f.id in ("list", "set") and len(node.args) == 1 and not node.keywords and isinstance(node.args[0], ast.GeneratorExp):
                    g = node.args[0]
                    n += 1
                    cls_ = ast.ListComp if f.id == "list" else ast.SetComp
                    return ast.copy_location(cls_(elt=g.elt, generators=g.generators), node)
                # run_in_executor(ex, functools.partial(f, a, b), c)  calls  f(a, b, c)
                if isinstance(f, ast.Attribute) and f.attr in ("run_in_executor",) and len(node.args) >= 2 and isinstance(node.args[1], ast.Call) \
                        and dotted_name(node.args[1].func) in ("functools.partial", "partial") and node.args[1].args and not node.args[1].keywords \
                        and not any(isinstance(a, ast.Starred) for a in node.args[1].args):
                    p = node.args[1]
                    node.args = [node.args[0], p.args[0]] + list(p.args[1:]) + list(node.args[2:])
                    n += 1
                    return node
                if dotted_name(f) in ("asyncio.to_thread", "to_thread") and node.args and isinstance(node.args[0], ast.Call) and dotted_name(node.args[0].func) in ("functools.partial", "partial") \
                        and node.args[0].args and not node.args[0].keywords and not node.keywords:
                    p = node.args[0]
                    node.args = [p.args[0]] + list(p.args[1:]) + list(node.args[1:])
                    n += 1
                    return node
                # "".join([piece, piece, …]) over a literal list of string pieces is their concatenation
                if isinstance(f, ast.Attribute) and f.attr == "join" and isinstance(f.value, ast.Constant) and f.value.value == "" and len(node.args) == 1 and not node.keywords \
                        and isinstance(node.args[0], (ast.List, ast.Tuple)) and node.args[0].elts \
                        and all(isinstance(e, ast.JoinedStr) or (isinstance(e, ast.Constant) and isinstance(e.value, str)) for e in node.args[0].elts):
                    vals = []
                    for e in node.args[0].elts:
                        vals.extend(e.values if isinstance(e, ast.JoinedStr) else [e])
                    merged = []
                    for v in vals:
                        if merged and isinstance(v, ast.Constant) and isinstance(merged[-1], ast.Constant):
                            merged[-1] = ast.Constant(value=merged[-1].value + v.value)
                        else:
                            merged.append(v)
                    n += 1
                    return ast.copy_location(ast.JoinedStr(values=merged), node)
                if not (isinstance(f, ast.Attribute) and f.attr == "format" and isinstance(f.value, ast.Constant) and isinstance(f.value.value, str)):
                    return node
                js = format_to_joined(f.value.value, node.args, node.keywords)
                if js is None:
                    return node
                n += 1
                return ast.copy_location(js, node)

        def enumerate_loops(tree):
            """for i, x in enumerate(IT[, S]): BODY  ->  i = S; for x in IT: BODY; i += 1   when BODY has no `continue` of this loop and i is read only inside it"""
            nonlocal n
            for fn in [f for f in ast.walk(tree) if isinstance(f, FuncT)]:
                for node in list(_own_walk(fn)):
                    if not (isinstance(node, ast.For) and isinstance(node.iter, ast.Call) and isinstance(node.iter.func, ast.Name) and node.iter.func.id == "enumerate"
                            and 1 <= len(node.iter.args) <= 2 and all(k.arg == "start" for k in node.iter.keywords)
                            and isinstance(node.target, ast.Tuple) and len(node.target.elts) == 2 and isinstance(node.target.elts[0], ast.Name) and not node.orelse):
                        continue
                    idx = node.target.elts[0].id
                    start = node.iter.args[1] if len(node.iter.args) == 2 else next((k.value for k in node.iter.keywords), ast.Constant(value=0))
                    if not isinstance(start, ast.Constant):
                        continue

                    def has_continue(stmts):
                        for st in stmts:
                            if isinstance(st, ast.Continue):
                                return True
                            if isinstance(st, (ast.For, ast.AsyncFor, ast.While) + FuncT + (ast.ClassDef,)):
                                if isinstance(st, (ast.For, ast.AsyncFor, ast.While)) and has_continue(st.orelse):
                                    return True
                                continue
                            for field in ("body", "orelse", "finalbody"):
                                if has_continue(getattr(st, field, []) or []):
                                    return True
                            if isinstance(st, ast.Try) and any(has_continue(h.body) for h in st.handlers):
                                return True
                        return False

                    if has_continue(node.body):
                        continue
                    inside = {id(x) for x in ast.walk(node)}
                    if any(isinstance(x, ast.Name) and x.id == idx and id(x) not in inside for x in ast.walk(fn)):
                        continue
                    if any(isinstance(x, ast.Name) and x.id == idx and isinstance(x.ctx, ast.Store) and x is not node.target.elts[0] for x in ast.walk(node)):
                        continue
                    parent = _parent_in(fn, node)
                    if parent is None:
                        continue
                    for field in ("body", "orelse", "finalbody"):
                        lst = getattr(parent, field, None)
                        if isinstance(lst, list) and node in lst:
                            i = lst.index(node)
                            init = ast.copy_location(ast.Assign(targets=[ast.Name(id=idx, ctx=ast.Store())], value=copy.deepcopy(start), type_comment=None), node)
                            node.target = node.target.elts[1]
                            node.iter = node.iter.args[0]
                            node.body.append(ast.copy_location(ast.AugAssign(target=ast.Name(id=idx, ctx=ast.Store()), op=ast.Add(), value=ast.Constant(value=1)), node))
                            lst.insert(i, init)
                            n += 1
                            break

        # names that denote TypedDict classes, per module (own definitions and by-name imports)
        typed_dicts = {}
        cur_mod = [None]
        own_td = {}
        for mod, tree in self.trees.items():
            own_td[mod] = {c.name for c in tree.body if isinstance(c, ast.ClassDef) and any(dotted_name(b).split(".")[-1] == "TypedDict" for b in c.bases)}
        for mod in self.trees:
            names = set(own_td[mod])
            for local, tgt in self.imports.get(mod, {}).items():
                m2, _, sym = tgt.rpartition(".")
                if sym in own_td.get(m2, ()):
                    names.add(local)
            typed_dicts[mod] = names

        const_dicts = {}
        for mod, tree in self.trees.items():
            d = {}
            for st in tree.body:
                tgt = st.targets[0] if isinstance(st, ast.Assign) and len(st.targets) == 1 else (st.target if isinstance(st, ast.AnnAssign) and st.value is not None else None)
                val = st.value if isinstance(st, (ast.Assign, ast.AnnAssign)) else None
                if isinstance(tgt, ast.Name) and isinstance(val, ast.Dict) and val.keys and all(isinstance(k, ast.Constant) for k in val.keys) and all(_is_literal(v) for v in val.values):
                    d[tgt.id] = val
            # not mutated / re-bound anywhere in the module
            for x in ast.walk(tree):
                if isinstance(x, ast.Name) and isinstance(x.ctx, ast.Store) and x.id in d and sum(1 for y in ast.walk(tree) if isinstance(y, ast.Name) and y.id == x.id and isinstance(y.ctx, ast.Store)) > 1:
                    d.pop(x.id, None)
                if isinstance(x, ast.Subscript) and isinstance(x.ctx, (ast.Store, ast.Del)) and isinstance(x.value, ast.Name):
                    d.pop(x.value.id, None)
            const_dicts[mod] = d

        def bound_aliases(tree):
            """`a = obj.meth` bound once in a function, obj never re-bound after it, `a` never re-bound: every use of `a` is `obj.meth`"""
            nonlocal n
            for fn in [f for f in ast.walk(tree) if isinstance(f, FuncT)]:
                stores = {}
                for x in _own_walk(fn):
                    if isinstance(x, ast.Name) and isinstance(x.ctx, ast.Store):
                        stores.setdefault(x.id, []).append(x)
                    elif isinstance(x, ast.arg):
                        stores.setdefault(x.arg, []).append(x)
                for a in fn.args.args + fn.args.kwonlyargs + fn.args.posonlyargs:
                    stores.setdefault(a.arg, []).append(a)
                nested_stores = {x.id for f2 in _own_walk(fn) if isinstance(f2, FuncT + (ast.Lambda,)) for x in ast.walk(f2) if isinstance(x, ast.Name) and isinstance(x.ctx, ast.Store)}
                nested_nonlocal = {nm for f2 in ast.walk(fn) if isinstance(f2, (ast.Nonlocal, ast.Global)) for nm in f2.names}
                for st in [x for x in _own_walk(fn) if isinstance(x, ast.Assign)]:
                    if not (len(st.targets) == 1 and isinstance(st.targets[0], ast.Name) and isinstance(st.value, ast.Attribute) and simple(st.value.value) and not isinstance(st.value.value, ast.Constant)):
                        continue
                    a = st.targets[0].id
                    if len(stores.get(a, [])) != 1 or a in nested_stores or a in nested_nonlocal:
                        continue
                    root = st.value.value
                    while isinstance(root, ast.Attribute):
                        root = root.value
                    base = root.id
                    if base in nested_nonlocal:
                        continue
                    # the object expression must denote the same object at every use: its root name is not re-bound after the alias is taken
                    later = [x for x in stores.get(base, []) if getattr(x, "lineno", 0) > st.lineno]
                    if later:
                        continue
                    if isinstance(st.value.value, ast.Attribute) and base != "self":
                        continue
                    uses = [x for x in ast.walk(fn) if isinstance(x, ast.Name) and x.id == a and isinstance(x.ctx, ast.Load)]
                    if not uses or any(getattr(u, "lineno", 0) < st.lineno for u in uses):
                        continue
                    # only when every use is a call `a(…)`: then `a` is a bound method (or another callable attribute) looked up once instead of per call
                    called = all(isinstance(_parent_in(fn, u), ast.Call) and _parent_in(fn, u).func is u for u in uses)
                    # … or `a` is a namespace taken from self (`cols = self.EventTable.c`) and only ever dereferenced (`cols.pubkey`)
                    namespace = base == "self" and all(isinstance(_parent_in(fn, u), ast.Attribute) and _parent_in(fn, u).value is u for u in uses)
                    if not (called or namespace):
                        continue
                    for u in uses:
                        _replace_node(fn, u, ast.copy_location(copy.deepcopy(st.value), u))
                    par = _parent_in(fn, st)
                    for field in ("body", "orelse", "finalbody"):
                        lst = getattr(par, field, None)
                        if isinstance(lst, list) and st in lst:
                            lst.remove(st)
                            if not lst:
                                lst.append(ast.copy_location(ast.Pass(), st))
                    n += 1

        def operator_callers(tree):
            """G = operator.methodcaller("m", a) / itemgetter(k) / attrgetter("a") bound once (module level or in a function);  G(x) -> x.m(a) / x[k] / x.a"""
            nonlocal n
            scopes = [tree] + [f for f in ast.walk(tree) if isinstance(f, FuncT)]
            for sc in scopes:
                body = sc.body
                table = {}
                for st in body:
                    if isinstance(st, ast.Assign) and len(st.targets) == 1 and isinstance(st.targets[0], ast.Name) and isinstance(st.value, ast.Call) and not st.value.keywords:
                        kind = dotted_name(st.value.func).split(".")[-1]
                        a = st.value.args
                        if kind == "methodcaller" and a and isinstance(a[0], ast.Constant) and isinstance(a[0].value, str) and all(isinstance(x, ast.Constant) for x in a[1:]):
                            table[st.targets[0].id] = ("m", a[0].value, a[1:])
                        elif kind == "itemgetter" and len(a) == 1 and isinstance(a[0], ast.Constant):
                            table[st.targets[0].id] = ("i", a[0], None)
                        elif kind == "attrgetter" and len(a) == 1 and isinstance(a[0], ast.Constant) and isinstance(a[0].value, str) and a[0].value.isidentifier():
                            table[st.targets[0].id] = ("a", a[0].value, None)
                if not table:
                    continue
                stores = {}
                for x in ast.walk(tree if sc is tree else sc):
                    if isinstance(x, ast.Name) and isinstance(x.ctx, ast.Store) and x.id in table:
                        stores[x.id] = stores.get(x.id, 0) + 1
                table = {k: v for k, v in table.items() if stores.get(k) == 1}
                if not table:
                    continue

                class G(ast.NodeTransformer):
                    def visit_Call(self, node):
                        nonlocal n
                        self.generic_visit(node)
                        if isinstance(node.func, ast.Name) and node.func.id in table and len(node.args) == 1 and not node.keywords and not isinstance(node.args[0], ast.Starred):
                            kind, what, extra = table[node.func.id]
                            x = node.args[0]
                            n += 1
                            if kind == "m":
                                return ast.copy_location(ast.Call(func=ast.Attribute(value=x, attr=what, ctx=ast.Load()), args=[copy.deepcopy(e) for e in extra], keywords=[]), node)
                            if kind == "i":
                                return ast.copy_location(ast.Subscript(value=x, slice=copy.deepcopy(what), ctx=ast.Load()), node)
                            return ast.copy_location(ast.Attribute(value=x, attr=what, ctx=ast.Load()), node)
                        return node

                G().visit(sc)

        def partial_aliases(tree):
            """p = functools.partial(f, a, b) bound once in a function (arguments plain names that are never re-bound there): uses of p - also inside nested
            functions - are that partial expression"""
            nonlocal n
            for fn in [f for f in ast.walk(tree) if isinstance(f, FuncT)]:
                stores = {}
                for x in ast.walk(fn):
                    if isinstance(x, ast.Name) and isinstance(x.ctx, ast.Store):
                        stores[x.id] = stores.get(x.id, 0) + 1
                for st in [x for x in fn.body if isinstance(x, ast.Assign)]:
                    v = st.value
                    if not (len(st.targets) == 1 and isinstance(st.targets[0], ast.Name) and isinstance(v, ast.Call) and dotted_name(v.func) in ("functools.partial", "partial")
                            and v.args and not v.keywords and all(isinstance(a, ast.Name) for a in v.args)):
                        continue
                    p = st.targets[0].id
                    if stores.get(p) != 1 or any(stores.get(a.id, 0) > 1 for a in v.args):
                        continue
                    uses = [x for x in ast.walk(fn) if isinstance(x, ast.Name) and x.id == p and isinstance(x.ctx, ast.Load)]
                    if not uses:
                        continue
                    for u in uses:
                        _replace_node(fn, u, ast.copy_location(copy.deepcopy(v), u))
                    fn.body.remove(st)
                    n += 1

        for mod, tree in self.trees.items():
            if focus is not None and mod not in focus:
                continue
            before = n
            cur_mod[0] = mod
            partial_aliases(tree)
            operator_callers(tree)
            visit(tree)
            enumerate_loops(tree)
            bound_aliases(tree)
            Fmt().visit(tree)
            if n != before:
                ast.fix_missing_locations(tree)
        return n

    def propagate_all(self, focus=None):
        """N1 for every (focused) module"""
        for mod, tree in self.trees.items():
            if focus is not None and mod not in focus:
                continue
            imported = {}
            for local, tgt in self.imports[mod].items():
                m2, _, sym = tgt.rpartition(".")
                if m2 in self.trees and m2 != mod and sym.isupper():
                    c = module_constants(self.trees[m2]).get(sym)
                    if c is not None:
                        imported[local] = c
            self.stats[mod]["constants_propagated"] = propagate_constants(tree, imported) + propagate_class_constants(tree)

    def run(self):
        focus = self.focus
        if focus is None:
            self.flatten_new_bases()
            self.closures_from_callable_classes()
            self.rename_back()
        self.rename_imports_back(focus)
        self.propagate_all(focus)
        self.split_with_items(focus)
        self.canonical_forms(focus)
        self.rename_locals_back(only=focus)
        self.fold_new_temporaries(only=focus)
        self.canonical_forms(focus)
        if not self.known:
            return self.stats
        # names of new helpers; functions that mention none of them (and define no new closure) need no rewriting
        new_names = set()
        new_in_focus = False
        for mod, tree in self.trees.items():
            for name, fn in self.funcs[mod].items():
                if self.is_new(mod, name, fn):
                    new_names.add(name)
                    new_in_focus = new_in_focus or (focus is not None and mod in focus)
            for cname, cd in self.classes[mod].items():
                for st in cd.body:
                    if isinstance(st, FuncT) and self.is_new(mod, f"{cname}.{st.name}", st):
                        new_names.add(st.name)
                        new_in_focus = new_in_focus or (focus is not None and mod in focus)
        # new generator-based context managers (decorated, hence not `new helpers` in the sense of is_new) are inlined at their with-statements
        for mod, tree in self.trees.items():
            for name, fn_ in self.funcs[mod].items():
                if f"{mod}:{name}" not in self.known and any(ast.unparse(d).split(".")[-1] in ("contextmanager", "asynccontextmanager") for d in fn_.decorator_list):
                    new_names.add(name)
            for cname, cd_ in self.classes[mod].items():
                for st in cd_.body:
                    if isinstance(st, FuncT) and f"{mod}:{cname}.{st.name}" not in self.known and any(ast.unparse(d).split(".")[-1] in ("contextmanager", "asynccontextmanager") for d in st.decorator_list):
                        new_names.add(st.name)
        # tables of helpers (dispatch dicts / tuples bound at module or class level) are entry points to them as well
        if new_names:
            base_names = set(new_names)
            for mod, tree in self.trees.items():
                for st in ast.walk(tree):
                    if isinstance(st, ast.Assign) and len(st.targets) == 1 and isinstance(st.targets[0], ast.Name) and isinstance(st.value, (ast.Dict, ast.Tuple, ast.List)):
                        if any((isinstance(x, ast.Name) and x.id in base_names) or (isinstance(x, ast.Attribute) and x.attr in base_names) for x in ast.walk(st.value)):
                            new_names.add(st.targets[0].id)
        if focus is not None and new_in_focus:
            # a helper defined in a re-read module may be called from modules whose (shared) trees must not be touched here:
            # the caller re-reads the whole package instead
            self.needs_full_reload = True
            return self.stats
        scope = focus
        closures = {}
        for mod, tree in self.trees.items():
            if scope is not None and mod not in scope:
                continue
            for fn, cd in self._all_defs(tree):
                q = (f"{cd.name}." if cd is not None else "") + fn.name
                for sub in _own_walk(fn):
                    if isinstance(sub, FuncT) and f"{mod}:{q}.{sub.name}" not in self.known:
                        closures[id(fn)] = True
        if not new_names and not closures:
            return self.stats
        total = 0
        for _ in range(4):
            before = total
            for mod, tree in self.trees.items():
                if scope is not None and mod not in scope:
                    continue
                n = 0
                for fn, cd in self._all_defs(tree):
                    if id(fn) not in closures and not any((isinstance(x, ast.Name) and x.id in new_names) or (isinstance(x, ast.Attribute) and x.attr in new_names) for x in ast.walk(fn)):
                        continue
                    n += self.process_function(fn, mod, cd)
                self.stats[mod]["helper_calls_inlined"] += n
                total += n
            if total == before:
                break
        if total:
            self._drop_orphans()
        self.scalarize_records(only=focus)
        self.fold_new_temporaries(only=focus)
        if total:
            self.canonical_forms(focus)
        return self.stats

    def _all_defs(self, tree):
        out = []

        def scan(body, cd):
            for st in body:
                if isinstance(st, FuncT):
                    out.append((st, cd))
                elif isinstance(st, ast.ClassDef):
                    scan(st.body, st)
                elif isinstance(st, (ast.If, ast.Try)) and cd is None:
                    scan(st.body, None)
                    scan(st.orelse, None)
                    if isinstance(st, ast.Try):
                        for h in st.handlers:
                            scan(h.body, None)

        scan(tree.body, None)
        return out

    def _drop_orphans(self):
        """new helpers that are no longer referenced anywhere in the package: remove them so that whole-module scans do not see
        their bodies twice (once inlined in the audited caller, once in the orphaned helper)"""
        refs: dict = {}
        skip = set()
        for mod, tree in self.trees.items():
            for n in ast.walk(tree):
                if id(n) in self.__dict__.get("expanded_tables", ()) or (isinstance(n, (ast.Tuple, ast.List)) and id(n) in self.__dict__.get("unrolled_tables", ())):
                    # a dispatch table whose uses were expanded into an if-chain no longer keeps its helpers alive
                    for x in ast.walk(n):
                        skip.add(id(x))
        for mod, tree in self.trees.items():
            for n in ast.walk(tree):
                if id(n) in skip:
                    continue
                if isinstance(n, ast.Name):
                    refs[n.id] = refs.get(n.id, 0) + 1
                elif isinstance(n, ast.Attribute):
                    refs[n.attr] = refs.get(n.attr, 0) + 1

        def self_refs(d):
            return sum(1 for n in ast.walk(d) if (isinstance(n, ast.Name) and n.id == d.name) or (isinstance(n, ast.Attribute) and n.attr == d.name))

        for mod, tree in self.trees.items():
            if self.focus is not None and mod not in self.focus:
                continue
            def droppable(q, d):
                if self.is_new(mod, q, d):
                    return True
                return f"{mod}:{q}" not in self.known and not self._moved_known(q) and any(ast.unparse(x).split(".")[-1] in ("contextmanager", "asynccontextmanager") for x in d.decorator_list)

            for st in list(tree.body):
                if isinstance(st, FuncT) and droppable(st.name, st):
                    if refs.get(st.name, 0) - self_refs(st) <= 0:
                        tree.body.remove(st)
                elif isinstance(st, ast.ClassDef):
                    for sub in list(st.body):
                        if isinstance(sub, FuncT) and droppable(f"{st.name}.{sub.name}", sub):
                            if refs.get(sub.name, 0) - self_refs(sub) <= 0:
                                st.body.remove(sub)
                    if not st.body:
                        st.body.append(ast.Pass())


def format_to_joined(template: str, args, keywords):
    """the JoinedStr equivalent to ``template.format(*args, **keywords)`` (plain fields only, every argument evaluated once and in order - or all
    arguments are plain names), else None"""
    import string as _string

    def simple(e):
        return isinstance(e, (ast.Name, ast.Constant)) or (isinstance(e, ast.Attribute) and simple(e.value))

    if any(isinstance(a, ast.Starred) for a in args) or any(k.arg is None for k in keywords):
        return None
    # Python < 3.12 cannot spell a backslash inside the expression part of an f-string (ast.unparse refuses): keep the .format() call
    for e in list(args) + [k.value for k in keywords]:
        if any(isinstance(x, ast.Constant) and isinstance(x.value, (str, bytes)) and (b"\\" in x.value if isinstance(x.value, bytes) else "\\" in x.value) for x in ast.walk(e)):
            return None
    try:
        parts = list(_string.Formatter().parse(template))
    except ValueError:
        return None
    kws = {k.arg: k.value for k in keywords}
    values, auto, used = [], 0, []
    for lit, field, spec, conv in parts:
        if lit:
            values.append(ast.Constant(value=lit))
        if field is None:
            continue
        if spec and ("{" in spec):
            return None
        if field == "":
            idx = auto
            auto += 1
            if idx >= len(args):
                return None
            val = args[idx]
            used.append(idx)
        elif field.isdigit():
            if int(field) >= len(args):
                return None
            val = args[int(field)]
            used.append(int(field))
        elif field in kws:
            val = kws[field]
            used.append(field)
        else:
            return None
        values.append(ast.FormattedValue(value=val, conversion={"r": 114, "s": 115, "a": 97}.get(conv, -1),
                                         format_spec=ast.JoinedStr(values=[ast.Constant(value=spec)]) if spec else None))
    args_simple = all(simple(a) for a in args) and all(simple(v) for v in kws.values())
    in_order = used == list(range(len(args))) + list(kws)
    if not (args_simple or in_order):
        return None
    return ast.JoinedStr(values=values)


def dotted_name(e) -> str:
    if isinstance(e, ast.Name):
        return e.id
    if isinstance(e, ast.Attribute):
        b = dotted_name(e.value)
        return f"{b}.{e.attr}" if b else ""
    return ""


def _first_evaluated(expr):
    """sub-expressions of expr that are evaluated unconditionally, innermost first; does not enter lambdas, comprehensions,
    the non-first operands of and/or, or the branches of a conditional expression"""
    out = []

    def go(e):
        if isinstance(e, (ast.Lambda, ast.ListComp, ast.SetComp, ast.DictComp, ast.GeneratorExp)):
            return
        if isinstance(e, ast.BoolOp):
            go(e.values[0])
            return
        if isinstance(e, ast.IfExp):
            go(e.test)
            return
        for ch in ast.iter_child_nodes(e):
            if isinstance(ch, ast.expr):
                go(ch)
            elif isinstance(ch, ast.keyword):
                go(ch.value)
        out.append(e)

    go(expr)
    return out


def _parent_in(root, node):
    for p in ast.walk(root):
        for c in ast.iter_child_nodes(p):
            if c is node:
                return p
    return None


def _replace_node(root, old, new):
    if root is old:
        return new
    for p in ast.walk(root):
        for field, val in ast.iter_fields(p):
            if val is old:
                setattr(p, field, new)
                return root
            if isinstance(val, list):
                for i, x in enumerate(val):
                    if x is old:
                        val[i] = new
                        return root
    return root


def _find_same(copy_root, orig_root, orig_node):
    """the node of copy_root that corresponds to orig_node in orig_root (same position in a parallel walk)"""
    for a, b in zip(ast.walk(orig_root), ast.walk(copy_root)):
        if a is orig_node:
            return b
    raise NotInlinable("node not found in copy")


def normalize_program(trees: dict, is_init: dict) -> dict:
    return ProgramNormalizer(trees, is_init).run()


def normalize(tree: ast.Module, modname: str) -> dict:
    """single-module entry point (kept for callers that have one tree only)"""
    return ProgramNormalizer({modname: tree}, {modname: False}).run()[modname]
