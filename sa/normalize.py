"""Normalising pre-pass: undo shape-only refactorings before the rules look at the code.

The rules of this checker are written against the code's *audited* structure (which function
contains which construct).  Ordinary maintenance changes that structure without changing
behaviour; two such changes are normalised away here, on the parsed tree, before any rule runs:

  N1  module-level constants (``NAME = <literal>`` bound once) are propagated into their uses,
      so ``since >= MAX_SKEW`` reads as ``since >= 600`` again;
  N2  *new* private helpers - functions/methods that did not exist when the rule anchors were
      frozen (sa/known_funcs.json) - are inlined at their call sites inside the same module when
      that is structurally possible (single exit after return-linearisation, no generator, no
      decorator that changes call semantics).  Functions that existed at freeze time are never
      inlined: the rules address them by name.

Inlining is for analysis only (argument expressions may be duplicated); it never changes what
is reported as the property - a mutation hidden inside a newly extracted helper is simply
brought back into view of the rule that audits the caller.
"""
from __future__ import annotations

import ast
import copy
import json
import os
from typing import Optional

HERE = os.path.dirname(os.path.abspath(__file__))
_KNOWN = None


def known_funcs() -> set:
    global _KNOWN
    if _KNOWN is None:
        try:
            with open(os.path.join(HERE, "known_funcs.json")) as fp:
                _KNOWN = set(json.load(fp))
        except FileNotFoundError:
            _KNOWN = set()
    return _KNOWN


FuncT = (ast.FunctionDef, ast.AsyncFunctionDef)


# --------------------------------------------------------------------------
# N1 constants


def _is_literal(v) -> bool:
    if isinstance(v, ast.Constant):
        return True
    if isinstance(v, ast.UnaryOp) and isinstance(v.op, ast.USub) and isinstance(v.operand, ast.Constant):
        return True
    if isinstance(v, (ast.Tuple, ast.List)) and v.elts and all(_is_literal(e) for e in v.elts):
        return True
    return False


def propagate_constants(tree: ast.Module) -> int:
    consts = {}
    counts = {}
    for st in tree.body:
        if isinstance(st, ast.Assign) and len(st.targets) == 1 and isinstance(st.targets[0], ast.Name):
            counts[st.targets[0].id] = counts.get(st.targets[0].id, 0) + 1
            if _is_literal(st.value):
                consts[st.targets[0].id] = st.value
        elif isinstance(st, ast.AnnAssign) and isinstance(st.target, ast.Name) and st.value is not None:
            counts[st.target.id] = counts.get(st.target.id, 0) + 1
            if _is_literal(st.value):
                consts[st.target.id] = st.value
    # names rebound anywhere else (global statements, augmented assignment, for targets at module level) are not constants
    for n in ast.walk(tree):
        if isinstance(n, ast.Global):
            for nm in n.names:
                consts.pop(nm, None)
        if isinstance(n, (ast.AugAssign,)) and isinstance(n.target, ast.Name):
            consts.pop(n.target.id, None)
    consts = {k: v for k, v in consts.items() if counts.get(k) == 1 and k.isupper()}
    if not consts:
        return 0
    # do not propagate into functions that shadow the name
    n_rep = 0

    class T(ast.NodeTransformer):
        def __init__(self):
            self.shadow = [set()]

        def _fn(self, node):
            local = {a.arg for a in node.args.args + node.args.kwonlyargs}
            for s in ast.walk(node):
                if isinstance(s, ast.Name) and isinstance(s.ctx, ast.Store):
                    local.add(s.id)
            self.shadow.append(local)
            self.generic_visit(node)
            self.shadow.pop()
            return node

        visit_FunctionDef = _fn
        visit_AsyncFunctionDef = _fn

        def visit_Name(self, node):
            nonlocal n_rep
            if isinstance(node.ctx, ast.Load) and node.id in consts and not any(node.id in s for s in self.shadow[1:]):
                n_rep += 1
                return ast.copy_location(copy.deepcopy(consts[node.id]), node)
            return node

    T().visit(tree)
    return n_rep


# --------------------------------------------------------------------------
# N2 helper inlining


def _body_wo_doc(fn):
    b = list(fn.body)
    if b and isinstance(b[0], ast.Expr) and isinstance(b[0].value, ast.Constant) and isinstance(b[0].value.value, str):
        b = b[1:]
    return b


def _has_yield(fn) -> bool:
    for n in ast.walk(fn):
        if isinstance(n, (ast.Yield, ast.YieldFrom)):
            f = n
            return True
    return False


def _returns_in(stmts) -> int:
    c = 0
    for s in stmts:
        for n in ast.walk(s):
            if isinstance(n, ast.Return):
                c += 1
            if isinstance(n, FuncT + (ast.Lambda,)) and n is not s:
                pass
    return c


class NotInlinable(Exception):
    pass


def _linearize(stmts: list, target: Optional[str]) -> list:
    """Rewrite ``return e`` into ``<target> = e`` for a statement list whose returns appear only as the last statement of
    (nested) if/else chains at the tail; everything after an ``if c: …return`` is moved into the else branch."""
    out = []
    for i, s in enumerate(stmts):
        rest = stmts[i + 1:]
        if isinstance(s, ast.Return):
            if rest:
                pass  # dead code after return: drop it
            if target is not None:
                val = s.value if s.value is not None else ast.Constant(value=None)
                out.append(ast.copy_location(ast.Assign(targets=[ast.Name(id=target, ctx=ast.Store())], value=val, lineno=s.lineno), s))
            elif s.value is not None and not isinstance(s.value, ast.Constant):
                out.append(ast.copy_location(ast.Expr(value=s.value), s))
            return out
        if isinstance(s, ast.If) and (_returns_in(s.body) or _returns_in(s.orelse)):
            body_ret = _always_returns(s.body)
            else_ret = _always_returns(s.orelse) if s.orelse else False
            new = copy.copy(s)
            if body_ret and not else_ret:
                new.body = _linearize(s.body, target)
                new.orelse = _linearize(list(s.orelse) + rest, target)
            elif else_ret and not body_ret:
                new.orelse = _linearize(s.orelse, target)
                new.body = _linearize(list(s.body) + rest, target)
            elif body_ret and else_ret:
                new.body = _linearize(s.body, target)
                new.orelse = _linearize(s.orelse, target)
            else:
                raise NotInlinable("conditional return that does not end its branch")
            if not new.body:
                new.body = [ast.copy_location(ast.Pass(), s)]
            out.append(new)
            return out
        if isinstance(s, ast.Try) and _returns_in([s]) and not rest_needed(rest):
            new = copy.copy(s)
            new.body = _linearize(s.body, target) if _returns_in(s.body) else list(s.body)
            new.handlers = []
            for h in s.handlers:
                nh = copy.copy(h)
                nh.body = _linearize(h.body, target) if _returns_in(h.body) else list(h.body)
                if not nh.body:
                    nh.body = [ast.copy_location(ast.Pass(), h)]
                new.handlers.append(nh)
            new.orelse = _linearize(s.orelse, target) if s.orelse and _returns_in(s.orelse) else list(s.orelse)
            if _returns_in(s.finalbody):
                raise NotInlinable("return inside finally")
            if not new.body:
                new.body = [ast.copy_location(ast.Pass(), s)]
            # every path through the try ends in a return, or the remainder is empty
            if rest:
                raise NotInlinable("statements after a try that returns")
            if not (_always_returns(s.body) or not _returns_in(s.body)):
                raise NotInlinable("try body returns conditionally")
            out.append(new)
            if target is not None and not _always_returns(s.body) and not all(_always_returns(h.body) for h in s.handlers):
                pass
            return out
        if isinstance(s, (ast.With, ast.AsyncWith)) and _returns_in([s]) and not rest:
            new = copy.copy(s)
            new.body = _linearize(s.body, target)
            if not new.body:
                new.body = [ast.copy_location(ast.Pass(), s)]
            out.append(new)
            return out
        if _returns_in([s]):
            raise NotInlinable("return inside a loop / try / with")
        out.append(s)
    if target is not None:
        # falls off the end: returns None
        out.append(ast.Assign(targets=[ast.Name(id=target, ctx=ast.Store())], value=ast.Constant(value=None), lineno=getattr(stmts[-1], "lineno", 0) if stmts else 0))
    return out


def rest_needed(rest) -> bool:
    return bool(rest)


def _always_returns(stmts) -> bool:
    if not stmts:
        return False
    last = stmts[-1]
    if isinstance(last, (ast.Return, ast.Raise)):
        return isinstance(last, ast.Return) or True
    if isinstance(last, ast.If) and last.orelse:
        return _always_returns(last.body) and _always_returns(last.orelse)
    return False


def _as_expression(fn) -> Optional[ast.AST]:
    """helper whose body is `return e` or an if-chain of returns -> a single expression (IfExp chain)"""
    body = _body_wo_doc(fn)

    def conv(stmts, env):
        if not stmts:
            return None
        s = stmts[0]
        if isinstance(s, ast.Assign) and len(s.targets) == 1 and isinstance(s.targets[0], ast.Name) and len(stmts) > 1:
            nm = s.targets[0].id
            if nm in env:
                return None  # re-bound temporary
            env2 = dict(env)
            env2[nm] = _Subst(env, {}).visit(copy.deepcopy(s.value))
            return conv(stmts[1:], env2)
        if isinstance(s, ast.Return) and s.value is not None:
            return _Subst(env, {}).visit(copy.deepcopy(s.value))
        if isinstance(s, ast.If) and len(s.body) == 1 and isinstance(s.body[0], ast.Return) and s.body[0].value is not None:
            other = conv(list(s.orelse) + stmts[1:], env) if s.orelse else conv(stmts[1:], env)
            if other is None:
                return None
            test = _Subst(env, {}).visit(copy.deepcopy(s.test))
            val = _Subst(env, {}).visit(copy.deepcopy(s.body[0].value))
            return ast.IfExp(test=test, body=val, orelse=other)
        return None

    return conv(body, {})


class _Subst(ast.NodeTransformer):
    def __init__(self, mapping, rename):
        self.mapping = mapping
        self.rename = rename

    def visit_Name(self, node):
        if node.id in self.mapping and isinstance(node.ctx, ast.Load):
            return ast.copy_location(copy.deepcopy(self.mapping[node.id]), node)
        if node.id in self.rename:
            return ast.copy_location(ast.Name(id=self.rename[node.id], ctx=node.ctx), node)
        return node

    def visit_FunctionDef(self, node):
        return node  # do not descend into nested defs

    visit_AsyncFunctionDef = visit_FunctionDef
    visit_Lambda = visit_FunctionDef


def _bind(fn, call: ast.Call, drop_self: bool):
    params = [a.arg for a in fn.args.args]
    if drop_self and params:
        params = params[1:]
    defaults = list(fn.args.defaults)
    dmap = dict(zip(params[len(params) - len(defaults):], defaults)) if defaults else {}
    mapping = {}
    if any(isinstance(a, ast.Starred) for a in call.args) or any(k.arg is None for k in call.keywords):
        raise NotInlinable("star args")
    if len(call.args) > len(params):
        raise NotInlinable("too many args")
    for p, a in zip(params, call.args):
        mapping[p] = a
    for k in call.keywords:
        if k.arg not in params:
            raise NotInlinable("unknown keyword")
        mapping[k.arg] = k.value
    for p in params:
        if p not in mapping:
            if p in dmap:
                mapping[p] = dmap[p]
            else:
                raise NotInlinable("missing argument")
    for ko in fn.args.kwonlyargs:
        raise NotInlinable("kw-only parameters")
    if fn.args.vararg or fn.args.kwarg:
        raise NotInlinable("variadic helper")
    return mapping


_counter = [0]


def _instantiate(fn, call, drop_self, target):
    """statements of fn's body with parameters substituted, locals renamed, returns linearised into `target`"""
    mapping = _bind(fn, call, drop_self)
    body = copy.deepcopy(_body_wo_doc(fn))
    # parameters that are re-bound inside the helper cannot be substituted: bind them with an assignment first
    stores = {n.id for s in body for n in ast.walk(s) if isinstance(n, ast.Name) and isinstance(n.ctx, ast.Store)}
    pre = []
    _counter[0] += 1
    suffix = f"__inl{_counter[0]}"
    rename = {}
    for p in list(mapping):
        if p in stores:
            rename[p] = p + suffix
            pre.append(ast.copy_location(ast.Assign(targets=[ast.Name(id=p + suffix, ctx=ast.Store())], value=copy.deepcopy(mapping[p]), lineno=call.lineno), call))
            del mapping[p]
    for nm in stores:
        if nm not in rename:
            rename[nm] = nm + suffix
    internal = f"__ret{suffix}" if target is not None else None
    body = _linearize(body, internal)
    rename.pop(internal, None)
    sub = _Subst(mapping, rename)
    body = [sub.visit(s) for s in body]
    if target is not None:
        body.append(ast.copy_location(ast.Assign(targets=[ast.Name(id=target, ctx=ast.Store())], value=ast.Name(id=internal, ctx=ast.Load()), lineno=call.lineno), call))
    for s in pre + body:
        ast.fix_missing_locations(s)
    return pre + body


def _callee_of(call: ast.Call, helpers_mod: dict, helpers_cls: dict, cls_name: Optional[str]):
    f = call.func
    if isinstance(f, ast.Name) and f.id in helpers_mod:
        return helpers_mod[f.id], False
    if isinstance(f, ast.Attribute) and isinstance(f.value, ast.Name):
        if f.value.id in ("self", "cls") and cls_name and (cls_name, f.attr) in helpers_cls:
            fn = helpers_cls[(cls_name, f.attr)]
            static = any(isinstance(d, ast.Name) and d.id == "staticmethod" for d in fn.decorator_list)
            return fn, not static
        if (f.value.id, f.attr) in helpers_cls:
            fn = helpers_cls[(f.value.id, f.attr)]
            static = any(isinstance(d, ast.Name) and d.id in ("staticmethod", "classmethod") for d in fn.decorator_list)
            if static:
                return fn, any(isinstance(d, ast.Name) and d.id == "classmethod" for d in fn.decorator_list)
    return None, False


def inline_new_helpers(tree: ast.Module, modname: str) -> int:
    known = known_funcs()
    if not known:
        return 0
    helpers_mod, helpers_cls = {}, {}

    def eligible(fn, qual):
        if f"{modname}:{qual}" in known:
            return False
        if _has_yield(fn):
            return False
        for d in fn.decorator_list:
            if not (isinstance(d, ast.Name) and d.id in ("staticmethod", "classmethod")):
                return False
        if fn.name.startswith("__") and fn.name.endswith("__"):
            return False
        return True

    for st in tree.body:
        if isinstance(st, FuncT) and eligible(st, st.name):
            helpers_mod[st.name] = st
        elif isinstance(st, ast.ClassDef):
            for sub in st.body:
                if isinstance(sub, FuncT) and eligible(sub, f"{st.name}.{sub.name}"):
                    helpers_cls[(st.name, sub.name)] = sub
    if not helpers_mod and not helpers_cls:
        return 0
    n_inl = 0

    def process_function(fn, cls_name):
        nonlocal n_inl

        def rewrite_block(stmts):
            nonlocal n_inl
            out = []
            for s in stmts:
                # recurse into compound statements first
                for field in ("body", "orelse", "finalbody"):
                    sub = getattr(s, field, None)
                    if isinstance(sub, list) and sub and isinstance(sub[0], ast.stmt) and not isinstance(s, FuncT + (ast.ClassDef,)):
                        setattr(s, field, rewrite_block(sub))
                if isinstance(s, ast.Try):
                    for h in s.handlers:
                        h.body = rewrite_block(h.body)
                repl = None
                call, wrap = None, None
                if isinstance(s, ast.Expr):
                    v = s.value
                    call = v.value if isinstance(v, ast.Await) else v
                    wrap = "expr"
                elif isinstance(s, ast.Assign) and len(s.targets) == 1 and isinstance(s.targets[0], ast.Name):
                    v = s.value
                    call = v.value if isinstance(v, ast.Await) else v
                    wrap = "assign"
                elif isinstance(s, ast.Return) and s.value is not None:
                    v = s.value
                    call = v.value if isinstance(v, ast.Await) else v
                    wrap = "return"
                if isinstance(call, ast.Call):
                    callee, drop_self = _callee_of(call, helpers_mod, helpers_cls, cls_name)
                    if callee is not None and callee is not fn:
                        is_async = isinstance(callee, ast.AsyncFunctionDef)
                        awaited = isinstance(s.value, ast.Await)
                        if is_async == awaited:
                            try:
                                if wrap == "expr":
                                    repl = _instantiate(callee, call, drop_self, None)
                                elif wrap == "assign":
                                    repl = _instantiate(callee, call, drop_self, s.targets[0].id)
                                else:
                                    _counter[0] += 1
                                    tmp = f"__ret{_counter[0]}"
                                    repl = _instantiate(callee, call, drop_self, tmp)
                                    repl.append(ast.copy_location(ast.Return(value=ast.Name(id=tmp, ctx=ast.Load())), s))
                            except NotInlinable:
                                repl = None
                if repl is not None:
                    n_inl += 1
                    if not repl:
                        repl = [ast.copy_location(ast.Pass(), s)]
                    out.extend(repl)
                else:
                    out.append(s)
            return out

        fn.body = rewrite_block(fn.body)

        # expression-position calls of expression helpers
        class E(ast.NodeTransformer):
            def visit_Call(self, node):
                nonlocal n_inl
                self.generic_visit(node)
                callee, drop_self = _callee_of(node, helpers_mod, helpers_cls, cls_name)
                if callee is None or callee is fn or isinstance(callee, ast.AsyncFunctionDef):
                    return node
                expr = _as_expression(callee)
                if expr is None:
                    return node
                try:
                    mapping = _bind(callee, node, drop_self)
                except NotInlinable:
                    return node
                n_inl += 1
                new = _Subst(mapping, {}).visit(copy.deepcopy(expr))
                return ast.copy_location(new, node)

            def visit_FunctionDef(self, node):
                return node

            visit_AsyncFunctionDef = visit_FunctionDef

        for i, s in enumerate(fn.body):
            fn.body[i] = E().visit(s)
        ast.fix_missing_locations(fn)

    for _ in range(3):  # helpers calling helpers
        before = n_inl
        for st in tree.body:
            if isinstance(st, FuncT):
                process_function(st, None)
                for sub in ast.walk(st):
                    pass
            elif isinstance(st, ast.ClassDef):
                for sub in st.body:
                    if isinstance(sub, FuncT):
                        process_function(sub, st.name)
        if n_inl == before:
            break
    if n_inl:
        # helpers whose every use was inlined are dead code now: remove them so that whole-module scans do not
        # see their bodies twice (once inlined in the audited caller, once in the orphaned helper)
        def referenced(name, skip):
            for n in ast.walk(tree):
                if n is skip:
                    continue
                if isinstance(n, ast.Name) and n.id == name:
                    return True
                if isinstance(n, ast.Attribute) and n.attr == name:
                    return True
            return False

        for st in list(tree.body):
            if isinstance(st, FuncT) and st.name in helpers_mod:
                body, st.body = st.body, []
                if not referenced(st.name, st):
                    tree.body.remove(st)
                else:
                    st.body = body
            elif isinstance(st, ast.ClassDef):
                for sub in list(st.body):
                    if isinstance(sub, FuncT) and (st.name, sub.name) in helpers_cls:
                        body, sub.body = sub.body, []
                        if not referenced(sub.name, sub):
                            st.body.remove(sub)
                        else:
                            sub.body = body
    return n_inl


def normalize(tree: ast.Module, modname: str) -> dict:
    c = propagate_constants(tree)
    i = inline_new_helpers(tree, modname)
    return {"constants_propagated": c, "helper_calls_inlined": i}
