"""C01 - a REQ is answered only with accepted, matching events; filter contents are pure data.

  C01.model     marks are *derived* from the filter model: ids/authors carry HEX only if `ids_are_hex` is attached and raises for
                any non-hex character; kinds/since/until/limit are int-typed; tag values are checked to be str
  C01.sql       every piece interpolated into SQL text (evaluate_filter / build_query / GC / stats) carries a mark adequate for its
                position: inside '…' -> HEX or quote-doubled; bare -> int or an assembled-safe fragment
  C01.exec      every piece interpolated into generated Python source is a !r / %r conversion or an int from the constant table
  C01.validate  only validated filters reach a subscription; a client-supplied "tags" key never survives model_validate; tag names
                come from two-character '#x' keys
  C01.residual  LMDB: every event returned by execute_one_plan passed the compiled residual on its own primary record
  C01.planner   LMDB: every set filter field is appended to query_items and the plan carries the complete query_items; every
                dispatch branch of compile_match_from_query adds a clause
  C01.cmp       comparator table: since is a lower bound and until an upper bound on created_at in all three matchers
"""
from __future__ import annotations

import ast
import re

from ..cfg import cfg_of
from ..core import (
    AnalysisError,
    clone,
    ancestors,
    call_name,
    dotted,
    enclosing_stmt,
    finding_at,
    finding_func,
    norm,
    own_calls,
    qual_of,
    walk_no_nested,
)
from ..lib import NORMAL, all_calls, func_of, must_pass, stores_of, strip_await, test_edges
from ..selftest import E, M
from ..taint import CONST, FRAG, HEX, INT, RAW, SQD, UNKNOWN, Interp, elem

P = "C01"
HEXCHARS = set("0123456789abcdefABCDEF")


# --------------------------------------------------------------------------
# marks derived from the model


def derive_model_fields(program, ctx, rid, prop=P):
    """attribute -> abstract class for NostrQuery fields, derived from the class body."""
    ci = program.cls("nostr_relay.storage.base:NostrQuery")
    fields = {}
    hex_ok = _ids_are_hex_ok(program, ctx, rid, prop)
    for st in ci.node.body:
        if not isinstance(st, ast.AnnAssign) or not isinstance(st.target, ast.Name):
            continue
        name = st.target.id
        ann = ast.unparse(st.annotation)
        if "AfterValidator(ids_are_hex)" in ann and "list[str]" in ann:
            fields[name] = ("list", HEX if hex_ok else RAW)
            if hex_ok:
                ctx.ok(rid, st, f"{name}: list[str] + AfterValidator(ids_are_hex) -> HEX")
        elif re.fullmatch(r"(typing\.)?Optional\[list\[int\]\]|list\[int\]", ann):
            fields[name] = ("list", INT)
            ctx.ok(rid, st, f"{name}: list[int] -> INT")
        elif re.fullmatch(r"(typing\.)?Optional\[int\]|int", ann):
            fields[name] = INT
            ctx.ok(rid, st, f"{name}: int -> INT")
        elif "tuple[str, set]" in ann:
            fields[name] = ("list", ("tuple", (RAW, ("list", RAW))))
        else:
            fields[name] = RAW if "str" in ann else UNKNOWN
    for need in ("ids", "authors", "kinds", "since", "until", "limit", "tags"):
        if need not in fields:
            raise AnalysisError(f"NostrQuery.{need} not found")
    for need in ("ids", "authors"):
        if elem(fields[need]) != HEX:
            ctx.bad(finding_at(prop, rid, ci.node, f"NostrQuery.{need} is no longer validated to be hex-only: its elements reach SQL text and generated code unmarked", text=need))
    for need in ("kinds", "since", "until", "limit"):
        c = fields[need]
        if (elem(c) if isinstance(c, tuple) else c) != INT:
            ctx.bad(finding_at(prop, rid, ci.node, f"NostrQuery.{need} is no longer int-typed", text=need))
    return fields


LOWERHEX = set("0123456789abcdef")


def _hex_pred(item, lower_only=False):
    def pred(expr, pol):
        # not any(ch not in "<hex>" for ch in item)   /   all(ch in "<hex>" for ch in item)
        if isinstance(expr, ast.Call) and call_name(expr) in ("any", "all") and expr.args and isinstance(expr.args[0], ast.GeneratorExp):
            g = expr.args[0]
            src = g.generators[0].iter
            if not (isinstance(src, ast.Name) and src.id == item):
                return False
            t = g.elt
            if isinstance(t, ast.Compare) and len(t.ops) == 1 and isinstance(t.comparators[0], ast.Constant) and isinstance(t.comparators[0].value, str):
                alphabet = set(t.comparators[0].value)
                if not alphabet or not alphabet <= HEXCHARS:
                    return False
                if lower_only and not alphabet <= LOWERHEX:
                    return False
                if call_name(expr) == "any" and isinstance(t.ops[0], ast.NotIn):
                    return not pol
                if call_name(expr) == "all" and isinstance(t.ops[0], ast.In):
                    return pol
        if isinstance(expr, ast.Call) and call_name(expr).endswith("fullmatch") and expr.args and isinstance(expr.args[0], ast.Constant):
            if lower_only and "A-F" in str(expr.args[0].value):
                return False
            return pol and bool(re.fullmatch(r"\[0-9a-f(A-F)?\]([+*]|\{\d+(,\d*)?\})", str(expr.args[0].value)))
        return False
    return pred


def _ids_are_hex_ok(program, ctx, rid, prop, lower=False) -> bool:
    """the validator returns only items whose every character passed a hex-only alphabet test.
    Two shapes are read: a loop that appends checked items, or a comprehension mapping a per-item function over the ids."""
    fn = program.func("nostr_relay.storage.base:ids_are_hex")
    # shape B: return [g(x) for x in ids]
    rets = [r for r in walk_no_nested(fn) if isinstance(r, ast.Return)]
    for r in rets:
        v = r.value
        if isinstance(v, (ast.ListComp,)) and len(v.generators) == 1 and not v.generators[0].ifs and isinstance(v.elt, ast.Call) and isinstance(v.elt.func, ast.Name):
            g = program.func_opt(f"{fn._module.name}:{v.elt.func.id}")
            tgt = v.generators[0].target
            if g is not None and isinstance(tgt, ast.Name) and len(v.elt.args) == 1 and dotted(v.elt.args[0]) == tgt.id and dotted(v.generators[0].iter) == fn.args.args[0].arg:
                return _per_item_ok(program, ctx, rid, prop, g, g.args.args[0].arg, mode="return", lower=lower)
    loop = next((n for n in walk_no_nested(fn) if isinstance(n, ast.For)), None)
    if loop is None or not isinstance(loop.target, ast.Name):
        ctx.bad(finding_func(prop, rid, fn, "ids_are_hex no longer checks each id", text="def ids_are_hex(...)"))
        return False
    okv = _per_item_ok(program, ctx, rid, prop, fn, loop.target.id, mode="append", lower=lower)
    lists = {c.func.value.id for c in ast.walk(fn) if isinstance(c, ast.Call) and isinstance(c.func, ast.Attribute) and c.func.attr == "append" and isinstance(c.func.value, ast.Name)}
    if not rets or any(not (isinstance(r.value, ast.Name) and r.value.id in lists) for r in rets):
        okv = False
        ctx.bad(finding_func(prop, rid, fn, "ids_are_hex does not return the list of checked ids", text="def ids_are_hex(...) :: return"))
    return okv


def rule_hex_total(program, ctx, prop=P, rid="C01.hextotal"):
    ctx.rule(
        rid,
        "ids_are_hex is all-or-nothing: every iteration over the client's ids/authors ends in the append of the checked id or in a raise (pydantic rejects the filter) - "
        "an id that is skipped silently turns `ids: [<bad>]` into the empty list, which every backend reads as `no constraint`: the filter matches all events",
        floor=1,
    )
    fn = program.func("nostr_relay.storage.base:ids_are_hex")
    cfg = cfg_of(fn)
    loops = [n for n, d in cfg.g.nodes(data=True) if d["kind"] == "loop"]
    if not loops:
        comp = [r for r in walk_no_nested(fn) if isinstance(r, ast.Return) and isinstance(r.value, (ast.ListComp, ast.GeneratorExp, ast.Call))]
        for r in comp:
            for g in [x for x in ast.walk(r.value) if isinstance(x, ast.comprehension)]:
                if g.ifs:
                    ctx.bad(finding_at(prop, rid, r, f"ids are filtered by `if {ast.unparse(g.ifs[0])[:50]}`: rejected ids are dropped silently instead of failing the filter"))
        if comp and not any(f.rule == rid for f in ctx.findings):
            ctx.ok(rid, comp[0], "comprehension over all ids without filter")
        return
    for lp in loops:
        acc = cfg.stmt_nodes(lambda s: any(isinstance(c.func, ast.Attribute) and c.func.attr in ("append", "add") for c in own_calls(s)) or isinstance(s, ast.Raise), kinds=("stmt",))
        body = list(cfg.succ(lp, kinds={"t"}))
        path = cfg.find_path(body, [lp], avoid_nodes=acc, kinds=NORMAL) if body else None
        if path:
            last = next((cfg.ast_of(n) for n in reversed(path[:-1]) if cfg.ast_of(n) is not None), fn)
            ctx.bad(finding_at(prop, rid, last, "an id can be skipped without being accepted or failing the filter: `ids`/`authors` shrinks, down to the empty list = no constraint", path=cfg.describe_path(path)))
        else:
            ctx.ok(rid, cfg.ast_of(lp) or fn, "every iteration appends or raises")


def _per_item_ok(program, ctx, rid, prop, fn, item, mode, lower=False) -> bool:
    cfg = cfg_of(fn)
    # the item may be re-bound only by case folding (the alias keeps the mark)
    items = {item}
    for s in walk_no_nested(fn):
        if isinstance(s, ast.Assign) and isinstance(s.targets[0], ast.Name) and isinstance(s.value, ast.Call) and isinstance(s.value.func, ast.Attribute) \
                and s.value.func.attr in ("lower", "strip") and dotted(s.value.func.value) in items:
            items.add(s.targets[0].id)
    good = True
    for it in items:
        for s in stores_of(fn, it):
            if isinstance(s, ast.Assign) and not (isinstance(s.value, ast.Call) and isinstance(s.value.func, ast.Attribute) and s.value.func.attr in ("lower", "strip") and dotted(s.value.func.value) in items):
                good = False
                ctx.bad(finding_at(prop, rid, s, "the id is transformed after/before the hex check by something other than lower()/strip()"))
    passes = {}
    for it in items:
        for n, e in test_edges(cfg, _hex_pred(it)).items():
            passes.setdefault(n, set()).update(e)
    checked = {it for it in items if test_edges(cfg, _hex_pred(it))}
    if mode == "append":
        accept = cfg.stmt_nodes(lambda s: any(isinstance(c.func, ast.Attribute) and c.func.attr == "append" for c in own_calls(s)), kinds=("stmt",))
        values = {a: next(c for c in own_calls(cfg.ast_of(a)) if isinstance(c.func, ast.Attribute) and c.func.attr == "append").args[0] for a in accept}
    else:
        accept = cfg.stmt_nodes(lambda s: isinstance(s, ast.Return) and s.value is not None, kinds=("stmt",))
        values = {a: cfg.ast_of(a).value for a in accept}
    if not accept:
        ctx.bad(finding_func(prop, rid, fn, "the hex validator accepts nothing / does not collect checked ids", text=f"def {fn.name}(...)"))
        return False
    for a in accept:
        st = cfg.ast_of(a)
        v = values[a]
        if not (isinstance(v, ast.Name) and v.id in checked):
            good = False
            ctx.bad(finding_at(prop, rid, st, "the hex validator hands on something other than the id that was checked (e.g. the client's original spelling)"))
        elif must_pass(cfg, passes, [a]):
            good = False
            ctx.bad(finding_at(prop, rid, st, "an id is accepted without every character having been tested against a hex-only alphabet"))
        elif lower:
            # the id handed on is lower-case: it passed a lower-case-only alphabet test, or it was bound by .lower() on every path
            strict = {}
            for it in items:
                for n, e in test_edges(cfg, _hex_pred(it, lower_only=True)).items():
                    strict.setdefault(n, set()).update(e)
            lowered = cfg.stmt_nodes(lambda s, v=v: isinstance(s, ast.Assign) and isinstance(s.targets[0], ast.Name) and s.targets[0].id == v.id and isinstance(s.value, ast.Call)
                                     and isinstance(s.value.func, ast.Attribute) and s.value.func.attr == "lower" and dotted(s.value.func.value) in items, kinds=("stmt",))
            if must_pass(cfg, strict, [a]) and cfg.find_path([cfg.entry], [a], avoid_nodes=lowered):
                good = False
                ctx.bad(finding_at(prop, rid, st, "an id is accepted in the client's letter case (neither lower()ed nor tested against a lower-case-only alphabet): the live matcher compares "
                                   "ids/authors case-sensitively with the canonical lower-case event fields, the stored query does not - live and stored matching disagree", text="case"))
    if good:
        ctx.ok(rid, fn, f"{fn.name}: every accepted id passed the hex-alphabet test")
    return good


# --------------------------------------------------------------------------
# SQL


def _templates(fn):
    for n in walk_no_nested(fn):
        if isinstance(n, ast.JoinedStr):
            # skip logging arguments
            par = n._parent
            if isinstance(par, ast.Call) and dotted(par.func).split(".")[-1] in ("debug", "info", "warning", "error", "exception"):
                continue
            yield n
        elif isinstance(n, ast.BinOp) and isinstance(n.op, ast.Mod) and isinstance(n.left, ast.Constant) and isinstance(n.left.value, str):
            yield n
        elif isinstance(n, ast.Call) and isinstance(n.func, ast.Attribute) and n.func.attr == "format" and isinstance(n.func.value, ast.Constant):
            yield n


def _report_holes(ctx, prop, rid, interp, what):
    seen = set()
    n_ok = 0
    for h in interp.holes:
        key = (id(h.node), h.position)
        if key in seen:
            continue
        seen.add(key)
        src = ast.unparse(h.node)
        if h.adequate:
            n_ok += 1
            ctx.ok(rid, h.stmt, f"{what} hole `{src}` [{h.position}{', !' + h.conversion if h.conversion else ''}] class {h.cls}: {h.why}")
        else:
            ctx.bad(finding_at(prop, rid, h.stmt, f"client-controlled `{src}` reaches {what} text {('inside a quoted literal' if h.position == 'quoted' else 'bare')} "
                               f"without an adequate sanitiser ({h.why})", text=src))
    return n_ok


def rule_sql(program, ctx, fields, prop=P, rid="C01.sql"):
    ctx.rule(
        rid,
        "taint to sink = SQL text: each hole of each f-string / % / .format fragment in Subscription.evaluate_filter and build_query is "
        "classified by origin (validated filter field) and by syntactic position in the SQL skeleton (inside '…' or bare); adequacy: "
        "quoted -> HEX | quote-doubled | int; bare -> int | assembled-safe fragment; the text handed to sa.text() must be assembled-safe",
        floor=6,
    )
    ef = program.func("nostr_relay.storage.db:Subscription.evaluate_filter")
    params = [a.arg for a in ef.args.args]
    it = Interp(ef, "sql", fields, params={params[1]: "MODEL", params[2]: ("list", CONST)})
    for t in _templates(ef):
        it.cls(t, enclosing_stmt(t))
    _report_holes(ctx, prop, rid, it, "SQL")
    seen_alt = set()
    for call_, st_ in it.alterations:
        if id(call_) in seen_alt:
            continue
        seen_alt.add(id(call_))
        ctx.bad(finding_at(prop, rid, call_, f"a filter value is rewritten by `{ast.unparse(call_)[:60]}` before it is matched: the statement then matches a different value than "
                           "the client asked for (e.g. a value with an embedded NUL matches the value without it; an all-NUL value matches everything)", text="value rewritten"))
    # everything appended to the caller's fragment list must be assembled-safe
    frag_ok = True
    for c in walk_no_nested(ef):
        if isinstance(c, ast.Call) and isinstance(c.func, ast.Attribute) and c.func.attr in ("append", "add") and dotted(c.func.value) == params[2]:
            cl = it.cls(c.args[0], enclosing_stmt(c))
            if cl not in (FRAG, CONST):
                frag_ok = False
                if not any(f.rule == rid and f.line == c.lineno for f in ctx.findings):
                    ctx.bad(finding_at(prop, rid, c, f"a WHERE fragment of class {cl} is appended to the statement"))
    bq = program.func("nostr_relay.storage.db:Subscription.build_query")
    it2 = Interp(bq, "sql", fields, params={bq.args.args[1].arg: ("list", "MODEL")})
    it2.extra_elems["subwhere"] = FRAG if frag_ok else RAW
    for t in _templates(bq):
        it2.cls(t, enclosing_stmt(t))
    _report_holes(ctx, prop, rid, it2, "SQL")
    sinks = 0
    for c in walk_no_nested(bq):
        if isinstance(c, ast.Call) and call_name(c) in ("sa.text", "text") and c.args:
            sinks += 1
            cl = it2.cls(c.args[0], enclosing_stmt(c))
            if cl in (FRAG, CONST):
                ctx.ok(rid, c, f"sa.text({ast.unparse(c.args[0])}) receives an assembled-safe string")
            else:
                ctx.bad(finding_at(prop, rid, c, f"the SQL statement handed to sa.text() is of class {cl}: some piece of it is client-controlled and unmarked"))
    if not sinks:
        raise AnalysisError("build_query no longer ends in sa.text(...)")
    # remaining sa.text sinks of the package: constant text or constant.replace(const, str(int(...)))
    for m, c in all_calls(program):
        if call_name(c) in ("sa.text", "text") and c.args and func_of(c) not in (bq,):
            f = func_of(c)
            if f is None:
                continue
            it3 = Interp(f, "sql", fields)
            cl = it3.cls(c.args[0], enclosing_stmt(c))
            if cl in (FRAG, CONST, INT):
                ctx.ok(rid, c, f"sa.text in {qual_of(c)}: constant / assembled-safe")
            else:
                ctx.bad(finding_at(prop, rid, c, f"sa.text in {qual_of(c)} receives text of class {cl}"))
    # raw string statements executed without sa.text
    for m, c in all_calls(program):
        if call_name(c).endswith(".execute") and c.args and isinstance(c.args[0], (ast.JoinedStr, ast.BinOp)) and m.name.startswith("nostr_relay.storage"):
            ctx.bad(finding_at(prop, rid, c, "a formatted string is executed directly as SQL"))


def rule_exec(program, ctx, prop=P, rid="C01.exec"):
    ctx.rule(
        rid,
        "taint to sink = generated Python: every hole of every clause template in kv.compile_match_from_query and base.compile_filters is "
        "a !r / %r conversion, or an int read from the constant table FIELDS_TO_COLUMNS; the source handed to exec(compile(…)) is assembled-safe",
        floor=4,
    )
    kv = program.module("nostr_relay.storage.kv")
    table_ok = False
    for st in kv.tree.body:
        if isinstance(st, ast.Assign) and any(isinstance(t, ast.Name) and t.id == "FIELDS_TO_COLUMNS" for t in st.targets) and isinstance(st.value, ast.Dict):
            table_ok = all(isinstance(v, ast.Constant) and isinstance(v.value, int) for v in st.value.values)
    gl = {"FIELDS_TO_COLUMNS": ("list", INT if table_ok else UNKNOWN)}
    for q, pname in (("nostr_relay.storage.kv:compile_match_from_query", "query_items"), ("nostr_relay.storage.base:compile_filters", "filter_json")):
        fn = program.func(q)
        it = Interp(fn, "py", {}, params={pname: ("list", ("tuple", (RAW, RAW)))}, globals_cls=gl)
        for t in _templates(fn):
            it.cls(t, enclosing_stmt(t))
        _report_holes(ctx, prop, rid, it, "generated Python")
        sinks = 0
        for c in walk_no_nested(fn):
            if isinstance(c, ast.Call) and call_name(c) in ("exec", "eval", "compile") and c.args:
                a = c.args[0]
                if isinstance(a, ast.Call) and call_name(a) == "compile":
                    continue  # the inner compile() is visited on its own
                sinks += 1
                cl = it.cls(a, enclosing_stmt(c))
                if cl in (FRAG, CONST):
                    ctx.ok(rid, c, f"{call_name(c)}({ast.unparse(a)}) receives assembled-safe source")
                else:
                    ctx.bad(finding_at(prop, rid, c, f"source of class {cl} is compiled/executed: a filter value can become code"))
        if not sinks:
            raise AnalysisError(f"{q}: no exec/compile sink found")
    # no other exec/eval in the package
    for m, c in all_calls(program):
        if call_name(c) in ("exec", "eval") and qual_of(c) not in ("compile_match_from_query", "compile_filters"):
            ctx.bad(finding_at(prop, rid, c, "a new exec/eval sink outside the two known generators"))


# --------------------------------------------------------------------------


def rule_validate(program, ctx, prop=P, rid="C01.validate"):
    ctx.rule(
        rid,
        "BaseStorage.subscribe hands the subscription class only the list filled with NostrQuery.model_validate(raw) results; in "
        "model_validate every path to super().model_validate(obj) overwrote obj['tags'] with the locally built list or popped the key; "
        "tag names are k[1] under len(k) == 2; check_tags raises for non-str values; run_single_query / planner validate raw filters",
        floor=3,
    )
    sub = program.func("nostr_relay.storage.base:BaseStorage.subscribe")
    lists = {}
    for c in walk_no_nested(sub):
        if isinstance(c, ast.Call) and isinstance(c.func, ast.Attribute) and c.func.attr in ("append", "extend", "insert") and isinstance(c.func.value, ast.Name):
            lists.setdefault(c.func.value.id, []).append(c)
    def list_names(name, seen=()):
        """names of the list objects `name` can denote (through `a = b` re-bindings)"""
        if name in seen:
            return set()
        out = set()
        if name in lists:
            out.add(name)
        for st in stores_of(sub, name):
            if isinstance(st, ast.Assign) and isinstance(st.value, ast.Name):
                out |= list_names(st.value.id, seen + (name,))
        return out

    def validated(v) -> bool:
        if isinstance(v, ast.Call) and call_name(v).endswith("NostrQuery.model_validate"):
            return True
        if isinstance(v, ast.Name):
            ds = stores_of(sub, v.id)
            return bool(ds) and all(isinstance(d, ast.Assign) and validated(d.value) for d in ds)
        return False

    for c in walk_no_nested(sub):
        if isinstance(c, ast.Call) and call_name(c).endswith("subscription_class"):
            arg = c.args[2] if len(c.args) > 2 else None
            names = list_names(arg.id) if isinstance(arg, ast.Name) else set()
            if not names:
                ctx.bad(finding_at(prop, rid, c, "the subscription is built from something other than the locally validated filter list"))
                continue
            for nm in names:
                for a in lists[nm]:
                    v = a.args[-1]
                    if a.func.attr == "append" and validated(v):
                        ctx.ok(rid, a, f"{nm}.append(<NostrQuery.model_validate(raw)>)")
                    else:
                        ctx.bad(finding_at(prop, rid, a, "an unvalidated filter object is appended to the list handed to the subscription"))
                for st in stores_of(sub, nm):
                    if not (isinstance(st, ast.Assign) and ((isinstance(st.value, (ast.List,)) and not st.value.elts) or isinstance(st.value, ast.Name))):
                        ctx.bad(finding_at(prop, rid, st, f"`{nm}` is bound to something other than an empty list before validation"))
    mv = program.func("nostr_relay.storage.base:NostrQuery.model_validate")
    cfg = cfg_of(mv)
    obj = mv.args.args[1].arg
    gates = {}
    local_lists = {s.targets[0].id for s in walk_no_nested(mv) if isinstance(s, ast.Assign) and isinstance(s.targets[0], ast.Name)
                   and ((isinstance(s.value, ast.List) and not s.value.elts) or isinstance(s.value, ast.ListComp))}
    for n, d in cfg.g.nodes(data=True):
        s = d["ast"]
        if s is None or d["kind"] != "stmt":
            continue
        if isinstance(s, ast.Assign) and any(isinstance(t, ast.Subscript) and dotted(t.value) == obj and isinstance(t.slice, ast.Constant) and t.slice.value == "tags" for t in s.targets) and isinstance(s.value, ast.Name) and s.value.id in local_lists:
            gates[n] = set(NORMAL)
        for c in own_calls(s):
            if call_name(c) == f"{obj}.pop" and c.args and isinstance(c.args[0], ast.Constant) and c.args[0].value == "tags":
                gates[n] = set(NORMAL)
    targets = []
    for n, d in cfg.g.nodes(data=True):
        s = d["ast"]
        if s is not None and d["kind"] == "stmt":
            for c in own_calls(s):
                if call_name(c).endswith(".model_validate") and "super" in ast.unparse(c.func):
                    if not (c.args and isinstance(c.args[0], ast.Name) and c.args[0].id == obj):
                        ctx.bad(finding_at(prop, rid, s, f"pydantic validation is applied to something other than `{obj}` whose 'tags' key was neutralised"))
                    targets.append(n)
    if not targets:
        ctx.bad(finding_func(prop, rid, mv, "model_validate no longer delegates to pydantic validation", text="def model_validate(...)"))
    for t in targets:
        path = must_pass(cfg, gates, [t])
        if path:
            # Not a violation by itself: since tag names are escaped like values (C01.sql) and repr()'d (C01.exec), a client-supplied
            # 'tags' member can only *add* a condition, i.e. return fewer events. Demanding its removal would be more than the property states.
            ctx.info(rid, cfg.ast_of(t), "a client-supplied 'tags' member can survive into the validated filter (harmless while names are escaped at both sinks)")
        else:
            ctx.ok(rid, cfg.ast_of(t), "obj['tags'] overwritten or removed on every path to pydantic validation")
    # the early `isinstance(obj, cls): return obj` is fine (already validated)
    # tag names
    names_ok = False
    for c in walk_no_nested(mv):
        if isinstance(c, ast.Call) and isinstance(c.func, ast.Attribute) and c.func.attr == "append" and c.args and isinstance(c.args[0], ast.Tuple):
            first = c.args[0].elts[0]
            from ..lib import guard_atoms
            gt = " and ".join(ast.unparse(e) for e, pol in guard_atoms(c, stop=mv) if pol)
            if isinstance(first, ast.Subscript) and isinstance(first.slice, ast.Constant) and first.slice.value == 1 and re.search(r"len\(\w+\) == 2", gt) and "startswith('#')" in gt:
                names_ok = True
                ctx.ok(rid, c, "tag name = k[1] of a two-character '#x' key")
    for lc in walk_no_nested(mv):
        if isinstance(lc, ast.ListComp) and isinstance(lc.elt, ast.Tuple) and len(lc.generators) == 1 and "items()" in ast.unparse(lc.generators[0].iter):
            first = lc.elt.elts[0]
            gt = " and ".join(ast.unparse(i) for i in lc.generators[0].ifs)
            if isinstance(first, ast.Subscript) and isinstance(first.slice, ast.Constant) and first.slice.value == 1 and re.search(r"len\(\w+\) == 2", gt) and "startswith('#')" in gt:
                names_ok = True
                ctx.ok(rid, lc, "tag name = k[1] of a two-character '#x' key (comprehension form)")
    if not names_ok:
        ctx.bad(finding_func(prop, rid, mv, "tag names are no longer taken as k[1] of keys with len(k) == 2 and prefix '#'", text="def model_validate(...) :: tag names"))
    ck = program.func("nostr_relay.storage.base:NostrQuery.check_tags")
    deco = " ".join(ast.unparse(d) for d in ck.decorator_list)
    raises = any(isinstance(r, ast.Raise) for r in ast.walk(ck))
    tests_str = any(isinstance(c, ast.Call) and call_name(c) == "isinstance" and "str" in ast.unparse(c) for c in ast.walk(ck))
    if "field_validator('tags')" in deco and raises and tests_str:
        ctx.ok(rid, ck, "check_tags registered for 'tags', raises for non-str values")
    else:
        ctx.bad(finding_func(prop, rid, ck, "check_tags no longer rejects non-str tag values for field 'tags'", text="def check_tags(...)"))
    rs = program.func("nostr_relay.storage.db:DBStorage.run_single_query")
    if any(isinstance(c, ast.Call) and call_name(c).endswith("NostrQuery.model_validate") for c in ast.walk(rs)):
        ctx.ok(rid, rs, "DBStorage.run_single_query validates every raw filter")
    else:
        ctx.bad(finding_func(prop, rid, rs, "run_single_query builds a subscription from unvalidated filters", text="def run_single_query(...)"))
    pl = program.func("nostr_relay.storage.kv:planner")
    cfgp = cfg_of(pl)

    def isq(expr, pol):
        return isinstance(expr, ast.Call) and call_name(expr) == "isinstance" and "NostrQuery" in ast.unparse(expr) and pol

    passes = test_edges(cfgp, isq)
    for n, d in cfgp.g.nodes(data=True):
        s = d["ast"]
        if s is not None and d["kind"] == "stmt" and isinstance(s, ast.Assign) and isinstance(s.value, ast.Call) and call_name(s.value).endswith("NostrQuery.model_validate"):
            passes[n] = set(NORMAL)
    uses = cfgp.stmt_nodes(lambda s: any(isinstance(c.func, ast.Attribute) and c.func.attr == "append" and dotted(c.func.value) == "query_items" for c in own_calls(s)), kinds=("stmt",))
    if uses and not must_pass(cfgp, passes, uses):
        ctx.ok(rid, pl, "planner reads only NostrQuery instances / model_validate results")
    else:
        ctx.bad(finding_func(prop, rid, pl, "planner can consume a raw (unvalidated) filter object", text="def planner(...) :: validation"))


def rule_residual(program, ctx, prop=P, rid="C01.residual"):
    ctx.rule(
        rid,
        "kv.execute_one_plan appends only what matcher() yields; in matcher every `yield` is reached only through the true edge of "
        "`<compiled predicate>(row)` on the row fetched for that id by get_event_data (primary records under prefix \\x00)",
        floor=3,
    )
    ex = program.func("nostr_relay.storage.kv:execute_one_plan")
    loops = [l for l in walk_no_nested(ex) if isinstance(l, ast.For) and isinstance(l.iter, ast.Call) and call_name(l.iter) == "matcher"]
    appends = [c for c in walk_no_nested(ex) if isinstance(c, ast.Call) and (call_name(c) in ("on_event",) or call_name(c).endswith("events.append"))]
    if not loops:
        ctx.bad(finding_func(prop, rid, ex, "execute_one_plan no longer iterates matcher(...)", text="def execute_one_plan(...)"))
    for c in appends:
        lp = next((a for a in ancestors(c) if a in loops), None)
        if lp is not None and isinstance(lp.target, ast.Name) and c.args and dotted(c.args[0]) == lp.target.id:
            ctx.ok(rid, c, "result list receives only events yielded by matcher()")
        else:
            ctx.bad(finding_at(prop, rid, c, "an event reaches the result list without going through matcher()"))
    for lp in loops:
        if len(lp.iter.args) >= 3 and dotted(lp.iter.args[2]) in ("plan.query",):
            ctx.ok(rid, lp, "matcher(txn, scanner, plan.query, …): the residual is compiled from the plan's full query items")
        else:
            ctx.bad(finding_at(prop, rid, lp, "matcher is not given plan.query as residual"))
    mt = program.func("nostr_relay.storage.kv:matcher")
    cfg = cfg_of(mt)
    pred_names = {s.targets[0].id for s in walk_no_nested(mt) if isinstance(s, ast.Assign) and isinstance(s.value, ast.Call) and call_name(s.value) == "compile_match_from_query" and isinstance(s.targets[0], ast.Name)}
    row_names = {s.targets[0].id for s in walk_no_nested(mt) if isinstance(s, ast.Assign) and isinstance(s.value, ast.Call) and call_name(s.value) == "get_event_data" and isinstance(s.targets[0], ast.Name)}
    for pn in sorted(pred_names):
        for st in stores_of(mt, pn):
            v = st.value if isinstance(st, ast.Assign) else None
            if not (isinstance(v, ast.Call) and call_name(v) == "compile_match_from_query" and v.args and dotted(v.args[0]) == mt.args.args[2].arg):
                ctx.bad(finding_at(prop, rid, st, f"the residual predicate `{pn}` is not always compile_match_from_query(<the plan's query items>): on this path index hits are returned "
                                   "without being re-matched (odd-length hex ids, prefix-overlapping values)"))

    def pred(expr, pol):
        return pol and isinstance(expr, ast.Call) and isinstance(expr.func, ast.Name) and expr.func.id in pred_names and expr.args and isinstance(expr.args[0], ast.Name) and expr.args[0].id in row_names

    passes = test_edges(cfg, pred)
    ys = cfg.stmt_nodes(lambda s: any(isinstance(n, (ast.Yield, ast.YieldFrom)) for n in ast.walk(s) if True) and isinstance(s, ast.Expr), kinds=("stmt",))
    if not ys or not pred_names:
        ctx.bad(finding_func(prop, rid, mt, "matcher no longer compiles the residual / yields events", text="def matcher(...)"))
    for y in ys:
        if must_pass(cfg, passes, [y]):
            ctx.bad(finding_at(prop, rid, cfg.ast_of(y), "an index hit is yielded without the compiled residual predicate having accepted its row: prefix-overlapping "
                               "neighbours of the requested value are returned"))
        else:
            ctx.ok(rid, cfg.ast_of(y), "yield only after match(row) is truthy")
    # the yielded event is decoded from that same row
    for y in ys:
        st = cfg.ast_of(y)
    ge = program.func("nostr_relay.storage.kv:get_event_data")
    from ..lib import bytes_prefix_of

    if bytes_prefix_of(ge) == b"\x00":
        ctx.ok(rid, ge, "get_event_data reads under the primary-record prefix \\x00 only")
    else:
        ctx.bad(finding_func(prop, rid, ge, "get_event_data no longer pins the primary-record prefix: index rows could be decoded as events", text="def get_event_data(...)"))


def rule_planner(program, ctx, prop=P, rid="C01.planner"):
    ctx.rule(
        rid,
        "kv.planner: for each of since/until/ids/kinds/authors a `query_items.append((\"<field>\", …))` sits under that field's presence test, "
        "every tag pair is appended, and QueryPlan receives query_items itself (tuple(query_items)); kv.compile_match_from_query: every "
        "branch of the dispatch adds a clause (no condition is silently ignored)",
        floor=3,
    )
    pl = program.func("nostr_relay.storage.kv:planner")
    have = {}
    for c in walk_no_nested(pl):
        if isinstance(c, ast.Call) and isinstance(c.func, ast.Attribute) and c.func.attr == "append" and dotted(c.func.value) == "query_items" and c.args and isinstance(c.args[0], ast.Tuple):
            k = c.args[0].elts[0]
            have[k.value if isinstance(k, ast.Constant) else ast.unparse(k)] = c
    for f in ("since", "until", "ids", "kinds", "authors"):
        c = have.get(f)
        if c is None:
            ctx.bad(finding_func(prop, rid, pl, f"filter field `{f}` is never added to the residual (query_items): it is enforced by index prefix only", text=f"def planner(...) :: {f}"))
            continue
        guards = [ast.unparse(a.test) for a in ancestors(c) if isinstance(a, ast.If)]
        # the append may be nested under an `if values:` emptiness test; the presence test must be the plain one
        if any(g.replace(" ", "") in (f"query.{f}isnotNone", f"{f}") for g in guards) and not any(" and " in g and f"query.{f}" in g for g in guards):
            ctx.ok(rid, c, f"{f}: appended to query_items under {guards}")
        else:
            ctx.bad(finding_at(prop, rid, c, f"`{f}` reaches the residual only under {guards}: some set values are planned by index but not re-matched"))
    tag_app = [c for k, c in have.items() if k not in ("since", "until", "ids", "kinds", "authors", "search")]
    if tag_app and any(isinstance(a, ast.For) and "query.tags" in ast.unparse(a.iter) for a in ancestors(tag_app[0])):
        guards = [ast.unparse(a.test) for a in ancestors(tag_app[0]) if isinstance(a, ast.If)]
        if all(g in ("query.tags",) for g in guards):
            ctx.ok(rid, tag_app[0], "every (tag, values) pair of query.tags appended to query_items")
        else:
            ctx.bad(finding_at(prop, rid, tag_app[0], f"tag conditions reach the residual only under {guards}"))
    else:
        ctx.bad(finding_func(prop, rid, pl, "tag conditions are never added to the residual (query_items)", text="def planner(...) :: tags"))
    for c in walk_no_nested(pl):
        if isinstance(c, ast.Call) and call_name(c) == "QueryPlan":
            a0 = c.args[0] if c.args else None
            okq = isinstance(a0, ast.Name) and a0.id == "query_items"
            if okq:
                for st in stores_of(pl, "query_items"):
                    v = st.value if isinstance(st, ast.Assign) else None
                    if isinstance(v, ast.List) and not v.elts:
                        continue
                    if isinstance(v, ast.Call) and call_name(v) in ("tuple", "list", "sorted") and len(v.args) == 1 and dotted(v.args[0]) == "query_items":
                        continue
                    okq = False
                    ctx.bad(finding_at(prop, rid, st, "query_items is filtered/re-bound before it becomes the plan's residual"))
            if okq:
                ctx.ok(rid, c, "QueryPlan(query_items, …): the residual is the complete condition list")
            elif not isinstance(a0, ast.Name) or a0.id != "query_items":
                ctx.bad(finding_at(prop, rid, c, "the plan's residual is not the complete query_items"))
    cm = program.func("nostr_relay.storage.kv:compile_match_from_query")
    loop = next((l for l in walk_no_nested(cm) if isinstance(l, ast.For) and dotted(l.iter) == "query_items"), None)
    if loop is None:
        ctx.bad(finding_func(prop, rid, cm, "compile_match_from_query no longer iterates query_items", text="def compile_match_from_query(...)"))
        return

    # every path through one iteration of the dispatch loop adds a clause (path rule on the CFG: the shape of the decision list is free)
    cfg = cfg_of(cm)
    heads = [n for n in cfg.nodes_of(loop) if cfg.kind_of(n) == "loop"]
    addn = cfg.stmt_nodes(lambda st: any(isinstance(c.func, ast.Attribute) and c.func.attr in ("add", "append") and dotted(c.func.value) == "filter_clauses" for c in own_calls(st)), kinds=("stmt",))
    if not addn:
        ctx.bad(finding_at(prop, rid, loop, "the residual compiler adds no clause at all"))
    for h in heads:
        starts = list(cfg.succ(h, {"t"}))
        path = cfg.find_path(starts, [h], avoid_nodes=set(addn), kinds=NORMAL)
        if path:
            where = next((cfg.ast_of(n) for n in path if cfg.ast_of(n) is not None and cfg.kind_of(n) == "test"), loop)
            labels = [norm(cfg.ast_of(n), 40) for n in path if cfg.ast_of(n) is not None][:4]
            ctx.bad(finding_at(prop, rid, where, f"a residual branch adds no clause: a query item can pass through the dispatch without contributing a condition ({' -> '.join(labels)}): that "
                               "condition is silently ignored", text="no clause"))
        else:
            ctx.ok(rid, loop, "every query item adds a clause on every path through the dispatch")
    for st in ast.walk(loop):
        if isinstance(st, ast.Continue):
            ctx.bad(finding_at(prop, rid, st, "a query item is skipped (`continue`) by the residual compiler"))
    # an empty clause set must not compile to a constant-true predicate silently: join of an empty set gives "" -> syntax error (fail closed)
    for st in walk_no_nested(cm):
        if isinstance(st, ast.Assign) and isinstance(st.value, (ast.IfExp, ast.BoolOp)) and "filter_clauses" in ast.unparse(st.value) and "True" in ast.unparse(st.value):
            ctx.bad(finding_at(prop, rid, st, "an empty residual compiles to a constant-true predicate: index hits are returned unchecked"))


OPS = {"since": {">=", ">"}, "until": {"<=", "<"}}


def rule_cmp(program, ctx, prop=P, rid="C01.cmp"):
    ctx.rule(
        rid,
        "comparator table over the three matchers (SQL skeleton, generated LMDB clause, in-memory check_event): `since` bounds created_at "
        "from below (>=, >), `until` from above (<=, <)",
        floor=3,
    )
    ef = program.func("nostr_relay.storage.db:Subscription.evaluate_filter")
    for n in walk_no_nested(ef):
        if isinstance(n, ast.If):
            t = ast.unparse(n.test)
            for f in ("since", "until"):
                if re.fullmatch(rf"\w+\.{f} is not None", t):
                    txt = " ".join(k.value for s in n.body for k in ast.walk(s) if isinstance(k, ast.Constant) and isinstance(k.value, str))
                    m = re.search(r"created_at\s*(>=|<=|<|>|=)", txt)
                    if m and m.group(1) in OPS[f]:
                        ctx.ok(rid, n, f"SQL: {f} -> created_at {m.group(1)}")
                    else:
                        ctx.bad(finding_at(prop, rid, n, f"SQL: `{f}` is compiled to `created_at {m.group(1) if m else '?'}`: the bound points the wrong way", text=f))
    cm = program.func("nostr_relay.storage.kv:compile_match_from_query")
    from ..lib import expand_aliases

    def template_text(stmts):
        """constant text of every clause template (f-string, %-format, .format) in the statements"""
        out = []
        for s_ in stmts:
            for j in ast.walk(s_):
                if isinstance(j, ast.JoinedStr):
                    out.append("".join(str(p_.value) for p_ in j.values if isinstance(p_, ast.Constant)))
                elif isinstance(j, ast.BinOp) and isinstance(j.op, ast.Mod) and isinstance(j.left, ast.Constant) and isinstance(j.left.value, str):
                    out.append(j.left.value)
                elif isinstance(j, ast.Call) and isinstance(j.func, ast.Attribute) and j.func.attr == "format" and isinstance(j.func.value, ast.Constant):
                    out.append(str(j.func.value.value))
        return " ".join(out)

    for n in ast.walk(cm):
        if isinstance(n, ast.If):
            t = ast.unparse(n.test)
            for f in ("since", "until"):
                if f"key == '{f}'" in t:
                    txt = template_text(n.body)
                    m = re.search(r"(>=|<=|<|>|==)", txt)
                    col = any("FIELDS_TO_COLUMNS['created_at']" in ast.unparse(expand_aliases(cm, s_)) for s_ in n.body)
                    if m and m.group(1) in OPS[f] and col:
                        ctx.ok(rid, n, f"LMDB residual: {f} -> created_at {m.group(1)}")
                    else:
                        ctx.bad(finding_at(prop, rid, n, f"LMDB residual: `{f}` is compiled to `{m.group(1) if m else '?'}` on {'created_at' if col else 'another column'}", text=f))
    from ..lib import live_matcher

    ce = live_matcher(program)[0]
    table = {ast.GtE: ">=", ast.Gt: ">", ast.LtE: "<=", ast.Lt: "<"}
    mirror = {">=": "<=", ">": "<", "<=": ">=", "<": ">"}
    seen = set()
    for c in ast.walk(ce):
        if isinstance(c, ast.Compare) and len(c.ops) == 1 and type(c.ops[0]) in table:
            l, r = dotted(c.left), dotted(c.comparators[0])
            op = table[type(c.ops[0])]
            for f in ("since", "until"):
                if l.endswith(".created_at") and r.endswith(f".{f}") or l.endswith("created_at") and r.endswith(f):
                    pass
                if l.endswith("created_at") and r.endswith(f".{f}"):
                    seen.add(f)
                    if op in OPS[f]:
                        ctx.ok(rid, c, f"live: {f} -> created_at {op}")
                    else:
                        ctx.bad(finding_at(prop, rid, c, f"live matcher: `{f}` compared with created_at {op}", text=f))
                elif r.endswith("created_at") and l.endswith(f".{f}"):
                    seen.add(f)
                    if mirror[op] in OPS[f]:
                        ctx.ok(rid, c, f"live: {f} -> created_at {mirror[op]}")
                    else:
                        ctx.bad(finding_at(prop, rid, c, f"live matcher: `{f}` compared with created_at {mirror[op]}", text=f))
    for f in ("since", "until"):
        if f not in seen:
            ctx.bad(finding_func(prop, rid, ce, f"check_event no longer compares created_at with the filter's {f}", text=f"def check_event(...) :: {f}"))


# --------------------------------------------------------------------------
# the tag index is written exactly: name and value unmodified, for every one-character name (shared with C02/C05/C17)


def _atom_ok(e, T, pol=True):
    """guard literal allowed around the indexing of a tag: presence/shape tests of the tag itself"""
    src = ast.unparse(e)
    if not pol and isinstance(e, ast.Compare) and len(e.ops) == 1 and ast.unparse(e.left) == f"len({T})" and isinstance(e.comparators[0], ast.Constant):
        # `not (len(tag) < 2)` is `len(tag) >= 2`
        op, v = e.ops[0], e.comparators[0].value
        return (isinstance(op, ast.Lt) and v == 2) or (isinstance(op, ast.LtE) and v == 1)
    if isinstance(e, ast.BoolOp):
        return all(_atom_ok(v, T) for v in e.values)
    if isinstance(e, ast.UnaryOp) and isinstance(e.op, ast.Not):
        return _atom_ok(e.operand, T)
    if src in (T, f"len({T})", f"{T}[0]"):
        return True
    if isinstance(e, ast.Compare) and len(e.ops) == 1:
        left, op, right = ast.unparse(e.left), e.ops[0], e.comparators[0]
        if left == f"len({T}[0])" and isinstance(op, ast.Eq) and isinstance(right, ast.Constant) and right.value == 1:
            return True
        if left == f"{T}[0]" and isinstance(op, (ast.In, ast.NotIn, ast.Eq, ast.NotEq)) and (
                (isinstance(right, (ast.Tuple, ast.List, ast.Set)) and all(isinstance(x, ast.Constant) and isinstance(x.value, str) for x in right.elts))
                or (isinstance(right, ast.Constant) and isinstance(right.value, str))):
            return True
        if left == f"len({T})" and ((isinstance(op, ast.Gt) and getattr(right, "value", None) == 1) or (isinstance(op, ast.GtE) and getattr(right, "value", None) == 2)):
            return True
    return False


def rule_tagindex(program, ctx, prop=P, rid="C01.tagindex"):
    from ..lib import expand_aliases, guard_atoms

    ctx.rule(
        rid,
        "writer/reader agreement on the tag index: DBStorage.process_tags and TagIndex.convert index (tag[0], tag[1]) unmodified (no slice, case folding or "
        "type filter) for *every* one-character tag name - the only admissible conditions around the indexing statement are shape tests of the tag itself "
        "(len(tag[0]) == 1, tag[0] in (…), len(tag) > 1). The stored-query side compares the full value for equality and accepts any '#x'; the live matcher "
        "matches on the event's own tags: a narrower or lossy index makes stored and live matching disagree and returns events whose tag value differs",
        floor=2,
    )
    sites = [("nostr_relay.storage.db:DBStorage.process_tags", "sql"), ("nostr_relay.storage.kv:TagIndex.convert", "kv")]
    for q, kind in sites:
        fn = program.func(q)
        loops = [l for l in walk_no_nested(fn) if isinstance(l, ast.For) and isinstance(l.target, ast.Name) and ast.unparse(l.iter) in ("event.tags",)]
        found_single = False
        n_sites = 0
        for l in loops:
            T = l.target.id
            # loop-local names for parts of the tag (name = tag[0]; value = tag[1] if … else "") are read through
            local = {}
            for st in ast.walk(l):
                if isinstance(st, ast.Assign) and len(st.targets) == 1 and isinstance(st.targets[0], ast.Name) and st.targets[0].id != T:
                    if sum(1 for x in ast.walk(l) if isinstance(x, ast.Name) and x.id == st.targets[0].id and isinstance(x.ctx, ast.Store)) == 1:
                        local[st.targets[0].id] = st.value

            class _Sub(ast.NodeTransformer):
                def visit_Name(self, node):
                    if isinstance(node.ctx, ast.Load) and node.id in local:
                        return self.visit(clone(local[node.id]))
                    return node

            def rd(e):
                return _Sub().visit(clone(e))

            for n in ast.walk(l):
                pair = None
                if kind == "sql" and isinstance(n, ast.Call) and isinstance(n.func, ast.Attribute) and n.func.attr in ("add", "append") and n.args and isinstance(n.args[0], ast.Tuple) and len(n.args[0].elts) == 2:
                    pair = n.args[0].elts
                if kind == "kv" and isinstance(n, ast.Yield) and isinstance(n.value, ast.Call) and call_name(n.value).endswith("to_key") and n.value.args and isinstance(n.value.args[0], ast.Tuple) and len(n.value.args[0].elts) == 2:
                    pair = n.value.args[0].elts
                if pair is None:
                    continue
                n_sites += 1
                a = ast.unparse(rd(expand_aliases(fn, pair[0])))
                b = ast.unparse(rd(expand_aliases(fn, pair[1])))
                ok_b = {f"{T}[1]", f"{T}[1] if len({T}) > 1 else ''", f"{T}[1] if len({T}) >= 2 else ''"} if kind == "sql" else {f"str({T}[1])", f"{T}[1]"}
                good = True
                if a != f"{T}[0]":
                    good = False
                    ctx.bad(finding_at(prop, rid, n, f"the indexed tag name is `{a}`, not `{T}[0]`"))
                if b not in ok_b:
                    good = False
                    ctx.bad(finding_at(prop, rid, n, f"the indexed tag value is `{b}`, a transformation of `{T}[1]`: an equality query for the stored (shortened / folded) text returns an event "
                                       "whose tag value is a different string, and the full value is no longer found", text="value"))
                atoms = [(rd(e), pol) for e, pol in guard_atoms(n, stop=l)]
                badatoms = [(e, pol) for e, pol in atoms if not _atom_ok(e, T, pol)]
                if badatoms:
                    good = False
                    e, pol = badatoms[0]
                    ctx.bad(finding_at(prop, rid, n, f"indexing of a tag additionally requires `{'' if pol else 'not '}{ast.unparse(e)[:80]}`: tags that queries ('#x' for any single character, "
                                       "the expiration collector) look up get no index entry", text="guard"))
                single = any(ast.unparse(e).replace(" ", "").find(f"len({T}[0])==1") >= 0 and (pol or isinstance(e, ast.BoolOp)) for e, pol in atoms)
                if single and not badatoms:
                    found_single = True
                if good:
                    ctx.ok(rid, n, f"{qual_of(fn)}: indexes ({a}, {b}) under {[('' if pol else 'not ') + ast.unparse(e)[:40] for e, pol in atoms]}")
        if not n_sites:
            ctx.bad(finding_func(prop, rid, fn, f"{qual_of(fn)} no longer indexes (name, value) pairs of event.tags", text=f"def {fn.name}(...) :: pairs"))
        elif not found_single:
            ctx.bad(finding_func(prop, rid, fn, f"{qual_of(fn)}: no indexing statement is reached for every tag whose name has length 1", text=f"def {fn.name}(...) :: single-letter"))


def rule_emptylist(program, ctx, prop=P, rid="C01.emptylist"):
    ctx.rule(
        rid,
        "a present-but-empty ids/authors/kinds list stays a list: the field validators of NostrQuery never map a value to None / drop it (`x or None`, conditional None) - "
        "evaluate_filter and the LMDB planner turn an empty list into 'matches nothing'; as None the condition disappears and the filter matches everything else",
        floor=1,
    )
    ci = program.cls("nostr_relay.storage.base:NostrQuery")
    n = 0
    for name, fn in ci.methods.items():
        decs = [d for d in fn.decorator_list if isinstance(d, ast.Call) and call_name(d) in ("field_validator", "validator")]
        if not decs:
            continue
        fields = {a.value for d in decs for a in d.args if isinstance(a, ast.Constant)}
        if not fields & {"ids", "authors", "kinds"}:
            continue
        for r in walk_no_nested(fn):
            if not isinstance(r, ast.Return) or r.value is None:
                continue
            n += 1
            v = r.value
            nullable = (isinstance(v, ast.Constant) and v.value is None) or (isinstance(v, ast.BoolOp) and isinstance(v.op, ast.Or) and any(isinstance(x, ast.Constant) and not x.value for x in v.values)) \
                or (isinstance(v, ast.IfExp) and any(isinstance(x, ast.Constant) and x.value is None for x in (v.body, v.orelse)))
            if nullable:
                ctx.bad(finding_at(prop, rid, r, f"{name} can return None for a list the client did supply (`{ast.unparse(v)[:60]}`): `{{\"ids\": [], \"kinds\": [1]}}` is answered with every kind-1 event"))
            else:
                ctx.ok(rid, r, f"{name} returns a list for {sorted(fields)}")
    if not n:
        ctx.info(rid, ci.node, "no field validator for ids/authors/kinds")
        ctx.floors[rid] = 0


def rule_modelconfig(program, ctx, prop=P, rid="C01.modelconfig"):
    ctx.rule(
        rid,
        "NostrQuery has no model-wide string transformation (pydantic `str_to_lower` / `str_to_upper` / `str_strip_whitespace` / `str_max_length` in model_config or "
        "a Config class): such an option also rewrites tag *names* and tag values inside `tags`, so `#E` is executed as `#e` and returns events that do not match",
        floor=1,
    )
    ci = program.cls("nostr_relay.storage.base:NostrQuery")
    bad = []
    for st in ci.node.body:
        if isinstance(st, (ast.Assign, ast.AnnAssign)) and any(dotted(t) == "model_config" for t in (st.targets if isinstance(st, ast.Assign) else [st.target])):
            for k in ast.walk(st):
                if isinstance(k, ast.keyword) and k.arg and k.arg.startswith("str_") or (isinstance(k, ast.Constant) and isinstance(k.value, str) and k.value.startswith("str_")):
                    bad.append(st)
        if isinstance(st, ast.ClassDef) and st.name == "Config":
            for a in st.body:
                if isinstance(a, ast.Assign) and any(dotted(t).startswith(("anystr_", "str_")) for t in a.targets):
                    bad.append(a)
    if bad:
        ctx.bad(finding_at(prop, rid, bad[0], "NostrQuery transforms every string of a filter (`" + norm(bad[0], 60) + "`): tag names and tag values are case-folded / stripped too, the filter that is "
                           "executed is not the one the client sent"))
    else:
        ctx.ok(rid, ci.node, "no model-wide string transformation on NostrQuery")


def rule_badfilter(program, ctx, prop=P, rid="C01.badfilter"):
    ctx.rule(
        rid,
        "SQL build_query: a filter whose evaluate_filter raised ValueError (empty / unusable list) contributes `false` - on every path from the ValueError handler to "
        "`where.add(...)` the clauses collected before the raise are discarded (`subwhere` re-bound to an empty list, or the literal 'false' added)",
        floor=1,
    )
    fn = program.func("nostr_relay.storage.db:Subscription.build_query")
    cfg = cfg_of(fn)
    handlers = [h for t in ast.walk(fn) if isinstance(t, ast.Try) for h in t.handlers if h.type is not None and "ValueError" in ast.unparse(h.type)
                and any(isinstance(c, ast.Call) and call_name(c).endswith("evaluate_filter") for s_ in t.body for c in ast.walk(s_))]
    if not handlers:
        ctx.bad(finding_func(prop, rid, fn, "build_query no longer handles the ValueError of an unusable filter", text="def build_query(...) :: ValueError"))
        return
    adds = cfg.stmt_nodes(lambda st: any(isinstance(c.func, ast.Attribute) and c.func.attr in ("add", "append") and dotted(c.func.value) == "where" for c in own_calls(st)), kinds=("stmt",))
    resets = cfg.stmt_nodes(lambda st: isinstance(st, ast.Assign) and any(dotted(t) == "subwhere" for t in st.targets) and ((isinstance(st.value, (ast.List, ast.Tuple)) and not st.value.elts) or (isinstance(st.value, ast.Constant) and st.value.value in ("false", "", None))), kinds=("stmt",))
    false_adds = [a for a in adds if any(isinstance(k, ast.Constant) and k.value == "false" for k in ast.walk(cfg.ast_of(a))) and not any(isinstance(n, ast.Name) and n.id == "subwhere" for n in ast.walk(cfg.ast_of(a)))]
    for h in handlers:
        hn = [n for n in cfg.nodes_of(h)]
        path = cfg.find_path(hn, [a for a in adds if a not in false_adds], avoid_nodes=set(resets) | set(false_adds), kinds=NORMAL)
        if path:
            ctx.bad(finding_at(prop, rid, h, "after evaluate_filter raised ValueError the clauses it had already appended are still joined into the WHERE: the unusable member "
                               "(`authors: []`, `kinds: []`) is ignored instead of making the filter match nothing"))
        else:
            ctx.ok(rid, h, "an unusable filter is reduced to `false`")


def rule_bindnames(program, ctx, prop=P, rid="C01.bindnames"):
    ctx.rule(
        rid,
        "if filter values are handed to the statement as bound parameters, each placeholder name is unique within the statement: build_query must not merge per-filter "
        "parameter dicts with dict.update() (names generated per filter - `tag_{len(params)}` - restart at 0 for every filter, the later filter's value silently replaces "
        "the earlier one's: one filter's tag constraint is evaluated with another filter's value). The audited tree binds nothing (values are escaped literals)",
        floor=0,
    )
    bq = program.func("nostr_relay.storage.db:Subscription.build_query")
    binds = [c for c in ast.walk(bq) if isinstance(c, ast.Call) and isinstance(c.func, ast.Attribute) and c.func.attr == "bindparams"]
    if not binds:
        ctx.ok(rid, bq, "the statement carries no bound parameters")
        return
    for b in binds:
        srcs = {dotted(k.value) for k in b.keywords if k.arg is None}
        merged = [c for c in ast.walk(bq) if isinstance(c, ast.Call) and isinstance(c.func, ast.Attribute) and c.func.attr == "update" and dotted(c.func.value) in srcs
                  and any(isinstance(a, (ast.For, ast.AsyncFor)) for a in ancestors(c))]
        if merged:
            ctx.bad(finding_at(prop, rid, merged[0], f"`{ast.unparse(merged[0])[:50]}` merges the parameters of one filter into the statement's dict inside the loop over the filters: equal "
                               "placeholder names of different filters collide, the last value wins"))
        else:
            ctx.ok(rid, b, "bound parameters are collected in one dict")


def rule_tagclause(program, ctx, prop=P, rid="C01.tagclause"):
    ctx.rule(
        rid,
        "a tag member of a filter always constrains: in db.Subscription.evaluate_filter every iteration of the loop over `filter_obj.tags` either appends a clause to "
        "`subwhere` or raises ValueError (build_query turns that filter into `false`) - a `#t` member whose value list is empty (or holds only empty strings) must not "
        "simply be left out: `{kinds:[1], \"#t\": []}` would return every kind-1 event, none of which satisfies the member (the live matcher says False for all of them)",
        floor=1,
    )
    fn = program.func("nostr_relay.storage.db:Subscription.evaluate_filter")
    cfg = cfg_of(fn)
    loops = [n for n, d in cfg.g.nodes(data=True) if d["kind"] == "loop" and isinstance(d["ast"], ast.For) and "tags" in ast.unparse(d["ast"].iter) and "filter" in ast.unparse(d["ast"].iter)]
    if not loops:
        raise AnalysisError("evaluate_filter: loop over the filter's tags not found")
    done = cfg.stmt_nodes(lambda s: isinstance(s, ast.Raise) or any(isinstance(c.func, ast.Attribute) and c.func.attr in ("append", "add", "extend") and dotted(c.func.value) == "subwhere" for c in own_calls(s)), kinds=("stmt",))
    for lp in loops:
        body = list(cfg.succ(lp, kinds={"t"}))
        inner = {n for n, d in cfg.g.nodes(data=True) if d["kind"] == "loop" and n != lp and any(d["ast"] is x for x in ast.walk(cfg.ast_of(lp)))}
        path = cfg.find_path(body, [lp], avoid_nodes=done, kinds=NORMAL)
        if path:
            last = next((cfg.ast_of(n) for n in reversed(path[:-1]) if cfg.ast_of(n) is not None and n not in inner), fn)
            ctx.bad(finding_at(prop, rid, last, "a tag member whose value list yields no usable value adds no clause and raises nothing: the member is ignored and the filter matches events "
                               "that do not carry the tag at all", path=cfg.describe_path(path)[-4:], text="tag member without clause"))
        else:
            ctx.ok(rid, cfg.ast_of(lp), "every tag member adds a clause or voids the filter")


def rule_allfilters(program, ctx, prop=P, rid="C01.allfilters"):
    ctx.rule(
        rid,
        "internal queries keep all their filters: DBStorage.run_single_query validates every given filter and fails as a whole when one is invalid - a list that silently "
        "loses members can end up empty, and build_query writes no WHERE clause for an empty list: the 'query' returns every stored event (deny lists filled from unrelated "
        "events, purge / cleanup commands acting on the whole table)",
        floor=1,
    )
    fn = program.func("nostr_relay.storage.db:DBStorage.run_single_query")
    calls = [c for c in ast.walk(fn) if isinstance(c, ast.Call) and call_name(c).endswith("model_validate")]
    if not calls:
        ctx.bad(finding_func(prop, rid, fn, "run_single_query no longer validates its filters through NostrQuery.model_validate", text="def run_single_query(...) :: validate"))
    for c in calls:
        comp = next((a for a in ancestors(c) if isinstance(a, (ast.ListComp, ast.GeneratorExp))), None)
        if comp is not None and any(g.ifs for g in comp.generators):
            ctx.bad(finding_at(prop, rid, c, "filters are dropped by a comprehension condition before validation"))
            continue
        sw = [h for a in ancestors(c) if isinstance(a, ast.Try) and any(c is x for s_ in a.body for x in ast.walk(s_)) for h in a.handlers
              if not any(isinstance(x, ast.Raise) for x in ast.walk(h))]
        if sw:
            ctx.bad(finding_at(prop, rid, sw[0], "an invalid filter is skipped and the query runs with the remaining ones: when none remains the statement has no WHERE clause and matches "
                               "every stored event"))
        else:
            ctx.ok(rid, c, "every filter is validated; an invalid one fails the whole query")
    # and the empty list itself must not reach the statement builder as 'no condition'
    bq = program.func("nostr_relay.storage.db:Subscription.build_query")
    ctx.info(rid, bq, "build_query writes no WHERE for an empty filter list (reached only through run_single_query; subscribe refuses an empty list)") if hasattr(ctx, "info") else None


def run(program, ctx):
    from ..lib import rule_awaited

    rule_awaited(program, ctx, P, ANCHORS)
    rid = ctx.rule(
        "C01.model",
        "marks derived from the NostrQuery model: HEX for ids/authors only if AfterValidator(ids_are_hex) is attached and ids_are_hex "
        "returns only items whose every character passed a hex-only alphabet test; INT for int-annotated fields",
        floor=3,
    )
    fields = derive_model_fields(program, ctx, rid)
    rule_sql(program, ctx, fields)
    rule_exec(program, ctx)
    rule_validate(program, ctx)
    rule_residual(program, ctx)
    rule_planner(program, ctx)
    rule_cmp(program, ctx)
    rule_tagindex(program, ctx)
    rule_emptylist(program, ctx)
    rule_modelconfig(program, ctx)
    rule_badfilter(program, ctx)
    rule_hex_total(program, ctx)
    rule_allfilters(program, ctx)
    rule_tagclause(program, ctx)
    rule_bindnames(program, ctx)
    from . import c04, c16

    # the live matcher's authors/delegation clause: has_tag's first result alone says nothing about *which* delegator
    c16.rule_hastag(program, ctx, prop=P, rid="C01.hastag")
    # what is matched is what is sent: the frame serializer must not alter a tag value on its way out
    c04.rule_serializer(program, ctx, c04.canonical_fields(program, ctx, ctx.rule("C01.canonical", "admission proves canonical id/pubkey/sig/created_at (input to C01.serializer)", floor=0)), prop=P, rid="C01.serializer")
    ctx.not_decided += [
        "that the assembled WHERE clause / index scan is semantically NIP-01 matching for all stores (LEFT JOIN, LIKE prefixes, scanner arithmetic)",
        "that only accepted events are in the store (C03/C06)",
    ]


DB = "nostr_relay/storage/db.py"
KV = "nostr_relay/storage/kv.py"
BASE = "nostr_relay/storage/base.py"

MUTANTS = [
    M("c01-bind-names-collide", "nostr_relay/storage/db.py", "        return sa.text(select), new_filters", "        bound = {}\n        for f_ in new_filters:\n            bound.update({})\n        return sa.text(select).bindparams(**bound), new_filters", "C01.bindnames"),
    M("c01-single-query-skips-invalid", "nostr_relay/storage/db.py", "        nostr_queries = [NostrQuery.model_validate(q) for q in query_filters]", "        nostr_queries = [NostrQuery.model_validate(q) for q in query_filters if isinstance(q, dict)]", "C01.allfilters"),
    M("c01-delegation-found-decides", "nostr_relay/storage/base.py", "                if match:\n                    matched.add(True)", "                if has_delegation:\n                    matched.add(True)", "C01.hastag"),
    M("c01-skip-empty-id", "nostr_relay/storage/base.py", "        hexid = hexid.lower()\n", "        hexid = hexid.lower()\n        if not hexid:\n            continue\n", "C01.hextotal"),
    M("c01-tagname-unescaped", DB, "                tagname = tagname.replace(\"'\", \"''\").replace(\":\", \"\\\\:\")\n", "", "C01.sql"),
    M("c01-value-colon-unescaped", DB, "val.replace(\"'\", \"''\").replace(\":\", \"\\\\:\")", "val.replace(\"'\", \"''\")", "C01.sql"),
    M("c01-empty-tag-values-ignored", DB, "                else:\n                    # no usable value: the member matches nothing (like ids/authors/kinds)\n                    raise ValueError(\"tags\")\n", "", "C01.tagclause"),
    M("c01-value-quote-undoubled", DB, "                        val = val.replace(\"'\", \"''\").replace(\":\", \"\\\\:\")\n", "", "C01.sql", canary=True),
    M("c01-value-wrong-replace", DB, "val.replace(\"'\", \"''\")", "val.replace('\"', '\"\"')", "C01.sql"),
    M("c01-kinds-unconverted", DB, "\",\".join(str(k) for k in filter_obj.kinds)", "\",\".join(filter_obj.search or \"\")", "C01.sql"),
    M("c01-hex-alphabet-widened", BASE, "if any(i not in \"abcdef0123456789\" for i in hexid):", "if any(i not in \"abcdef0123456789' \" for i in hexid):", "C01.model"),
    M("c01-hex-check-dropped", BASE, "        if any(i not in \"abcdef0123456789\" for i in hexid):\n            raise ValueError(f\"{hexid} not hex\")\n", "", "C01.model"),
    M("c01-kinds-str", BASE, "    kinds: typing.Optional[list[int]] = None", "    kinds: typing.Optional[list[str]] = None", "C01.model"),
    M("c01-exec-no-repr", KV, "filter_clauses.add(f\"(et[{col}] in {value!r})\")", "filter_clauses.add(f\"(et[{col}] in {value})\")", "C01.exec"),
    M("c01-exec-tag-key-raw", KV, "if t[0] == {key!r} and", "if t[0] == '{key}' and", "C01.exec"),
    M("c01-raw-filter-appended", BASE, "                cleaned_filters.append(NostrQuery.model_validate(raw_query))", "                cleaned_filters.append(raw_query if isinstance(raw_query, NostrQuery) else NostrQuery.model_construct(**raw_query))", "C01.validate"),
    M("c01-yield-before-match", KV, "        if event_tuple and match(event_tuple):", "        if event_tuple:", "C01.residual"),
    M("c01-planner-until-dropped", KV, "        if query.until is not None:\n            query_items.append((\"until\", query.until))\n", "", "C01.planner"),
    M("c01-planner-residual-filtered", KV, "        query_items = tuple(query_items)\n", "        query_items = tuple(i for i in query_items if i[0] in (\"since\", \"until\", \"ids\", \"kinds\", \"authors\"))\n", "C01.planner"),
    M("c01-compile-branch-ignored", KV, "            col = FIELDS_TO_COLUMNS[\"kind\"]\n            filter_clauses.add(f\"(et[{col}] in {value!r})\")", "            continue", "C01.planner"),
    M("c01-since-flipped-sql", DB, "subwhere.append(\"created_at >= %d\" % filter_obj.since)", "subwhere.append(\"created_at <= %d\" % filter_obj.since)", "C01.cmp"),
    M("c01-until-flipped-live", BASE, "matched.add(event.created_at < query.until)", "matched.add(event.created_at > query.until)", "C01.cmp"),
]

EQUIVS = [
    E("c01-eq-kinds-percent", DB, "\"kind IN ({})\".format(\",\".join(str(k) for k in filter_obj.kinds))", "\"kind IN (%s)\" % \",\".join(str(int(k)) for k in filter_obj.kinds)"),
    E("c01-eq-value-inline-replace", DB, "                        val = val.replace(\"'\", \"''\").replace(\":\", \"\\\\:\")\n                        pstr.append(f\"'{val}'\")", "                        quoted = val.replace(\":\", \"\\\\:\").replace(\"'\", \"''\")\n                        pstr.append(\"'\" + quoted + \"'\")"),
]

# functions whose syntactic mutants are used for the thorough tier's sensitivity figure (sa/automut.py)
ANCHORS = [
    "nostr_relay.storage.db:Subscription.evaluate_filter",
    "nostr_relay.storage.db:Subscription.build_query",
    "nostr_relay.storage.kv:compile_match_from_query",
    "nostr_relay.storage.kv:matcher",
    "nostr_relay.storage.kv:planner",
    "nostr_relay.storage.base:NostrQuery.model_validate",
    "nostr_relay.storage.base:ids_are_hex",
    "nostr_relay.storage.base:BaseStorage.subscribe",
]
