"""C20 - cross-worker notification: each id intact, once, not echoed.

  C20.framing     every stream read whose result is used as one id record is readexactly(32); the record width equals the width written
  C20.recipients  the relay loop writes to every registered peer except the origin; the peer table is read after the record arrived and is
                  iterated over a copy when the loop body can suspend
  C20.fanout      the client re-reads the event by the received id and hands it to storage.notify_all_connected - the function the local path uses
  C20.announce    both backends announce after their local fan-out and (SQL) after commit; announcing is a no-op unless the notifier exists,
                  which setup creates iff Config.should_run_notifier
"""
from __future__ import annotations

import ast

from ..cfg import cfg_of
from ..core import (
    AnalysisError,
    ancestors,
    call_name,
    dotted,
    enclosing_stmt,
    finding_at,
    finding_func,
    norm,
    own_calls,
    own_nodes,
    qual_of,
    walk_no_nested,
)
from ..lib import NORMAL, all_calls, concrete_add_events, must_pass, stores_of, strip_await, test_edges
from ..selftest import E, M

P = "C20"
WIDTH = 32


def rule_framing(program, ctx):
    rid = ctx.rule(
        "C20.framing",
        "notifier.py: each `await reader.<read>(n)` whose result is relayed or decoded as an id must be `readexactly(32)` (StreamReader.read(n) "
        "returns *up to* n bytes: a split inside an id de-synchronises all following ids and interleaves fragments of different peers); the "
        "writer side sends event.id_bytes (32 bytes)",
        floor=2,
    )
    m = program.module("nostr_relay.notifier")
    reads = 0
    for c in ast.walk(m.tree):
        if isinstance(c, ast.Call) and isinstance(c.func, ast.Attribute) and dotted(c.func.value) == "reader" and c.func.attr in ("read", "readexactly", "readline", "readuntil"):
            reads += 1
            n = c.args[0].value if c.args and isinstance(c.args[0], ast.Constant) else None
            if c.func.attr == "readexactly" and n == WIDTH:
                ctx.ok(rid, c, f"{qual_of(c)}: readexactly({WIDTH})")
            elif c.func.attr == "readexactly":
                ctx.bad(finding_at(P, rid, c, f"{qual_of(c)}: record width {n} differs from the {WIDTH}-byte ids that are written"))
            else:
                ctx.bad(finding_at(P, rid, c, f"{qual_of(c)}: `reader.{c.func.attr}({n})` is used as a record read: it may return a fragment of an id; the fragment is relayed/decoded as an id "
                                   "and every following id is shifted"))
    if reads < 2:
        ctx.bad(finding_func(P, rid, program.func("nostr_relay.notifier:NotifyClient.connect"), "server or client no longer reads from the stream", text="reads"))
    nt = program.func("nostr_relay.notifier:NotifyClient.notify")
    w = [c for c in ast.walk(nt) if isinstance(c, ast.Call) and call_name(c).endswith("writer.write")]
    if w and ast.unparse(w[0].args[0]) == "event.id_bytes":
        ctx.ok(rid, w[0], "client writes event.id_bytes (32 bytes)")
    else:
        ctx.bad(finding_func(P, rid, nt, "the client no longer announces event.id_bytes", text="def notify(...)"))
    # EOF handling for readexactly
    for q in ("nostr_relay.notifier:NotifyServer.handle_notify", "nostr_relay.notifier:NotifyClient.connect"):
        fn = program.func(q)
        uses_exact = any(isinstance(c, ast.Call) and isinstance(c.func, ast.Attribute) and c.func.attr == "readexactly" for c in ast.walk(fn))
        if uses_exact:
            handled = any(isinstance(h, ast.ExceptHandler) and (h.type is None or "IncompleteReadError" in ast.unparse(h.type) or "EOFError" in ast.unparse(h.type) or ast.unparse(h.type) in ("Exception", "BaseException")) for h in ast.walk(fn))
            if handled:
                ctx.ok(rid, fn, f"{fn.name}: end of stream (IncompleteReadError) ends the loop")
            else:
                ctx.bad(finding_func(P, rid, fn, "IncompleteReadError at end of stream is not handled", text=f"def {fn.name}(...) :: eof"))


def rule_recipients(program, ctx):
    rid = ctx.rule(
        "C20.recipients",
        "NotifyServer.handle_notify: inside the iteration over the peer table each write is guarded by `peer != writer` (no echo to the origin); "
        "no await separates reading the peer table from the end of the stream read (recipients are those connected when the id arrived); when "
        "the loop body awaits, the table is iterated through list()/tuple() (a peer connecting meanwhile must not raise RuntimeError and kill the relay loop)",
        floor=1,
    )
    fn = program.func("nostr_relay.notifier:NotifyServer.handle_notify")
    cfg = cfg_of(fn)
    loops = [l for l in walk_no_nested(fn) if isinstance(l, ast.For) and "self.connections" in ast.unparse(l.iter)]
    # recipients taken from a variable?
    alias_loops = []
    for l in walk_no_nested(fn):
        if isinstance(l, ast.For) and isinstance(l.iter, ast.Name):
            for d in stores_of(fn, l.iter.id):
                if isinstance(d, ast.Assign) and "self.connections" in ast.unparse(d.value):
                    alias_loops.append((l, d))
    if not loops and not alias_loops:
        ctx.bad(finding_func(P, rid, fn, "the relay loop no longer iterates the peer table", text="def handle_notify(...) :: peers"))
        return
    reads = cfg.stmt_nodes(lambda s: any(isinstance(c, ast.Call) and isinstance(c.func, ast.Attribute) and dotted(c.func.value) == "reader" for c in own_nodes(s)))
    for l, d in alias_loops:
        # the snapshot statement must come after the read in the same iteration
        dn = cfg.nodes_of(d)
        after_d = cfg.reach([x for n in dn for x in cfg.succ(n, kinds=NORMAL)], kinds=NORMAL)
        ln = cfg.nodes_of(l)
        # is there a path d -> read -> loop ?
        stale = False
        for r in reads:
            if r in after_d and set(ln) & cfg.reach(list(cfg.succ(r, kinds=NORMAL)), avoid_nodes=dn, kinds=NORMAL):
                stale = True
        if stale:
            ctx.bad(finding_at(P, rid, d, "the recipient list is taken before the next id is read: a worker that connected while this sender was idle does not get the id, one that left still does"))
        else:
            ctx.ok(rid, d, "recipient snapshot taken after the id arrived")
        loops.append(l)
    for l in loops:
        body_awaits = any(isinstance(n, ast.Await) for s in l.body for n in ast.walk(s))
        it = l.iter
        copied = isinstance(it, ast.Call) and call_name(it) in ("list", "tuple", "set", "frozenset", "sorted") or isinstance(it, (ast.Name, ast.ListComp, ast.SetComp))
        if body_awaits and not copied:
            ctx.bad(finding_at(P, rid, l, "the live peer table is iterated while the loop body awaits (drain): a worker connecting or leaving during the suspension raises RuntimeError, "
                               "the bare except ends this sender's relay loop and its later ids reach nobody"))
        else:
            ctx.ok(rid, l, "peer table iterated over a copy / without suspension")
        tgt = l.target.id if isinstance(l.target, ast.Name) else None
        peers = {tgt} | {s_.targets[0].id for s_ in ast.walk(l) if isinstance(s_, ast.Assign) and isinstance(s_.targets[0], ast.Name) and dotted(s_.value) == tgt}
        writes = [c for s in l.body for c in ast.walk(s) if isinstance(c, ast.Call) and isinstance(c.func, ast.Attribute) and c.func.attr == "write" and dotted(c.func.value) in peers]
        if not writes:
            ctx.bad(finding_at(P, rid, l, "the relay loop writes to nobody"))
        for w in writes:
            def notself(expr, pol, tgt=tgt, peers=peers):
                if isinstance(expr, ast.Compare) and len(expr.ops) == 1 and "writer" in {dotted(expr.left), dotted(expr.comparators[0])} and ({dotted(expr.left), dotted(expr.comparators[0])} - {"writer"}) <= peers:
                    return (isinstance(expr.ops[0], (ast.NotEq, ast.IsNot)) and pol) or (isinstance(expr.ops[0], (ast.Eq, ast.Is)) and not pol)
                return False

            comp_guard = False
            comp_sources = [d2.value for l2, d2 in alias_loops if l2 is l] + [l.iter]
            for cv in comp_sources:
                if isinstance(cv, (ast.ListComp, ast.GeneratorExp, ast.SetComp)):
                    class _D:  # same shape as an alias binding
                        value = cv
                    d2 = _D
                    g = d2.value.generators[0]
                    gv = g.target.id if isinstance(g.target, ast.Name) else None
                    comp_guard = any(isinstance(c, ast.Compare) and isinstance(c.ops[0], (ast.NotEq, ast.IsNot)) and {dotted(c.left), dotted(c.comparators[0])} == {gv, "writer"} for i in g.ifs for c in ast.walk(i)) and dotted(d2.value.elt) == gv
            wn = cfg.nodes_of(enclosing_stmt(w))
            if comp_guard or (test_edges(cfg, notself) and not must_pass(cfg, test_edges(cfg, notself), wn)):
                ctx.ok(rid, w, "peer.write(data) only if peer != writer")
            else:
                ctx.bad(finding_at(P, rid, w, "ids are echoed back to the worker that announced them (no `peer != writer` guard)"))
            rec = {s_.targets[0].id for s_ in walk_no_nested(fn) if isinstance(s_, ast.Assign) and isinstance(s_.targets[0], ast.Name) and "reader.read" in ast.unparse(s_.value)}
            if w.args and dotted(w.args[0]) not in rec:
                ctx.bad(finding_at(P, rid, w, "something other than the record just read is relayed"))
    # registration / deregistration
    reg = [s for s in walk_no_nested(fn) if isinstance(s, ast.Assign) and any(isinstance(t, ast.Subscript) and dotted(t.value) == "self.connections" for t in s.targets)]
    dereg = [s for s in walk_no_nested(fn) if isinstance(s, ast.Delete) and "self.connections" in ast.unparse(s)]
    if reg and dereg:
        ctx.ok(rid, reg[0], "peer registered on connect, removed when its loop ends")
    else:
        ctx.bad(finding_func(P, rid, fn, "peers are not registered/removed around the relay loop", text="def handle_notify(...) :: registration"))


def rule_fanout(program, ctx):
    rid = ctx.rule(
        "C20.fanout",
        "NotifyClient.connect: event = await self.storage.get_event(<record>.hex()); if event: await self.storage.notify_all_connected(event) - the very "
        "function the local admission path calls; nothing else is done with the id",
        floor=1,
    )
    fn = program.func("nostr_relay.notifier:NotifyClient.connect")
    ge = [s for s in walk_no_nested(fn) if isinstance(s, ast.Assign) and isinstance(strip_await(s.value), ast.Call) and call_name(strip_await(s.value)) == "self.storage.get_event"]
    rec = {s_.targets[0].id for s_ in walk_no_nested(fn) if isinstance(s_, ast.Assign) and isinstance(s_.targets[0], ast.Name) and "reader.read" in ast.unparse(s_.value)}
    arg0 = strip_await(ge[0].value).args[0] if ge and strip_await(ge[0].value).args else None
    if isinstance(arg0, ast.Name):
        # a local that holds `<record>.hex()` (bound once)
        b = [s_ for s_ in stores_of(fn, arg0.id) if isinstance(s_, ast.Assign)]
        if len(b) == 1:
            arg0 = b[0].value
    if arg0 is not None and isinstance(arg0, ast.Call) and isinstance(arg0.func, ast.Attribute) and arg0.func.attr == "hex" and not arg0.args and dotted(arg0.func.value) in rec:
        ctx.ok(rid, ge[0], "event = await storage.get_event(<record>.hex())")
    else:
        ctx.bad(finding_func(P, rid, fn, "the received id is not resolved through storage.get_event(data.hex())", text="def connect(...) :: get_event"))
    na = [c for c in ast.walk(fn) if isinstance(c, ast.Call) and call_name(c) == "self.storage.notify_all_connected"]
    if na and ge and dotted(na[0].args[0]) == ge[0].targets[0].id and isinstance(na[0]._parent, ast.Await):
        ctx.ok(rid, na[0], "await storage.notify_all_connected(event)")
    else:
        ctx.bad(finding_func(P, rid, fn, "the loaded event is not handed to storage.notify_all_connected (the local fan-out)", text="def connect(...) :: fan-out"))
    if any(isinstance(c, ast.Call) and call_name(c).endswith(("add_event", "notify_other_processes", ".notify")) for c in ast.walk(fn)):
        ctx.bad(finding_func(P, rid, fn, "the client re-announces or re-admits a received id (echo / loop between workers)", text="def connect(...) :: echo"))


def rule_announce(program, ctx):
    rid = ctx.rule(
        "C20.announce",
        "each add_event closure calls notify_other_processes(event) after notify_all_connected(event), and on SQL outside the transaction region "
        "(a peer looks the id up immediately: before commit it finds nothing and drops the id); BaseStorage.notify_other_processes sends iff "
        "self.notifier; setup() creates the NotifyClient iff Config.should_run_notifier",
        floor=2,
    )
    sites = [program.func("nostr_relay.storage.db:DBStorage.add_event"), program.func("nostr_relay.storage.kv:LMDBStorage.post_save")]
    for fn in sites:
        cfg = cfg_of(fn)
        ann = cfg.stmt_nodes(lambda s: any(call_name(c) == "self.notify_other_processes" for c in own_calls(s)), kinds=("stmt",))
        loc = {n: set(NORMAL) for n in cfg.stmt_nodes(lambda s: any(call_name(c) == "self.notify_all_connected" for c in own_calls(s)), kinds=("stmt",))}
        if not ann:
            ctx.bad(finding_func(P, rid, fn, f"{qual_fn(fn)} never announces accepted events to the other workers", text=f"def {fn.name}(...) :: announce"))
            continue
        for a in ann:
            st = cfg.ast_of(a)
            in_txn = any(isinstance(x, (ast.With, ast.AsyncWith)) and any("begin" in dotted(i.context_expr) for i in x.items) for x in ancestors(st))
            if in_txn:
                ctx.bad(finding_at(P, rid, st, "the id is announced from inside the transaction: the receiving worker's lookup can run before the commit and silently drop the id"))
            elif must_pass(cfg, loc, [a]):
                ctx.bad(finding_at(P, rid, st, "the announcement does not follow the local fan-out"))
            else:
                c = next(c for c in own_calls(st) if call_name(c) == "self.notify_other_processes")
                if c.args and dotted(c.args[0]) == "event":
                    ctx.ok(rid, st, f"{qual_fn(fn)}: announce after local fan-out{', after commit' if 'db' in fn._module.name else ''}")
                else:
                    ctx.bad(finding_at(P, rid, st, "something other than the accepted event is announced"))
    # announce call sites elsewhere (e.g. moved into the transaction's closure)
    for m, c in all_calls(program):
        if call_name(c).endswith(".notify_other_processes") and qual_of(c) not in ("DBStorage.add_event", "LMDBStorage.post_save"):
            ctx.bad(finding_at(P, rid, c, f"{qual_of(c)} announces to other workers outside the audited sites (SQL: post_save/process_tags run inside the transaction, before commit)"))
    np_ = program.func("nostr_relay.storage.base:BaseStorage.notify_other_processes")
    cfgn = cfg_of(np_)
    sends = cfgn.stmt_nodes(lambda s: any(call_name(c) == "self.notifier.notify" for c in own_calls(s)), kinds=("stmt",))
    has = test_edges(cfgn, lambda e, p: p and dotted(e) == "self.notifier")
    hasnot = test_edges(cfgn, lambda e, p: (not p) and dotted(e) == "self.notifier")
    # sent only when a notifier exists, and always when it exists (the send is not reachable only through the 'no notifier' edge and every
    # normal exit on the 'notifier exists' side passed the send)
    if sends and has and not must_pass(cfgn, has, sends) and must_pass(cfgn, hasnot, sends) and not cfgn.find_path([cfgn.entry], [cfgn.exit], avoid_nodes=set(sends), kinds=NORMAL, avoid_edge_kinds=hasnot):
        ctx.ok(rid, cfgn.ast_of(sends[0]), "notify_other_processes: sends iff self.notifier")
    else:
        ctx.bad(finding_func(P, rid, np_, "notify_other_processes no longer sends through self.notifier when it exists", text="def notify_other_processes(...)"))
    su = program.func("nostr_relay.storage.base:BaseStorage.setup")
    cfgs = cfg_of(su)
    passes = test_edges(cfgs, lambda e, p: p and dotted(e) == "Config.should_run_notifier")
    mk = cfgs.stmt_nodes(lambda s: any(call_name(c) == "NotifyClient" for c in own_calls(s)), kinds=("stmt",))
    st = cfgs.stmt_nodes(lambda s: any(call_name(c) == "self.notifier.start" for c in own_calls(s)), kinds=("stmt",))
    if mk and st and not must_pass(cfgs, passes, mk + st):
        # and when the flag is set the client *is* created: the true edge leads to the creation on every path
        ctx.ok(rid, cfgs.ast_of(mk[0]), "setup: NotifyClient created and started iff Config.should_run_notifier")
    else:
        ctx.bad(finding_func(P, rid, su, "setup no longer creates and starts the notifier client exactly when Config.should_run_notifier", text="def setup(...) :: notifier"))


def qual_fn(fn):
    return qual_of(fn)


def rule_hub(program, ctx, prop=P, rid="C20.hub"):
    ctx.rule(
        rid,
        "one hub: the worker that becomes the notification hub is elected by the exclusive bind of the TCP port (every later asyncio.start_server fails with OSError, "
        "'could not start'); the call therefore carries no reuse_port / reuse_address / sock option - with SO_REUSEPORT every process binds, the kernel spreads the "
        "clients over several hubs and an id reaches only the workers on the same hub",
        floor=1,
    )
    fn = program.func("nostr_relay.notifier:NotifyServer.run")
    calls = [c for c in ast.walk(fn) if isinstance(c, ast.Call) and call_name(c).endswith("start_server")]
    if not calls:
        ctx.bad(finding_func(prop, rid, fn, "NotifyServer.run no longer starts the TCP server", text="def run(...) :: start_server"))
    for c in ast.walk(fn):
        if isinstance(c, ast.Call) and call_name(c).split(".")[-1] in ("start_unix_server", "create_unix_server"):
            ctx.bad(finding_at(prop, rid, c, "the hub can listen on a unix socket: handle_notify keys its peer table by `peername`, which is '' for every unix-socket client - all workers "
                               "collapse into one entry (only the last one receives ids), and start_unix_server unlinks an existing socket, so a second hub displaces the first"))
    for c in calls:
        share = [k.arg for k in c.keywords if k.arg in ("reuse_port", "reuse_address", "sock") and not (isinstance(k.value, ast.Constant) and k.value.value in (False, None))] + (["**"] if any(k.arg is None for k in c.keywords) else [])
        tr = next((a for a in ancestors(c) if isinstance(a, ast.Try)), None)
        caught = tr is not None and any(h.type is not None and "OSError" in ast.unparse(h.type) for h in tr.handlers)
        if share:
            ctx.bad(finding_at(prop, rid, c, f"start_server(..., {share[0]}=…): the port can be bound by several processes at once - several hubs, each serving a subset of the workers"))
        elif not caught:
            ctx.bad(finding_at(prop, rid, c, "a failed bind (another worker already is the hub) is not handled as `except OSError`: the worker's start-up task fails instead of joining as a client only"))
        else:
            ctx.ok(rid, c, "exclusive bind, OSError = another worker is the hub")


def rule_flag(program, ctx, prop=P, rid="C20.flag"):
    ctx.rule(
        rid,
        "the multi-worker switch is visible in the process that starts the notifier: purple workers are *spawned* and re-load the configuration, so `run_notifier = True` "
        "for workers > 1 is set in purple.worker_process after Config.load (a store in the parent's serve() never reaches them); Config.should_run_notifier dereferences "
        "only the `gunicorn` section (always present) - a `.get` on an optional section raises AttributeError inside the property, which ConfigClass.__getattr__ turns "
        "into a silent None (= notifier off, even with run_notifier: true)",
        floor=2,
    )
    wp = program.func_opt("nostr_relay.purple:worker_process")
    if wp is not None:
        cfgw = cfg_of(wp)
        loads = cfgw.stmt_nodes(lambda s: any(call_name(c) == "Config.load" for c in own_calls(s)), kinds=("stmt",))
        sets = cfgw.stmt_nodes(lambda s: isinstance(s, ast.Assign) and any(dotted(t) == "Config.run_notifier" for t in s.targets), kinds=("stmt",))
        runs = cfgw.stmt_nodes(lambda s: any(call_name(c) in ("asyncio.run", "main") for c in own_calls(s)), kinds=("stmt",))
        if sets and loads and runs and not cfgw.find_path(sets, loads, kinds=NORMAL):
            ctx.ok(rid, cfgw.ast_of(sets[0]), "purple worker: run_notifier set after Config.load, before the worker's main()")
        else:
            ctx.bad(finding_func(prop, rid, wp, "purple.worker_process no longer switches the notifier on for workers > 1 in the worker's own (spawned) process: with several purple "
                                 "workers no NotifyClient/NotifyServer is started and events accepted by one worker never reach the others", text="def worker_process(...) :: run_notifier"))
    cc = program.cls("nostr_relay.config:ConfigClass")
    sp = cc.methods.get("should_run_notifier")
    if sp is None:
        ctx.bad(finding_at(prop, rid, cc.node, "ConfigClass.should_run_notifier is gone"))
    else:
        deref = [a for a in ast.walk(sp) if isinstance(a, ast.Attribute) and isinstance(a.value, ast.Attribute) and dotted(a.value.value) == "self"]
        sections = {a.value.attr for a in deref}
        optional = sections - {"gunicorn", "__dict__"}
        if optional and "__getattr__" in cc.methods:
            ctx.bad(finding_at(prop, rid, sp, f"should_run_notifier dereferences the optional section(s) {sorted(optional)}: when absent the AttributeError inside the property is swallowed by "
                               "ConfigClass.__getattr__ and the property reads as None - the notifier is never started"))
        elif "run_notifier" in ast.unparse(sp) and "workers" in ast.unparse(sp):
            ctx.ok(rid, sp, "should_run_notifier = gunicorn workers > 1 or run_notifier")
        else:
            ctx.bad(finding_at(prop, rid, sp, "should_run_notifier no longer combines the worker count with run_notifier"))


def rule_written_once(program, ctx, prop=P, rid="C20.once"):
    ctx.rule(
        rid,
        "an id is announced once: NotifyClient.notify writes `event.id_bytes` to the hub exactly once per call - the write is not inside a loop / retry and its drain is not "
        "cut by wait_for/timeout (a timed-out drain() does not undo the write(): the retry queues the same 32 bytes again and every other worker fans the event out twice)",
        floor=1,
    )
    fn = program.func("nostr_relay.notifier:NotifyClient.notify")
    writes = [c for c in walk_no_nested(fn) if isinstance(c, ast.Call) and isinstance(c.func, ast.Attribute) and c.func.attr == "write"]
    if len(writes) != 1:
        ctx.bad(finding_func(prop, rid, fn, f"NotifyClient.notify has {len(writes)} writes to the hub (expected exactly one)", text="def notify(...) :: writes"))
    for c in writes:
        if any(isinstance(a, (ast.For, ast.While, ast.AsyncFor)) for a in ancestors(c) if any(a is y for y in ast.walk(fn))):
            ctx.bad(finding_at(prop, rid, c, "the id is written inside a loop: a retry after a slow drain() sends the same id again - peers fan the event out more than once"))
        elif not (c.args and ast.unparse(c.args[0]).endswith("id_bytes")):
            ctx.bad(finding_at(prop, rid, c, f"the announcement writes `{ast.unparse(c.args[0])[:40] if c.args else ''}`, not the event's 32 id bytes"))
        else:
            ctx.ok(rid, c, "one write of event.id_bytes per call")
    for c in walk_no_nested(fn):
        if isinstance(c, ast.Call) and call_name(c).split(".")[-1] in ("wait_for", "timeout") and "drain" in ast.unparse(c):
            ctx.bad(finding_at(prop, rid, c, "drain() is cut by a timeout: the bytes already handed to the transport are sent anyway"))


def rule_unregister(program, ctx, prop=P, rid="C20.unregister"):
    ctx.rule(
        rid,
        "a peer that went away leaves the hub's table: in NotifyServer.handle_notify every way out of the function after `self.connections[addr] = writer` - normal, or an "
        "exception / cancellation raised by an await - passes `del self.connections[addr]`; a dead writer left in the table makes every later broadcast raise at its "
        "drain() before the remaining peers are written (their ids are lost). Awaits between the relay loop and the removal (`await writer.wait_closed()` re-raises the "
        "connection's own error) are such a way out",
        floor=1,
    )
    fn = program.func("nostr_relay.notifier:NotifyServer.handle_notify")
    cfg = cfg_of(fn)
    reg = cfg.stmt_nodes(lambda s: isinstance(s, ast.Assign) and any(isinstance(t, ast.Subscript) and dotted(t.value) == "self.connections" for t in s.targets), kinds=("stmt",))
    rem = cfg.stmt_nodes(lambda s: (isinstance(s, ast.Delete) and any(isinstance(t, ast.Subscript) and dotted(t.value) == "self.connections" for t in s.targets))
                         or any(isinstance(c.func, ast.Attribute) and c.func.attr in ("pop", "discard", "remove") and dotted(c.func.value) == "self.connections" for c in own_calls(s)), kinds=("stmt",))
    if not reg or not rem:
        ctx.bad(finding_func(prop, rid, fn, "handle_notify no longer registers / unregisters the peer in self.connections", text="def handle_notify(...) :: connections"))
        return

    def edge_ok(n, m, kinds):
        if kinds & set(NORMAL):
            return True
        st = cfg.ast_of(n)
        # only suspension points are taken to raise (I/O error of this connection, cancellation); logging and transport.close() are not
        return st is not None and any(isinstance(x, (ast.Await, ast.AsyncFor, ast.AsyncWith)) for x in ast.walk(st))

    starts = [m for r in reg for m in cfg.succ(r, kinds=set(NORMAL))]
    path = cfg.find_path(starts, [cfg.exit, cfg.raise_exit, cfg.cancel_exit], avoid_nodes=rem, edge_ok=edge_ok)
    if path:
        last = next((cfg.ast_of(n) for n in reversed(path[:-1]) if cfg.ast_of(n) is not None), fn)
        ctx.bad(finding_at(prop, rid, last, "handle_notify can end (exception or cancellation at this await) without removing the peer from self.connections: the closed writer stays "
                           "in the table and breaks the fan-out loop of every later id", path=cfg.describe_path(path)[-5:]))
    else:
        ctx.ok(rid, cfg.ast_of(rem[0]), "every exit after the registration passes the removal")


def run(program, ctx):
    from ..lib import rule_awaited

    rule_awaited(program, ctx, P, ANCHORS)
    rule_framing(program, ctx)
    rule_recipients(program, ctx)
    rule_fanout(program, ctx)
    rule_announce(program, ctx)
    rule_hub(program, ctx)
    rule_flag(program, ctx)
    rule_unregister(program, ctx)
    rule_written_once(program, ctx)
    from . import c06

    c06.rule_reap(program, ctx, prop=P, rid="C20.reap")
    ctx.not_decided += [
        "exactly-once under peer disconnects/reconnects and ordering between workers",
        "the LMDB writer thread not having committed when a peer looks the id up (the announcement follows the enqueue, not the commit)",
    ]


NOT = "nostr_relay/notifier.py"
DB = "nostr_relay/storage/db.py"
KV = "nostr_relay/storage/kv.py"

MUTANTS = [
    M("c20-write-retried", "nostr_relay/notifier.py", "        self.writer.write(event.id_bytes)\n", "        for _ in range(2):\n            self.writer.write(event.id_bytes)\n", "C20.once"),
    M("c20-wait-closed-before-unregister", "nostr_relay/notifier.py", "        del self.connections[addr]", "        await writer.drain()\n        del self.connections[addr]", "C20.unregister"),
    M("c20-server-read", NOT, "                data = await reader.readexactly(32)\n                self.log.debug(\n", "                data = await reader.read(32)\n                self.log.debug(\n", "C20.framing", canary=True),
    M("c20-client-read", NOT, "                data = await reader.readexactly(32)\n                event =", "                data = await reader.read(32)\n                event =", "C20.framing"),
    M("c20-width-64", NOT, "                data = await reader.readexactly(32)\n                event =", "                data = await reader.readexactly(64)\n                event =", "C20.framing"),
    M("c20-echo", NOT, "                    if peer != writer:\n                        peer.write(data)\n                        await peer.drain()", "                    peer.write(data)\n                    await peer.drain()", "C20.recipients"),
    M("c20-live-dict", NOT, "for peer in list(self.connections.values()):", "for peer in self.connections.values():", "C20.recipients"),
    M("c20-stale-peers", NOT,
      "                data = await reader.readexactly(32)\n                self.log.debug(\n                    \"Broadcasting %s to %s connections\",\n                    data.hex(),\n                    len(self.connections) - 1,\n                )\n\n                # drain() can suspend: iterate over a copy of the peers\n                for peer in list(self.connections.values()):",
      "                peers = list(self.connections.values())\n                data = await reader.readexactly(32)\n                self.log.debug(\n                    \"Broadcasting %s to %s connections\",\n                    data.hex(),\n                    len(self.connections) - 1,\n                )\n\n                for peer in peers:",
      "C20.recipients"),
    M("c20-other-fanout", NOT, "                    await self.storage.notify_all_connected(event)", "                    await self.storage.add_event(event.to_json_object())", "C20.fanout"),
    M("c20-kv-no-announce", KV, "        # notify other processes\n        await self.notify_other_processes(event)\n\n    async def reindex", "\n    async def reindex", "C20.announce"),
    M("c20-sql-announce-in-txn", DB, "                        await self.post_save(event, connection=conn, changed=changed)\n            counter", "                        await self.post_save(event, connection=conn, changed=changed)\n                        await self.notify_other_processes(event)\n            counter", "C20.announce"),
    M("c20-announce-in-post-save", DB, "            await self.process_tags(connection, event)\n\n    async def run_single_query", "            await self.process_tags(connection, event)\n            await self.notify_other_processes(event)\n\n    async def run_single_query", "C20.announce"),
]
EQUIVS = [
    E("c20-eq-snapshot-after-read", NOT, "                # drain() can suspend: iterate over a copy of the peers\n                for peer in list(self.connections.values()):\n                    if peer != writer:\n                        peer.write(data)\n                        await peer.drain()",
      "                peers = [peer for peer in self.connections.values() if peer != writer]\n                for peer in peers:\n                    peer.write(data)\n                    await peer.drain()"),
]

# functions whose syntactic mutants are used for the thorough tier's sensitivity figure (sa/automut.py)
ANCHORS = [
    "nostr_relay.notifier:NotifyServer.handle_notify",
    "nostr_relay.notifier:NotifyClient.connect",
    "nostr_relay.notifier:NotifyClient.notify",
    "nostr_relay.storage.base:BaseStorage.notify_other_processes",
]
