"""C04 - every frame is well-formed JSON of a known shape; every served event is verbatim.

  C04.frames      every value reaching ws_send is json_dumps(<list with constant head EVENT|EOSE|OK|NOTICE|AUTH>) or the output of
                  the hand serializer; a hand-built frame needs JSON-adequate holes
  C04.serializer  util.event_as_json: every hole of the frame template is adequate for its JSON position (string position: JSON string
                  encoder, or a field proven canonical hex at admission; value position: JSON encoder or a proven int)
  C04.canonical   admission (is_signed) proves what the serializer and the lossy hex<->bytes codecs rely on: id/pubkey/sig canonical
                  lower-case hex, created_at an int
  C04.sqlcodec    SQL: SELECT list, table column order, event_from_tuple indices and INSERT values describe one mapping; each stored
                  value is the event's own field through a reversible codec
  C04.kvcodec     LMDB: encode_event row positions = FIELDS_TO_COLUMNS = indices used by decode_event / matcher; fromhex on write
                  iff .hex() on read
  C04.http        /e/<id> publishes through resp.media (encoder) the event's to_json_object()
"""
from __future__ import annotations

import ast
import re

from ..cfg import cfg_of
from ..core import (
    AnalysisError,
    ancestors,
    call_name,
    dotted,
    enclosing_stmt,
    finding_at,
    finding_func,
    norm,
    own_calls,
    qual_of,
    walk_no_nested,
)
from ..lib import NORMAL, all_calls, func_of, must_pass, stores_of, strip_await, test_edges
from ..selftest import E, M
from ..taint import CONST, FRAG, HEX, INT, JSON, RAW, UNKNOWN, Interp

P = "C04"
HEADS = {"EVENT", "EOSE", "OK", "NOTICE", "AUTH"}
LOWER_HEX = set("0123456789abcdef")


# --------------------------------------------------------------------------
# what admission proves about the event's fields


def canonical_fields(program, ctx, rid):
    """field -> 'HEX' | 'INT' proven on every accepting path of validators.is_signed."""
    fn = program.func("nostr_relay.validators:is_signed")
    cfg = cfg_of(fn)
    ev = fn.args.args[0].arg
    mod = fn._module
    # helper predicates defined in the module: name -> ('hex'|'int')
    helpers = {}
    cands = [(f.name, f) for f in mod.tree.body if isinstance(f, ast.FunctionDef)]
    # predicates that live in another module of the package and are imported / aliased here
    for local, tgt in program.imports_of(mod).items():
        m2, _, sym = tgt.rpartition(".")
        f2 = program.functions.get(f"{m2}:{sym}")
        if f2 is not None and isinstance(f2, ast.FunctionDef) and all(local != n_ for n_, _f in cands):
            cands.append((local, f2))
    for fname, f in cands:
        if isinstance(f, ast.FunctionDef) and f.args.args:
            p0 = f.args.args[0].arg
            txt = ast.unparse(f)
            hexy = False
            for c in ast.walk(f):
                # all(ch in "<lower hex>" for ch in p0)
                if isinstance(c, ast.Call) and call_name(c) == "all" and c.args and isinstance(c.args[0], ast.GeneratorExp):
                    t = c.args[0].elt
                    if isinstance(t, ast.Compare) and isinstance(t.ops[0], ast.In) and isinstance(t.comparators[0], ast.Constant) and isinstance(t.comparators[0].value, str) and set(t.comparators[0].value) <= LOWER_HEX and dotted(c.args[0].generators[0].iter) == p0:
                        hexy = True
                # for ch in p0: if ch not in "<lower hex>": return False
                if isinstance(c, ast.For) and dotted(c.iter) == p0 and isinstance(c.target, ast.Name):
                    for st in c.body:
                        if isinstance(st, ast.If) and isinstance(st.test, ast.Compare) and isinstance(st.test.ops[0], ast.NotIn) and dotted(st.test.left) == c.target.id \
                                and isinstance(st.test.comparators[0], ast.Constant) and isinstance(st.test.comparators[0].value, str) and set(st.test.comparators[0].value) <= LOWER_HEX \
                                and any(isinstance(r, ast.Return) and isinstance(r.value, ast.Constant) and r.value.value is False for r in st.body):
                            hexy = True
                if isinstance(c, ast.Call) and call_name(c).endswith("fullmatch") and c.args and isinstance(c.args[0], ast.Constant) and re.fullmatch(r"\[0-9a-f\](\{\d+\}|\+|\*)?", str(c.args[0].value)):
                    hexy = True
            rets = [r for r in walk_no_nested(f) if isinstance(r, ast.Return)]
            # no early `return True`: every truthy-constant return must be the last statement
            early_true = [r for r in rets if isinstance(r.value, ast.Constant) and r.value.value is True and r is not f.body[-1]]
            if hexy and rets and "isinstance" in txt and all(r.value is not None for r in rets) and not early_true:
                helpers[fname] = "hex"
    proven = {}

    def field_of(e):
        return e.attr if isinstance(e, ast.Attribute) and isinstance(e.value, ast.Name) and e.value.id == ev else None

    def make_pred(field, kind):
        def pred(expr, pol):
            if kind == "HEX":
                if isinstance(expr, ast.Call) and isinstance(expr.func, ast.Name) and expr.func.id in helpers and expr.args and field_of(expr.args[0]) == field:
                    return pol
                if isinstance(expr, ast.Compare) and len(expr.ops) == 1:
                    l, r = expr.left, expr.comparators[0]
                    hashy = lambda x: any(isinstance(c, ast.Call) and (call_name(c).endswith("compute_id") or call_name(c).endswith("hexdigest")) for c in ast.walk(x))
                    if (field_of(l) == field and hashy(r)) or (field_of(r) == field and hashy(l)):
                        return (isinstance(expr.ops[0], ast.Eq) and pol) or (isinstance(expr.ops[0], ast.NotEq) and not pol)
                if isinstance(expr, ast.Call) and call_name(expr).endswith("fullmatch") and len(expr.args) == 2 and field_of(expr.args[1]) == field and isinstance(expr.args[0], ast.Constant) and re.fullmatch(r"\[0-9a-f\](\{\d+\}|\+)", str(expr.args[0].value)):
                    return pol
            if kind == "INT":
                # isinstance(x, int) is NOT enough: bool is a subclass of int and renders as True/False
                if isinstance(expr, ast.Compare) and len(expr.ops) == 1 and isinstance(expr.left, ast.Call) and call_name(expr.left) == "type" and field_of(expr.left.args[0]) == field and dotted(expr.comparators[0]) == "int":
                    return (isinstance(expr.ops[0], (ast.Is, ast.Eq)) and pol) or (isinstance(expr.ops[0], (ast.IsNot, ast.NotEq)) and not pol)
            return False
        return pred

    for field, kind in (("id", "HEX"), ("pubkey", "HEX"), ("sig", "HEX"), ("created_at", "INT")):
        passes = test_edges(cfg, make_pred(field, kind))
        if passes and not must_pass(cfg, passes, [cfg.exit]):
            proven[field] = kind
            ctx.ok(rid, fn, f"is_signed accepts only events whose `{field}` is proven {'canonical lower-case hex' if kind == 'HEX' else 'an int'}")
    # kind is int() by construction in Event.__init__
    init = program.func("aionostr.event:Event.__init__")
    if any(isinstance(s, ast.Assign) and dotted(s.targets[0]) == "self.kind" and isinstance(s.value, ast.Call) and call_name(s.value) == "int" for s in ast.walk(init)):
        proven["kind"] = "INT"
        ctx.ok(rid, init, "Event.__init__: self.kind = int(kind)")
    if any(isinstance(s, ast.If) and "isinstance(content, str)" in ast.unparse(s.test) and any(isinstance(r, ast.Raise) for r in s.body) for s in ast.walk(init)):
        proven["content"] = "STR"
        ctx.ok(rid, init, "Event.__init__: content must be str")
    return proven


def rule_canonical(program, ctx, prop=P, rid="C04.canonical"):
    ctx.rule(
        rid,
        "lossy-codec guard: id, pubkey and sig pass through bytes.fromhex (accepts upper case and whitespace) on write and .hex() on read, "
        "and are pasted between JSON quotes by the hand serializer; created_at is pasted in value position. 'verbatim' therefore needs an "
        "admission check (is_signed, in every default chain) proving canonical lower-case hex / int on every accepting path",
        floor=3,
    )
    proven = canonical_fields(program, ctx, rid)
    fn = program.func("nostr_relay.validators:is_signed")
    for field, kind in (("id", "HEX"), ("pubkey", "HEX"), ("sig", "HEX"), ("created_at", "INT")):
        if proven.get(field) != kind:
            what = ("accepts upper-case digits and ASCII whitespace in it: the event is stored/served lower-cased (no longer verbatim, id no longer "
                    "matches) and a value with an embedded tab is pasted between JSON quotes in the live EVENT frame") if kind == "HEX" else \
                   ("accepts a non-int value: it is pasted unencoded into the EVENT frame (invalid JSON / injected members)")
            ctx.bad(finding_func(prop, rid, fn, f"no canonical-form check for `{field}` on the admission path; {what}", text=f"def is_signed(...) :: {field}"))
    return proven


# --------------------------------------------------------------------------


def rule_serializer(program, ctx, proven, prop=P, rid="C04.serializer"):
    ctx.rule(
        rid,
        "util.event_as_json: the f-string frame template is read as a JSON skeleton; each hole is classified by position (between quotes / "
        "value position) and by the class of its expression; string position needs encode_basestring/json_dumps or an admission-proven hex "
        "field, value position needs a JSON encoder or an admission-proven int; str() of an arbitrary tag item is not an encoder",
        floor=3,
    )
    fn = program.func("nostr_relay.util:event_as_json")
    params = [a.arg for a in fn.args.args]
    sub, ev = params[0], params[1]
    fields = {}
    for f in ("id", "pubkey", "sig"):
        fields[f] = HEX if proven.get(f) == "HEX" else RAW
    fields["created_at"] = INT if proven.get("created_at") == "INT" else RAW
    fields["kind"] = INT if proven.get("kind") == "INT" else RAW
    fields["content"] = RAW
    fields["tags"] = ("list", ("list", RAW))
    it = Interp(fn, "json", fields, params={sub: RAW, ev: "MODEL"})
    for n in walk_no_nested(fn):
        if isinstance(n, ast.JoinedStr) and not isinstance(n._parent, ast.FormattedValue) and not any(isinstance(a, ast.JoinedStr) for a in ancestors(n)):
            it.cls(n, enclosing_stmt(n))
    seen = set()
    for h in it.holes:
        if id(h.node) in seen:
            continue
        seen.add(id(h.node))
        src = ast.unparse(h.node)
        if h.adequate:
            ctx.ok(rid, h.stmt, f"hole `{src[:60]}` [{h.position}] class {h.cls}: {h.why}")
        else:
            ctx.bad(finding_at(prop, rid, h.stmt, f"`{src[:80]}` is pasted into the EVENT frame {'between JSON quotes' if h.position == 'quoted' else 'in value position'} "
                               f"without a JSON encoder ({h.why}): quotes, backslashes, control characters or non-string values make the frame invalid JSON",
                               text=src[:60]))
    # every field of the event is served, under its own key
    text = "".join(str(p.value) for j in walk_no_nested(fn) if isinstance(j, ast.JoinedStr) for p in j.values if isinstance(p, ast.Constant))
    for k in ("id", "created_at", "pubkey", "kind", "sig", "content", "tags"):
        if f'"{k}":' not in text:
            ctx.bad(finding_func(prop, rid, fn, f"the EVENT frame template has no \"{k}\" member", text=f"def event_as_json(...) :: {k}"))
    # key -> field pairing
    for j in walk_no_nested(fn):
        if isinstance(j, ast.JoinedStr):
            prev = ""
            for p in j.values:
                if isinstance(p, ast.Constant):
                    prev = str(p.value)
                elif isinstance(p, ast.FormattedValue):
                    m = re.search(r'"(\w+)":"?$', prev)
                    if m:
                        key = m.group(1)
                        names = {a.attr for a in ast.walk(p.value) if isinstance(a, ast.Attribute) and isinstance(a.value, ast.Name) and a.value.id == ev}
                        if key == "tags":
                            continue
                        if names == {key}:
                            ctx.ok(rid, j, f"member \"{key}\" <- {ev}.{key}", nontrivial=False)
                        else:
                            ctx.bad(finding_at(prop, rid, j, f"member \"{key}\" of the EVENT frame is filled from {sorted(names) or ast.unparse(p.value)}, not from {ev}.{key}", text=key))


def rule_frames(program, ctx):
    rid = ctx.rule(
        "C04.frames",
        "every ws_send(x) in web.py: x is json_dumps(<list display headed by one of EVENT/EOSE/OK/NOTICE/AUTH>), the result of "
        "event_as_json(sub_id, event), or a template whose holes are JSON-adequate; ws_send is never given str()/repr()/%-formatted text",
        floor=3,
    )
    web = program.module("nostr_relay.web")
    for fn in [f for f in ast.walk(web.tree) if isinstance(f, (ast.FunctionDef, ast.AsyncFunctionDef))]:
        sends = [c for c in walk_no_nested(fn) if isinstance(c, ast.Call) and call_name(c) == "ws_send"]
        if not sends:
            continue
        it = Interp(fn, "json", {}, params={})
        for c in sends:
            a = c.args[0] if c.args else None
            st = enclosing_stmt(c)
            def sources(expr, at_stmt, depth=4):
                """the expressions a name can hold at `at_stmt` (through name-to-name re-bindings)"""
                if not isinstance(expr, ast.Name) or depth == 0:
                    return [expr]
                out = []
                defs = it.rd.reaching(at_stmt, expr.id)
                if not defs:
                    return [None]
                for d in defs:
                    s_ = it.cfg.ast_of(d)
                    if isinstance(s_, ast.Assign):
                        out += sources(s_.value, s_, depth - 1)
                    else:
                        out.append(None)
                return out

            exprs = sources(a, st)
            for e in exprs:
                if e is None:
                    ctx.bad(finding_at(P, rid, c, "the frame sent comes from a binding the checker cannot read as a frame constructor"))
                    continue
                if isinstance(e, ast.Call) and call_name(e) in ("json_dumps", "json.dumps"):
                    arg = e.args[0] if e.args else None
                    heads = set()
                    if isinstance(arg, ast.List) and arg.elts and isinstance(arg.elts[0], ast.Constant):
                        heads = {arg.elts[0].value}
                    elif isinstance(arg, ast.Name):
                        for v_ in sources(arg, st):
                            if isinstance(v_, ast.List) and v_.elts and isinstance(v_.elts[0], ast.Constant):
                                heads.add(v_.elts[0].value)
                            else:
                                heads.add(None)
                    if heads and heads <= HEADS:
                        ctx.ok(rid, c, f"ws_send(json_dumps([{'/'.join(sorted(heads))}, …]))")
                    else:
                        ctx.bad(finding_at(P, rid, c, f"frame head {sorted(str(h) for h in heads)} is not one of {sorted(HEADS)}"))
                elif isinstance(e, ast.Call) and call_name(e) == "event_as_json":
                    ctx.ok(rid, c, "ws_send(event_as_json(sub_id, event))")
                elif isinstance(e, (ast.JoinedStr, ast.BinOp)) or (isinstance(e, ast.Call) and isinstance(e.func, ast.Attribute) and e.func.attr == "format"):
                    before = len(it.holes)
                    cl = it.cls(e, st)
                    bad = [h for h in it.holes[before:] if not h.adequate]
                    if bad:
                        for h in bad:
                            ctx.bad(finding_at(P, rid, enclosing_stmt(e) or c, f"hand-built frame: `{ast.unparse(h.node)}` is pasted {'between JSON quotes' if h.position == 'quoted' else 'in value position'} "
                                               f"without a JSON encoder ({h.why})", text=ast.unparse(h.node)))
                    else:
                        ctx.ok(rid, c, "hand-built frame with JSON-adequate holes")
                else:
                    ctx.bad(finding_at(P, rid, c, f"ws_send is given `{ast.unparse(e)[:60]}`, which is not a JSON frame constructor"))


# --------------------------------------------------------------------------

EVENT_COLS = ["id", "created_at", "kind", "pubkey", "tags", "sig", "content"]


def rule_sqlcodec(program, ctx):
    rid = ctx.rule(
        "C04.sqlcodec",
        "SQL codec tables: column list of the SELECT skeleton in build_query == column order of the events table in get_metadata() (both "
        "dialect branches) and of the alembic migration == order assumed by event_from_tuple's row[i]; INSERT .values() covers exactly "
        "these columns, each value is event.<same field> directly or through bytes.fromhex/.id_bytes; read side applies .hex() exactly to the BLOB columns",
        floor=2,
    )
    bq = program.func("nostr_relay.storage.db:Subscription.build_query")
    sel = None
    for c in ast.walk(bq):
        if isinstance(c, ast.Constant) and isinstance(c.value, str) and "SELECT" in c.value and "FROM events" in c.value:
            m = re.search(r"SELECT\s+(.*?)\s+FROM\s+events", c.value, re.S)
            sel = [x.strip() for x in m.group(1).split(",")]
            sel_node = c
    if sel is None:
        raise AnalysisError("SELECT skeleton not found in build_query")
    eft = program.func("nostr_relay.storage.db:event_from_tuple")
    # the tags value: the column itself or its JSON decoding - never re-shaped element by element
    for st_ in walk_no_nested(eft):
        if isinstance(st_, ast.Assign) and any(dotted(t) == "tags" for t in st_.targets):
            v_ = st_.value
            okt = (isinstance(v_, ast.Subscript) and isinstance(v_.slice, ast.Constant)) or (isinstance(v_, ast.Call) and call_name(v_).split(".")[-1] in ("json_loads", "loads") and len(v_.args) == 1 and dotted(v_.args[0]) == "tags")
            if not okt:
                ctx.bad(finding_at(P, rid, st_, f"event_from_tuple re-shapes the stored tags (`{norm(st_, 60)}`): a tag that is not an array (a JSON string is accepted as a tag) is split / "
                                   "converted, the served event differs from the accepted one and its id no longer verifies"))
    idx = {}
    hexed = set()
    call = next((c for c in ast.walk(eft) if isinstance(c, ast.Call) and call_name(c) == "Event"), None)
    if call is None:
        raise AnalysisError("event_from_tuple no longer builds Event(...)")
    aliases = {}
    for s in walk_no_nested(eft):
        if isinstance(s, ast.Assign) and isinstance(s.targets[0], ast.Name) and isinstance(s.value, ast.Subscript) and isinstance(s.value.slice, ast.Constant):
            aliases[s.targets[0].id] = s.value.slice.value
    for k in call.keywords:
        v = k.value
        hx = False
        if isinstance(v, ast.Call) and isinstance(v.func, ast.Attribute) and v.func.attr == "hex":
            hx = True
            v = v.func.value
        if isinstance(v, ast.Subscript) and isinstance(v.slice, ast.Constant):
            idx[k.arg] = v.slice.value
        elif isinstance(v, ast.Name) and v.id in aliases:
            idx[k.arg] = aliases[v.id]
        if hx:
            hexed.add(k.arg)
    for k, i in sorted(idx.items(), key=lambda kv: kv[1]):
        if i < len(sel) and sel[i] == k:
            ctx.ok(rid, call, f"row[{i}] -> {k} == SELECT column {i}")
        else:
            ctx.bad(finding_at(P, rid, call, f"event_from_tuple reads `{k}` from row[{i}] but the SELECT skeleton puts `{sel[i] if i < len(sel) else '?'}` there", text=k))
    if set(idx) != set(EVENT_COLS):
        ctx.bad(finding_at(P, rid, call, f"event_from_tuple fills {sorted(idx)}; an event has {sorted(EVENT_COLS)}", text="fields"))
    if hexed != {"id", "pubkey", "sig"}:
        ctx.bad(finding_at(P, rid, call, f".hex() is applied to {sorted(hexed)} on read; the BLOB columns are id, pubkey, sig", text="hex"))
    # table definitions
    gm = program.func("nostr_relay.storage:get_metadata")
    for c in ast.walk(gm):
        if isinstance(c, ast.Call) and call_name(c) == "sa.Table" and c.args and isinstance(c.args[0], ast.Constant) and c.args[0].value == "events":
            cols = [a.args[0].value for a in c.args if isinstance(a, ast.Call) and call_name(a) == "sa.Column" and a.args and isinstance(a.args[0], ast.Constant)]
            if cols == sel:
                ctx.ok(rid, c, f"events table column order == SELECT list {cols}")
            else:
                ctx.bad(finding_at(P, rid, c, f"events table column order {cols} differs from the SELECT list {sel}: select(EventTable) rows are decoded with the wrong indices"))
    mig = program.modules.get("nostr_relay.alembic.versions.e748549d8d91_initial_tables")
    if mig is not None:
        for c in ast.walk(mig.tree):
            if isinstance(c, ast.Call) and call_name(c) == "op.create_table" and c.args and isinstance(c.args[0], ast.Constant) and c.args[0].value == "events":
                cols = [a.args[0].value for a in c.args if isinstance(a, ast.Call) and call_name(a) == "sa.Column"]
                if cols == sel:
                    ctx.ok(rid, c, "alembic events table column order == SELECT list")
                else:
                    ctx.bad(finding_at(P, rid, c, f"alembic events table column order {cols} differs from the SELECT list {sel}"))
    rule_insert_values(program, ctx, P, rid)


def rule_insert_values(program, ctx, prop, rid):
    """INSERT .values(): each column is the admitted event's own field through a reversible codec (shared with C03.stored)."""
    ae = program.func("nostr_relay.storage.db:DBStorage.add_event")
    vals = next((c for c in ast.walk(ae) if isinstance(c, ast.Call) and call_name(c).endswith("event_insert_query.values")), None)
    if vals is None:
        ctx.bad(finding_func(prop, rid, ae, "INSERT values() call not found", text="def add_event(...) :: values"))
        return
    ev = "event"
    got = {}
    from ..lib import expand_aliases

    keywords = []
    for k in vals.keywords:
        if k.arg is None:
            # .values(**row_values) with row_values a dict display bound once
            d = expand_aliases(ae, k.value)
            if isinstance(d, ast.Dict) and all(isinstance(x, ast.Constant) for x in d.keys):
                keywords += [ast.keyword(arg=x.value, value=y) for x, y in zip(d.keys, d.values)]
            elif isinstance(d, ast.Call) and call_name(d) == "dict":
                keywords += list(d.keywords)
            else:
                keywords.append(k)
        else:
            keywords.append(k)
    for k in keywords:
        v = expand_aliases(ae, k.value)
        k = ast.keyword(arg=k.arg, value=v)
        src = ast.unparse(v)
        allowed = {
            "id": {f"{ev}.id_bytes", f"bytes.fromhex({ev}.id)"},
            "pubkey": {f"bytes.fromhex({ev}.pubkey)"},
            "sig": {f"bytes.fromhex({ev}.sig)"},
        }.get(k.arg, {f"{ev}.{k.arg}"})
        got[k.arg] = src
        if src in allowed:
            ctx.ok(rid, vals, f"INSERT {k.arg} = {src}")
        else:
            ctx.bad(finding_at(prop, rid, vals, f"column `{k.arg}` is stored as `{src}`: not the event's own field through a reversible codec - what is served later differs from what was accepted and signed", text=k.arg))
    if set(got) != set(EVENT_COLS):
        ctx.bad(finding_at(prop, rid, vals, f"INSERT covers {sorted(got)}; the events table has {sorted(EVENT_COLS)}", text="columns"))


def rule_kvcodec(program, ctx, prop=P, rid="C04.kvcodec"):
    ctx.rule(
        rid,
        "LMDB codec tables: position of each field in encode_event's row tuple == FIELDS_TO_COLUMNS[field] == index read by decode_event and "
        "by matcher's Event(...); bytes.fromhex/.id_bytes on write iff .hex() on read",
        floor=5,
    )
    kv = program.module("nostr_relay.storage.kv")
    table = {}
    for st in kv.tree.body:
        if isinstance(st, ast.Assign) and any(isinstance(t, ast.Name) and t.id == "FIELDS_TO_COLUMNS" for t in st.targets) and isinstance(st.value, ast.Dict):
            for k, v in zip(st.value.keys, st.value.values):
                table[k.value] = v.value
    if set(table) != set(EVENT_COLS):
        raise AnalysisError("FIELDS_TO_COLUMNS does not list the seven event fields")
    if len(set(table.values())) != len(table):
        ctx.bad(finding_at(prop, rid, kv.tree.body[0], "FIELDS_TO_COLUMNS maps two fields to one column"))
    enc = program.func("nostr_relay.storage.kv:encode_event")
    row = next((s.value for s in walk_no_nested(enc) if isinstance(s, ast.Assign) and isinstance(s.value, ast.Tuple)), None)
    if row is None:
        raise AnalysisError("encode_event row tuple not found")
    binary = set()
    for i, e in enumerate(row.elts):
        src = ast.unparse(e)
        m = re.fullmatch(r"(?:bytes\.fromhex\()?event\.(\w+?)(_bytes)?\)?", src)
        if i == 0:
            continue
        if not m:
            ctx.bad(finding_at(prop, rid, e, f"row[{i}] = `{src}` is not an event field through a reversible codec", text=str(i)))
            continue
        field = m.group(1)
        if "fromhex" in src or m.group(2):
            binary.add(field)
        if table.get(field) == i:
            ctx.ok(rid, e, f"encode: row[{i}] = {src} == FIELDS_TO_COLUMNS['{field}']")
        else:
            ctx.bad(finding_at(prop, rid, e, f"encode_event puts `{field}` at row[{i}] but FIELDS_TO_COLUMNS['{field}'] = {table.get(field)}: readers and the residual predicate look at another column", text=field))
    for q in ("nostr_relay.storage.kv:decode_event", "nostr_relay.storage.kv:matcher"):
        fn = program.func(q)
        call = next((c for c in ast.walk(fn) if isinstance(c, ast.Call) and call_name(c) == "Event"), None)
        if call is None:
            ctx.bad(finding_func(prop, rid, fn, "no Event(...) construction", text=f"def {fn.name}(...)"))
            continue
        seen = set()
        for k in call.keywords:
            v = k.value
            hx = False
            if isinstance(v, ast.Call) and isinstance(v.func, ast.Attribute) and v.func.attr == "hex":
                hx = True
                v = v.func.value
            if not (isinstance(v, ast.Subscript) and isinstance(v.slice, ast.Constant)):
                ctx.bad(finding_at(prop, rid, k.value, f"{fn.name}: `{k.arg}` is not read from a fixed row position", text=k.arg))
                continue
            seen.add(k.arg)
            i = v.slice.value
            if table.get(k.arg) != i:
                ctx.bad(finding_at(prop, rid, k.value, f"{fn.name} reads `{k.arg}` from row[{i}]; it is written at row[{table.get(k.arg)}]", text=k.arg))
            elif hx != (k.arg in binary):
                ctx.bad(finding_at(prop, rid, k.value, f"{fn.name}: `{k.arg}` is {'hex-decoded' if hx else 'not hex-decoded'} on read but {'bytes' if k.arg in binary else 'text'} on write", text=k.arg))
            else:
                ctx.ok(rid, k.value, f"{fn.name}: {k.arg} <- row[{i}]{'.hex()' if hx else ''}")
        if seen != set(EVENT_COLS):
            ctx.bad(finding_at(prop, rid, call, f"{fn.name} fills {sorted(seen)} of the seven event fields", text="fields"))
    # msgpack options must round-trip bytes/str distinctly
    for c in ast.walk(enc):
        if isinstance(c, ast.Call) and call_name(c) == "packb":
            if any(k.arg == "use_bin_type" and isinstance(k.value, ast.Constant) and k.value.value is True for k in c.keywords):
                ctx.ok(rid, c, "packb(use_bin_type=True): bytes and str stay distinct")
            else:
                ctx.bad(finding_at(prop, rid, c, "packb without use_bin_type=True: str and bytes are merged on disk"))
    # a custom (ext) codec must be its own inverse: signedness of to_bytes / from_bytes
    packs = [c for c in ast.walk(kv.tree) if isinstance(c, ast.Call) and isinstance(c.func, ast.Attribute) and c.func.attr == "to_bytes" and any(k.arg == "signed" and isinstance(k.value, ast.Constant) and k.value.value is True for k in c.keywords)]
    unpacks = [c for c in ast.walk(kv.tree) if isinstance(c, ast.Call) and isinstance(c.func, ast.Attribute) and c.func.attr == "from_bytes"]
    for u in unpacks:
        signed = any(k.arg == "signed" and isinstance(k.value, ast.Constant) and k.value.value is True for k in u.keywords)
        fn_u = next((a for a in ancestors(u) if isinstance(a, ast.FunctionDef)), None)
        if packs and not signed and fn_u is not None and any(isinstance(k, ast.keyword) and k.arg == "ext_hook" and dotted(k.value) == fn_u.name for c in ast.walk(kv.tree) if isinstance(c, ast.Call) for k in c.keywords):
            ctx.bad(finding_at(prop, rid, u, "integers are packed with to_bytes(..., signed=True) but unpacked with int.from_bytes(...) unsigned: a negative value comes back as a large positive one"))


def rule_http(program, ctx):
    rid = ctx.rule(
        "C04.http",
        "ViewEventResource.on_get publishes `event.to_json_object()` through resp.media (JSON encoder), never through resp.text with holes; "
        "to_json_object lists the seven fields from self",
        floor=1,
    )
    fn = program.func("nostr_relay.web:ViewEventResource.on_get")
    for s in walk_no_nested(fn):
        if isinstance(s, ast.Assign) and any(dotted(t).startswith("resp.") for t in s.targets):
            t = dotted(s.targets[0])
            if t == "resp.media" and ast.unparse(s.value) == "event.to_json_object()":
                ctx.ok(rid, s, "resp.media = event.to_json_object()")
            else:
                ctx.bad(finding_at(P, rid, s, f"/e/<id> publishes through `{t} = {ast.unparse(s.value)[:50]}` instead of resp.media = event.to_json_object()"))
    tj = program.func("aionostr.event:Event.to_json_object")
    d = next((x for x in ast.walk(tj) if isinstance(x, ast.Dict)), None)
    if d is not None and {k.value: ast.unparse(v) for k, v in zip(d.keys, d.values)} == {f: f"self.{f}" for f in EVENT_COLS}:
        ctx.ok(rid, tj, "to_json_object: seven fields from self")
    else:
        ctx.bad(finding_func(P, rid, tj, "Event.to_json_object no longer maps the seven fields one to one", text="def to_json_object(...)"))


def rule_subid(program, ctx):
    rid = ctx.rule(
        "C04.subid",
        "the subscription id used for a REQ/CLOSE is exactly `str(message[1])` (no truncation, case folding or other normalisation): EVENT and EOSE frames "
        "must carry the string the client supplied",
        floor=2,
    )
    sc = program.func("nostr_relay.web:start_client")
    binds = stores_of(sc, "sub_id")
    if not binds:
        ctx.bad(finding_func(P, rid, sc, "no `sub_id` binding in the connection handler", text="def start_client(...) :: sub_id"))
    for b in binds:
        v = b.value if isinstance(b, ast.Assign) else None
        if v is not None and ast.unparse(v) in ("str(message[1])", "message[1]"):
            ctx.ok(rid, b, f"sub_id = {ast.unparse(v)}")
        else:
            ctx.bad(finding_at(P, rid, b, f"the subscription id is bound to `{ast.unparse(v) if v is not None else norm(b)}`: frames then carry a string that differs from the one the client supplied"))
    for c in ast.walk(sc):
        if isinstance(c, ast.Call) and call_name(c) in ("storage.subscribe", "storage.unsubscribe") and len(c.args) >= 2:
            a = c.args[1]
            if not (isinstance(a, ast.Name) and a.id == "sub_id"):
                ctx.bad(finding_at(P, rid, c, f"{call_name(c)} is given `{ast.unparse(a)}` as subscription id instead of the client's string"))
    # the id travels unchanged through the subscription object and the queue
    init = program.func("nostr_relay.storage.base:BaseSubscription.__init__")
    if any(isinstance(s, ast.Assign) and dotted(s.targets[0]) == "self.sub_id" and dotted(s.value) == "sub_id" for s in ast.walk(init)):
        ctx.ok(rid, init, "BaseSubscription keeps sub_id as given")
    else:
        ctx.bad(finding_func(P, rid, init, "BaseSubscription.__init__ transforms the subscription id", text="def __init__(...) :: sub_id"))


def rule_encoder(program, ctx, prop=P, rid="C04.encoder"):
    ctx.rule(
        rid,
        "the shared JSON encoder (util.json_dumps: hand serializer fallback, HTTP bodies, and the SQLAlchemy json_serializer of the tags column) is constructed with "
        "presentation options only (ensure_ascii, separators, indent): options that change the encoded *value* (sort_keys re-orders the members of an object inside a tag, "
        "default/skipkeys/number modes substitute values) make the served event differ from the accepted one - its id no longer matches",
        floor=1,
    )
    from ..lib import defining_module

    m = defining_module(program, "nostr_relay.util", "json_dumps")
    allowed = {"ensure_ascii", "separators", "indent", "write_mode", "check_circular", "allow_nan"}
    n = 0
    for c in ast.walk(m.tree):
        if isinstance(c, ast.Call) and call_name(c).split(".")[-1] in ("Encoder", "JSONEncoder"):
            n += 1
            extra = [k.arg or "**" for k in c.keywords if (k.arg or "**") not in allowed and not (isinstance(k.value, ast.Constant) and k.value.value in (False, None))]
            if extra or c.args:
                ctx.bad(finding_at(prop, rid, c, f"the JSON encoder is built with {extra or 'positional options'}: the encoded value of a tag item / stored tags column differs from what was accepted"))
            else:
                ctx.ok(rid, c, f"{call_name(c)}({', '.join(k.arg for k in c.keywords)})")
        if isinstance(c, ast.Call) and call_name(c).split(".")[-1] in ("dumps",) and "json" in call_name(c) and any(k.arg in ("sort_keys", "default", "skipkeys") for k in c.keywords) \
                and "json_dumps" in {t.id for a in ancestors(c) if isinstance(a, (ast.Assign, ast.FunctionDef)) for t in (a.targets if isinstance(a, ast.Assign) else []) if isinstance(t, ast.Name)} | ({a.name for a in ancestors(c) if isinstance(a, ast.FunctionDef)}):
            ctx.bad(finding_at(prop, rid, c, "json_dumps is implemented with value-changing options"))
    if not n:
        raise AnalysisError("util.json_dumps encoders not found")
    # what is read back from the tags column is decoded by the decoder that parsed the event at admission
    for mq in ("nostr_relay.storage.db",):
        for c in ast.walk(program.module(mq).tree):
            if isinstance(c, ast.Call):
                for k in c.keywords:
                    if k.arg == "json_deserializer":
                        if dotted(k.value) in ("json_loads", "util.json_loads", "json.loads"):
                            ctx.ok(rid, c, "engine json_deserializer = json_loads (the admission decoder)")
                        else:
                            ctx.bad(finding_at(prop, rid, k.value, f"the engine decodes the stored tags with `{ast.unparse(k.value)[:40]}`, not with the decoder the event was admitted through: numbers "
                                               "(big integers, floats) can come back as different values - the served event no longer hashes to its id"))
    # the tags column is serialised by the same encoder
    init = program.func("nostr_relay.storage.db:DBStorage.setup") if program.func_opt("nostr_relay.storage.db:DBStorage.setup") else None
    for q in ("nostr_relay.storage.db:DBStorage.setup", "nostr_relay.storage.db:DBStorage.__init__"):
        f = program.func_opt(q)
        if f is None:
            continue
        for k in [k for c in ast.walk(f) if isinstance(c, ast.Call) for k in c.keywords if k.arg == "json_serializer"]:
            if dotted(k.value) == "json_dumps":
                ctx.ok(rid, k.value, "engine json_serializer = util.json_dumps")
            else:
                ctx.bad(finding_at(prop, rid, k.value, f"the tags column is serialised by `{ast.unparse(k.value)[:60]}`, not by the audited encoder"))


MUTATORS = {"append", "extend", "insert", "pop", "remove", "sort", "reverse", "clear", "update", "add", "discard", "setdefault", "__setitem__", "popitem"}


def rule_immutable(program, ctx, prop=P, rid="C04.immutable"):
    ctx.rule(
        rid,
        "the accepted Event object is never modified between verification and delivery: validators, add_event, pre_save/post_save/process_tags, the LMDB writer's "
        "_post_save and BaseSubscription.notify contain no store to an attribute / item of the event, no in-place mutation of its tags (directly or through a "
        "local alias such as `indexed = event.tags; indexed += …`): the live EVENT frame is built from this very object, so a mutation makes the served event differ "
        "from the signed one (its id no longer matches)",
        floor=8,
    )
    quals = [q for q in program.functions if q.startswith(("nostr_relay.validators:", "nostr_relay.dynamic_lists:is_", "nostr_relay.recipe.homeserver:is_"))]
    quals += ["nostr_relay.storage.db:DBStorage.add_event", "nostr_relay.storage.db:DBStorage.pre_save", "nostr_relay.storage.db:DBStorage.post_save", "nostr_relay.storage.db:DBStorage.process_tags",
              "nostr_relay.storage.kv:LMDBStorage.add_event", "nostr_relay.storage.kv:LMDBStorage.post_save", "nostr_relay.storage.kv:WriterThread._post_save",
              "nostr_relay.storage.base:BaseSubscription.notify", "nostr_relay.storage.base:BaseStorage.notify_all_connected", "nostr_relay.storage.base:BaseSubscription.check_event",
              "nostr_relay.recipe.homeserver:PostSaveForward.post_save"]
    for q in quals:
        fn = program.func_opt(q)
        if fn is None or "." in q.split(":")[1] and q.split(":")[1].count(".") > 1:
            continue
        params = [a.arg for a in fn.args.args]
        ev = "event" if "event" in params or any(isinstance(n, ast.Name) and n.id == "event" for n in ast.walk(fn)) else None
        if ev is None:
            continue
        roots = {ev}
        # aliases of the event or of one of its mutable fields
        for st in walk_no_nested(fn):
            if isinstance(st, ast.Assign) and len(st.targets) == 1 and isinstance(st.targets[0], ast.Name):
                v = st.value
                base = v
                while isinstance(base, (ast.Attribute, ast.Subscript)):
                    base = base.value
                if isinstance(base, ast.Name) and base.id in roots and isinstance(v, (ast.Name, ast.Attribute, ast.Subscript)):
                    roots.add(st.targets[0].id)
        okf = True

        def rooted(e):
            while isinstance(e, (ast.Attribute, ast.Subscript)):
                e = e.value
            return isinstance(e, ast.Name) and e.id in roots

        for n in walk_no_nested(fn):
            bad = None
            if isinstance(n, (ast.Assign, ast.AugAssign, ast.AnnAssign, ast.Delete)):
                tgts = n.targets if isinstance(n, (ast.Assign, ast.Delete)) else [n.target]
                for t in tgts:
                    for x in ([t] if not isinstance(t, (ast.Tuple, ast.List)) else t.elts):
                        if isinstance(x, (ast.Attribute, ast.Subscript)) and rooted(x):
                            bad = f"`{norm(n, 60)}` stores into the accepted event"
                        if isinstance(n, ast.AugAssign) and isinstance(x, ast.Name) and x.id in roots and x.id != ev:
                            bad = f"`{norm(n, 60)}` extends a list of the accepted event in place (`{x.id}` is an alias of it)"
            if isinstance(n, ast.Call) and isinstance(n.func, ast.Attribute) and n.func.attr in MUTATORS and rooted(n.func.value) and not (isinstance(n.func.value, ast.Name) and n.func.value.id == ev):
                bad = f"`{norm(n, 60)}` mutates a field of the accepted event"
            if isinstance(n, ast.Call) and call_name(n) == "setattr" and n.args and rooted(n.args[0]):
                bad = f"`{norm(n, 60)}` stores into the accepted event"
            if bad:
                okf = False
                ctx.bad(finding_at(prop, rid, n, f"{qual_of(fn)}: {bad}: the event that is stored and pushed to subscribers is no longer the one whose id and signature were verified"))
        if okf:
            ctx.ok(rid, fn, f"{qual_of(fn)} leaves the event untouched")


def run(program, ctx):
    from . import c03 as _c03
    from ..lib import rule_awaited

    rule_awaited(program, ctx, P, ANCHORS)
    rule_subid(program, ctx)
    proven = rule_canonical(program, ctx)
    rule_serializer(program, ctx, proven)
    rule_frames(program, ctx)
    rule_sqlcodec(program, ctx)
    rule_kvcodec(program, ctx)
    rule_http(program, ctx)
    rule_encoder(program, ctx)
    # a validator that crashes must stop the event: what is served afterwards is only 'as accepted' if acceptance went through every validator
    _c03.rule_chain(program, ctx, prop=P, rid="C04.chain")
    rule_immutable(program, ctx)
    ctx.not_decided += [
        "round-trip equality through SQLite/PostgreSQL JSON and TEXT columns and through msgpack for all Unicode/number values",
        "byte-level equality of the hand serializer's escaping with the client's original encoding (only JSON validity and value equality are targeted)",
    ]


UTIL = "nostr_relay/util.py"
WEB = "nostr_relay/web.py"
DB = "nostr_relay/storage/db.py"
KV = "nostr_relay/storage/kv.py"

VAL = "nostr_relay/validators.py"

MUTANTS = [
    M("c04-other-deserializer", "nostr_relay/storage/db.py", "json_deserializer=json_loads", "json_deserializer=__import__(\"json\").loads", "C04.encoder"),
    M("c04-created-at-isinstance", VAL, "type(event.created_at) is int", "isinstance(event.created_at, int)", "C04.canonical"),
    M("c04-subid-truncated", WEB, "                    sub_id = str(message[1])\n                    await storage.subscribe(", "                    sub_id = str(message[1])[:64]\n                    await storage.subscribe(", "C04.subid"),
    M("c04-eose-fstring", WEB, "message = json_dumps([\"EOSE\", sub_id])", "message = f'[\"EOSE\",\"{sub_id}\"]'", "C04.frames", canary=True),
    M("c04-send-str", WEB, "await ws_send(json_dumps(response))", "await ws_send(str(response))", "C04.frames"),
    M("c04-unknown-head", WEB, "await ws_send(json_dumps([\"NOTICE\", str(e)]))", "await ws_send(json_dumps([\"ERROR\", str(e)]))", "C04.frames"),
    M("c04-subid-raw", UTIL, "{encode_basestring(sub_id)}", "\"{sub_id}\"", "C04.serializer"),
    M("c04-content-raw", UTIL, "\"content\":{encode_basestring(event.content)}", "\"content\":\"{event.content}\"", "C04.serializer"),
    M("c04-tag-item-str", UTIL, "else json_dumps(i)) for i in t", "else str(i)) for i in t", "C04.serializer"),
    M("c04-kind-from-created", UTIL, "\"kind\":{event.kind}", "\"kind\":{event.created_at}", "C04.serializer"),
    M("c04-canonical-pubkey-dropped", VAL, "        and _is_lower_hex(event.pubkey, 64)\n", "", "C04.canonical"),
    M("c04-canonical-upper-allowed", VAL, "all(c in \"0123456789abcdef\" for c in value)", "all(c in \"0123456789abcdefABCDEF\" for c in value)", "C04.canonical"),
    M("c04-created-at-any", VAL, "        type(event.created_at) is int\n        and ", "        ", "C04.canonical"),
    M("c04-row-swap", DB, "        sig=row[5].hex(),\n        content=row[6],", "        sig=row[6].hex(),\n        content=row[5],", "C04.sqlcodec"),
    M("c04-select-reordered", DB, "SELECT id, created_at, kind, pubkey, tags, sig, content FROM events", "SELECT id, created_at, kind, pubkey, tags, content, sig FROM events", "C04.sqlcodec"),
    M("c04-content-stripped", DB, "                                content=event.content,", "                                content=event.content.replace(\"\\x00\", \"\"),", "C04.sqlcodec"),
    M("c04-table-order", "nostr_relay/storage/__init__.py", "                sa.Column(\"tags\", sa.JSON()),\n                sa.Column(\"sig\", sa.BLOB()),", "                sa.Column(\"sig\", sa.BLOB()),\n                sa.Column(\"tags\", sa.JSON()),", "C04.sqlcodec"),
    M("c04-kv-column-table", KV, "    \"kind\": 3,\n    \"pubkey\": 4,", "    \"kind\": 4,\n    \"pubkey\": 3,", "C04.kvcodec"),
    M("c04-kv-decode-nohex", KV, "            pubkey=data[4].hex(),", "            pubkey=data[4],", "C04.kvcodec"),
    M("c04-kv-matcher-index", KV, "                content=event_tuple[5],\n                tags=event_tuple[6],", "                content=event_tuple[6],\n                tags=event_tuple[5],", "C04.kvcodec"),
    M("c04-http-text", WEB, "            resp.media = event.to_json_object()", "            resp.text = str(event)", "C04.http"),
]
EQUIVS = [
    E("c04-eq-notice-var", WEB, "                    await ws_send(json_dumps([\"NOTICE\", str(e)]))\n                except ConnectionClosedError:\n                    break\n            except AuthenticationError as e:",
      "                    notice = [\"NOTICE\", str(e)]\n                    await ws_send(json_dumps(notice))\n                except ConnectionClosedError:\n                    break\n            except AuthenticationError as e:"),
    E("c04-eq-tags-whole-dump", UTIL, "{encode_basestring(event.content)},\"tags\":[{tags}]}}]'", "{encode_basestring(event.content)},\"tags\":{json_dumps(event.tags)}}}]'"),
]

# functions whose syntactic mutants are used for the thorough tier's sensitivity figure (sa/automut.py)
ANCHORS = [
    "nostr_relay.util:event_as_json",
    "nostr_relay.web:send_subscriptions",
    "nostr_relay.storage.db:event_from_tuple",
    "nostr_relay.storage.kv:encode_event",
    "nostr_relay.storage.kv:decode_event",
    "nostr_relay.validators:is_signed",
    "nostr_relay.validators:_is_lower_hex",
]
