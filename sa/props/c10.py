"""C10 - every LMDB index entry has its record and every record all its index entries.

  C10.symmetric  per class of the INDEXES registry: clear() deletes exactly the keys write() puts (delegation to write(…, "delete") or an
                 override with the same to_key expression); convert()/to_key() are functions of the event only (no clock, config, cache)
  C10.samelist   the add path and _delete_event iterate the same index list, which contains the primary-record index
  C10.owner      txn.put/delete only inside the index classes; clear() only from _delete_event; index-only writes (reindex/bulk_update) only
                 for the out-of-keyspace "search" index
  C10.keyspace   prefixes: one byte each, pairwise distinct, below the tombstone key; the tombstone is written before the writer thread
                 starts; the tag index covers the names readers look up
  C10.region     one write transaction per task, no swallowing handler inside (shared with C07.kvregion)
"""
from __future__ import annotations

import ast
import re

from ..cfg import cfg_of
from ..core import (
    AnalysisError,
    ancestors,
    call_name,
    dotted,
    enclosing_stmt,
    finding_at,
    finding_func,
    norm,
    own_calls,
    qual_of,
    walk_no_nested,
)
from ..lib import NORMAL, all_calls, must_pass, stores_of
from ..selftest import E, M
from . import c07

P = "C10"
IMPURE = {"time", "perf_counter", "random", "randint", "token_hex", "uuid4", "now", "getenv"}


def registry(program):
    kv = program.module("nostr_relay.storage.kv")
    reg = next((s.value for s in kv.tree.body if isinstance(s, ast.Assign) and any(isinstance(t, ast.Name) and t.id == "INDEXES" for t in s.targets) and isinstance(s.value, ast.Dict)), None)
    if reg is None:
        raise AnalysisError("INDEXES registry not found")
    out = []
    for k, v in zip(reg.keys, reg.values):
        ci = program.classes.get(f"nostr_relay.storage.kv:{call_name(v)}") if isinstance(v, ast.Call) else None
        out.append((k.value, ci, v))
    return out


def rule_symmetric(program, ctx):
    rid = ctx.rule(
        "C10.symmetric",
        "for every INDEXES class with keys in the LMDB keyspace: clear resolves to Index.clear = self.write(event, txn, operation=\"delete\"); "
        "Index.write applies getattr(txn, operation) to the same key expression for both operations; IdIndex.write uses self.to_key(event.id) "
        "for put and delete; convert/to_key read nothing but their arguments and self.prefix (no clock/config/global/cache decorator)",
        floor=5,
    )
    base_clear = program.func("nostr_relay.storage.kv:Index.clear")
    base_write = program.func("nostr_relay.storage.kv:Index.write")
    # Index.clear delegates
    c = next((c for c in ast.walk(base_clear) if isinstance(c, ast.Call) and call_name(c) == "self.write"), None)
    if c is not None and any(k.arg == "operation" and isinstance(k.value, ast.Constant) and k.value.value == "delete" for k in c.keywords) and [dotted(a) for a in c.args] == ["event", "txn"]:
        ctx.ok(rid, base_clear, "Index.clear -> self.write(event, txn, operation='delete')")
    else:
        ctx.bad(finding_func(P, rid, base_clear, "Index.clear no longer deletes through write(…, operation=\"delete\"): deleted events keep their index entries", text="def clear(...)"))
    # Index.write: one key expression, one func
    gets = [s for s in walk_no_nested(base_write) if isinstance(s, ast.Assign) and isinstance(s.value, ast.Call) and call_name(s.value) == "getattr" and dotted(s.value.args[0]) == "txn" and dotted(s.value.args[1]) == "operation"]
    loop = next((l for l in walk_no_nested(base_write) if isinstance(l, ast.For) and ast.unparse(l.iter) == "self.convert(event)"), None)
    if gets and loop is not None and not any(isinstance(n, ast.If) for n in ast.walk(loop)):
        ctx.ok(rid, base_write, "Index.write: func = getattr(txn, operation); same key for put and delete, for every convert(event) key")
    else:
        ctx.bad(finding_func(P, rid, base_write, "Index.write no longer applies one operation to every key of convert(event): put and delete can address different keys", text="def write(...)"))
    for name, ci, node in registry(program):
        if ci is None:
            ctx.bad(finding_at(P, rid, node, f"INDEXES[{name!r}] is not an index class of kv.py"))
            continue
        if name == "search":
            ctx.info(rid, ci.node, "FTSIndex lives outside the LMDB keyspace (see C07.foreign)")
            continue
        clr = program.resolve_method(ci, "clear")
        wr = program.resolve_method(ci, "write")
        if clr is base_clear:
            ctx.ok(rid, ci.node, f"{ci.node.name}.clear is Index.clear")
        else:
            keys_w = {ast.unparse(c.args[0]) for c in ast.walk(wr) if isinstance(c, ast.Call) and isinstance(c.func, ast.Attribute) and c.func.attr in ("put",) and c.args}
            keys_c = {ast.unparse(c.args[0]) for c in ast.walk(clr) if isinstance(c, ast.Call) and isinstance(c.func, ast.Attribute) and c.func.attr in ("delete",) and c.args}
            if keys_w and keys_w == keys_c:
                ctx.ok(rid, clr, f"{ci.node.name}.clear override deletes the key write puts")
            else:
                ctx.bad(finding_func(P, rid, clr, f"{ci.node.name}.clear does not delete the keys its write() puts ({sorted(keys_c)} vs {sorted(keys_w)}): removed events stay reachable through this index", text="def clear(...)"))
        if wr is not base_write:
            puts = [ast.unparse(c.args[0]) for c in ast.walk(wr) if isinstance(c, ast.Call) and isinstance(c.func, ast.Attribute) and c.func.attr == "put" and c.args]
            dels = [ast.unparse(c.args[0]) for c in ast.walk(wr) if isinstance(c, ast.Call) and isinstance(c.func, ast.Attribute) and c.func.attr == "delete" and c.args]
            ops = {k.value for k in ast.walk(wr) if isinstance(k, ast.Constant) and k.value in ("put", "delete")}
            if puts and puts == dels and ops == {"put", "delete"}:
                ctx.ok(rid, wr, f"{ci.node.name}.write: put and delete use `{puts[0]}`")
            else:
                ctx.bad(finding_func(P, rid, wr, f"{ci.node.name}.write puts {puts} but deletes {dels}: a deleted event's primary record (or its entry) survives", text="def write(...)"))
        for mname in ("convert", "to_key"):
            fn = ci.methods.get(mname) or program.resolve_method(ci, mname)
            if fn is None:
                continue
            if fn.decorator_list:
                ctx.bad(finding_func(P, rid, fn, f"{ci.node.name}.{mname} is decorated ({ast.unparse(fn.decorator_list[0])}): a cache keyed by equality makes 1, True and 1.0 share one key, "
                                     "and a cold cache at deletion time derives other keys than the ones written", text=f"def {mname}(...) :: decorator"))
                continue
            params = {a.arg for a in fn.args.args}
            impure = []
            for n in ast.walk(fn):
                if isinstance(n, ast.Call) and call_name(n).split(".")[-1] in IMPURE:
                    impure.append(n)
                if isinstance(n, ast.Name) and isinstance(n.ctx, ast.Load) and n.id in ("Config", "os", "INDEXES") :
                    impure.append(n)
                if isinstance(n, ast.Attribute) and isinstance(n.value, ast.Name) and n.value.id == "self" and n.attr not in ("prefix", "to_key", "convert", "_encode"):
                    impure.append(n)
            if impure:
                ctx.bad(finding_at(P, rid, impure[0], f"{ci.node.name}.{mname} reads `{ast.unparse(impure[0])[:40]}`: the keys derived when the event is deleted differ from the keys written"))
            else:
                ctx.ok(rid, fn, f"{ci.node.name}.{mname}: function of its arguments only")
    # TagIndex value normalisation is the same on both sides because both go through convert(); it must stringify non-str values
    tc = program.func("nostr_relay.storage.kv:TagIndex.convert")
    if any(isinstance(c, ast.Call) and call_name(c) == "str" and "tag[1]" in ast.unparse(c) for c in ast.walk(tc)):
        ctx.ok(rid, tc, "TagIndex.convert normalises the value with str(tag[1])")
    else:
        ctx.bad(finding_func(P, rid, tc, "TagIndex.convert no longer normalises tag values with str(): non-string values (1, True) raise in to_key or collide", text="def convert(...) :: str"))


def rule_samelist(program, ctx):
    rid = ctx.rule(
        "C10.samelist",
        "WriterThread: the add loop iterates `self.write_indexes` calling index.write(event, txn); _delete_event iterates the same attribute "
        "calling index.clear(event, txn); write_indexes = every enabled member of INDEXES (IdIndex included, enabled by default)",
        floor=2,
    )
    run = program.func("nostr_relay.storage.kv:WriterThread.run")
    de = program.func("nostr_relay.storage.kv:WriterThread._delete_event")
    init = program.func("nostr_relay.storage.kv:WriterThread.__init__")

    def loop_attr(fn, meth):
        for l in ast.walk(fn):
            if isinstance(l, ast.For) and any(isinstance(c, ast.Call) and isinstance(c.func, ast.Attribute) and c.func.attr == meth and isinstance(l.target, ast.Name) and dotted(c.func.value) == l.target.id for c in ast.walk(l)):
                it = l.iter
                if isinstance(it, ast.Call) and call_name(it) in ("reversed", "list", "tuple") and it.args:
                    it = it.args[0]
                filt = any(isinstance(n, (ast.If, ast.Continue, ast.Break)) for n in ast.walk(ast.Module(body=l.body, type_ignores=[])))
                return dotted(it), l, filt
        return None, None, False

    a1, l1, f1 = loop_attr(run, "write")
    a2, l2, f2 = loop_attr(de, "clear")
    if a1 is None or a2 is None:
        ctx.bad(finding_func(P, rid, run if a1 is None else de, "the add or delete path no longer iterates the index list", text="index loops"))
        return
    if a1 == a2 == "self.write_indexes" and not f1 and not f2:
        ctx.ok(rid, l1, "add: for index in self.write_indexes: index.write(event, txn)")
        ctx.ok(rid, l2, "delete: for index in reversed(self.write_indexes): index.clear(event, txn)")
    else:
        ctx.bad(finding_at(P, rid, l2, f"the delete path iterates `{a2}`{' conditionally' if f2 else ''} while the add path iterates `{a1}`{' conditionally' if f1 else ''}: "
                           "some entries written on add are not removed on delete (dangling index entries) or vice versa"))
    wi = [s for s in ast.walk(init) if isinstance(s, ast.Assign) and dotted(s.targets[0]) == "self.write_indexes"]
    if wi and ast.unparse(wi[0].value) == "[i for i in INDEXES.values() if i.enabled]":
        ctx.ok(rid, wi[0], "write_indexes = enabled members of INDEXES")
    else:
        ctx.bad(finding_func(P, rid, init, "write_indexes is no longer every enabled member of INDEXES", text="def __init__(...) :: write_indexes"))
    base = program.cls("nostr_relay.storage.kv:Index")
    en = [s for s in base.node.body if isinstance(s, ast.Assign) and dotted(s.targets[0]) == "enabled"]
    idi = program.cls("nostr_relay.storage.kv:IdIndex")
    if en and isinstance(en[0].value, ast.Constant) and en[0].value.value is True and not any(isinstance(s, ast.Assign) and dotted(s.targets[0]) == "enabled" for s in idi.node.body):
        ctx.ok(rid, en[0], "indexes (the primary record index included) are enabled by default")
    else:
        ctx.bad(finding_at(P, rid, base.node, "the primary-record index can be disabled: index entries without records"))


def rule_callers(program, ctx):
    rid = ctx.rule(
        "C10.owner",
        "`.clear(event, txn)` of an index only from WriterThread._delete_event; `_delete_event` only from the writer's transaction; "
        "index-only writes (writer operations 'reindex' / 'bulk_update', LMDBStorage.reindex) are requested only for the constant index name "
        "\"search\" (an index outside the keyspace): re-indexing a keyspace index races with deletions and leaves dangling entries",
        floor=1,
    )
    kv = program.module("nostr_relay.storage.kv")
    for c in ast.walk(kv.tree):
        if isinstance(c, ast.Call) and isinstance(c.func, ast.Attribute) and c.func.attr == "clear" and len(c.args) == 2 and dotted(c.args[1]) == "txn":
            q = qual_of(c)
            if q == "WriterThread._delete_event":
                ctx.ok(rid, c, "index.clear from _delete_event")
            else:
                ctx.bad(finding_at(P, rid, c, f"an index is cleared from {q}: entries of one index are removed while the record and the other entries stay"))
    for m, c in all_calls(program):
        if isinstance(c.func, ast.Attribute) and c.func.attr == "reindex" and c.args:
            a = c.args[0]
            if isinstance(a, ast.Constant) and a.value == "search":
                ctx.ok(rid, c, f"reindex(\"search\") from {qual_of(c)}")
            else:
                ctx.bad(finding_at(P, rid, c, f"reindex({ast.unparse(a)}) from {qual_of(c)}: an index inside the LMDB keyspace is rewritten without its records' transaction"))
        if call_name(c).endswith("writer_queue.put") and c.args and isinstance(c.args[0], ast.Tuple) and isinstance(c.args[0].elts[0], ast.Constant) and c.args[0].elts[0].value in ("reindex", "bulk_update"):
            q = qual_of(c)
            if q == "LMDBStorage.reindex":
                ctx.ok(rid, c, f"{c.args[0].elts[0].value} task enqueued by LMDBStorage.reindex only")
            else:
                ctx.bad(finding_at(P, rid, c, f"index-only write task enqueued from {q}"))


def rule_keyspace(program, ctx):
    rid = ctx.rule(
        "C10.keyspace",
        "key-space table: every keyspace index class has a one-byte prefix; prefixes are pairwise distinct and sort below the tombstone key "
        "written by write_tombstone; setup() calls write_tombstone() before writer_thread.start(); TagIndex.convert indexes one-character tag "
        "names plus 'expiration' and 'delegation' (what REQ '#x' filters and the garbage collector look up)",
        floor=2,
    )
    prefixes = {}
    for name, ci, node in registry(program):
        if ci is None or name == "search":
            continue
        pre = next((s.value.value for s in ci.node.body if isinstance(s, ast.Assign) and dotted(s.targets[0]) == "prefix" and isinstance(s.value, ast.Constant)), None)
        if not isinstance(pre, bytes) or len(pre) != 1:
            ctx.bad(finding_at(P, rid, ci.node, f"{ci.node.name}.prefix is {pre!r}: not a single byte (the scanners test key[0:1] == prefix and concatenate it)"))
            continue
        if pre in prefixes:
            ctx.bad(finding_at(P, rid, ci.node, f"{ci.node.name} and {prefixes[pre]} share the prefix {pre!r}: their entries interleave, scans of one return keys of the other"))
        else:
            prefixes[pre] = ci.node.name
            ctx.ok(rid, ci.node, f"{ci.node.name}.prefix = {pre!r}")
    wt = program.func("nostr_relay.storage.kv:LMDBStorage.write_tombstone")
    tomb = next((c.args[0].value for c in ast.walk(wt) if isinstance(c, ast.Call) and isinstance(c.func, ast.Attribute) and c.func.attr == "put" and c.args and isinstance(c.args[0], ast.Constant)), None)
    if isinstance(tomb, bytes) and all(p < tomb for p in prefixes):
        ctx.ok(rid, wt, f"tombstone {tomb!r} sorts after every index prefix")
    else:
        ctx.bad(finding_func(P, rid, wt, f"tombstone key {tomb!r} does not sort after every index prefix: set_range past the last key of the highest index returns False and the scan is skipped", text="def write_tombstone(...)"))
    ge = program.func("nostr_relay.storage.kv:get_event_data")
    idp = next((p for p, n in prefixes.items() if n == "IdIndex"), None)
    from ..lib import bytes_prefix_of

    lit = bytes_prefix_of(ge)
    if lit == idp:
        ctx.ok(rid, ge, "get_event_data reads under IdIndex.prefix")
    else:
        ctx.bad(finding_func(P, rid, ge, f"get_event_data reads under {lit!r} but records are written under IdIndex.prefix {idp!r}", text="def get_event_data(...)"))
    su = program.func("nostr_relay.storage.kv:LMDBStorage.setup")
    cfg = cfg_of(su)
    tn = {n: set(NORMAL) for n in cfg.stmt_nodes(lambda s: any(call_name(c) == "self.write_tombstone" for c in own_calls(s)), kinds=("stmt",))}
    st = cfg.stmt_nodes(lambda s: any(call_name(c).endswith("writer_thread.start") for c in own_calls(s)), kinds=("stmt",))
    if st and tn and not must_pass(cfg, tn, st):
        ctx.ok(rid, su, "tombstone written before the writer thread starts")
    else:
        ctx.bad(finding_func(P, rid, su, "the writer thread can start before the tombstone is written", text="def setup(...) :: tombstone order"))
    tc = program.func("nostr_relay.storage.kv:TagIndex.convert")
    # the conditions under which a key is yielded, with loop-local names read through (`name = tag[0]`); their admissibility (shape tests only) is C10.tagindex
    from ..lib import expand_aliases as _ea, guard_atoms as _ga
    conds = []
    for y in [y for y in ast.walk(tc) if isinstance(y, ast.Yield)]:
        lp = next((a for a in ancestors(y) if isinstance(a, ast.For)), tc)
        conds += [ast.unparse(_ea(tc, e)) for e, pol in _ga(y, stop=lp) if pol]
    txt = " ; ".join(conds)
    if re.search(r"len\(\w+\[0\]\) == 1", txt) and "'expiration'" in txt and "'delegation'" in txt:
        ctx.ok(rid, tc, "TagIndex.convert: one-character names + expiration + delegation, tags with a value")
    else:
        ctx.bad(finding_func(P, rid, tc, "TagIndex.convert no longer indexes exactly one-character names, 'expiration' and 'delegation': '#x' filters or the garbage collector miss events", text="def convert(...) :: coverage"))


def rule_injective(program, ctx, prop=P, rid="C10.injective"):
    ctx.rule(
        rid,
        "index key derivations are injective on the indexed field: in every to_key of the INDEXES classes an integer is rendered by `<value>.to_bytes(4, 'big')` applied to "
        "the field itself (out-of-range values raise and abort the task) - no mask, modulo, clamp or abs() in front of it, which would file an event under a kind / "
        "timestamp it does not have; PubkeyIndex/AuthorKindIndex/KindIndex/CreatedIndex.convert yield exactly one key, derived from the event's own field",
        floor=4,
    )
    kv = program.module("nostr_relay.storage.kv")
    want = {"CreatedIndex": "event.created_at", "KindIndex": "event.kind", "PubkeyIndex": "event.pubkey", "AuthorKindIndex": "(event.pubkey, event.kind)", "IdIndex": None}
    seen_wr = set()
    for name, ci, node in registry(program):
        if ci is None:
            continue
        tk = ci.methods.get("to_key")
        if tk is not None:
            for c in ast.walk(tk):
                if isinstance(c, ast.Call) and isinstance(c.func, ast.Attribute) and c.func.attr == "to_bytes":
                    recv = c.func.value
                    lossy = [b for b in ast.walk(recv) if isinstance(b, ast.BinOp) and isinstance(b.op, (ast.BitAnd, ast.Mod, ast.FloorDiv, ast.RShift, ast.BitOr))] + \
                            [b for b in ast.walk(recv) if isinstance(b, ast.Call) and call_name(b) in ("abs", "min", "max", "int")]
                    if lossy:
                        ctx.bad(finding_at(prop, rid, c, f"{ci.node.name}.to_key renders `{ast.unparse(recv)[:50]}`: different field values share a key - an event is indexed (and later found, "
                                           "superseded or garbage-collected) under a value it does not have"))
                    else:
                        ctx.ok(rid, c, f"{ci.node.name}.to_key: {ast.unparse(c)[:60]}")
        wr = program.func_opt("nostr_relay.storage.kv:Index.write")
        if wr is not None and id(wr) not in seen_wr:
            seen_wr.add(id(wr))
            loop = next((l for l in walk_no_nested(wr) if isinstance(l, ast.For) and "convert" in ast.unparse(l.iter) and isinstance(l.target, ast.Name)), None)
            if loop is None:
                ctx.bad(finding_func(prop, rid, wr, "Index.write no longer iterates self.convert(event)", text="def write(...) :: convert"))
            else:
                kv_ = loop.target.id
                for b in ast.walk(loop):
                    if isinstance(b, ast.BinOp) and isinstance(b.op, ast.Mod) and isinstance(b.left, ast.Constant) and isinstance(b.left.value, bytes):
                        first = b.right.elts[0] if isinstance(b.right, ast.Tuple) and b.right.elts else b.right
                        if dotted(first) == kv_:
                            ctx.ok(rid, b, "entry = <converted key> \\0 <created_at> \\0 <id>, key unmodified")
                        else:
                            ctx.bad(finding_at(prop, rid, b, f"the index entry is built from `{ast.unparse(first)[:40]}`, not from the converted key itself: a shortened key files the event under a "
                                               "value it does not have (scans use the full value and never find it)"))
        cv = ci.methods.get("convert")
        if cv is not None and ci.node.name in want and want[ci.node.name]:
            ys = [y for y in walk_no_nested(cv) if isinstance(y, ast.Yield)]
            loops = [l for l in walk_no_nested(cv) if isinstance(l, (ast.For, ast.While))]
            if len(ys) == 1 and not loops and isinstance(ys[0].value, ast.Call) and call_name(ys[0].value) == "self.to_key" and ast.unparse(ys[0].value.args[0]) == want[ci.node.name]:
                ctx.ok(rid, ys[0], f"{ci.node.name}.convert yields the single key of {want[ci.node.name]}")
            else:
                ctx.bad(finding_func(prop, rid, cv, f"{ci.node.name}.convert no longer yields exactly one key for {want[ci.node.name]}: the index also lists the event under other authors/kinds "
                                     "(the supersede scan of WriterThread._post_save treats every hit as an older version by the same author)", text=f"def convert(...) :: {ci.node.name}"))


def rule_registry_fixed(program, ctx, prop=P, rid="C10.registry"):
    ctx.rule(
        rid,
        "the key generators that write an entry are the ones that clear it, whenever that happens: kv.INDEXES is populated once in kv.py and never re-assigned from outside "
        "(a recipe installing its own TagIndex subclass), and no `convert` / `to_key` of an index class - including subclasses anywhere in the package - reads configuration "
        "(Config.*): entries written under yesterday's whitelist are not the entries derived for deletion under today's",
        floor=1,
    )
    n = 0
    for m in program.modules.values():
        if not m.name.startswith("nostr_relay"):
            continue
        for x in ast.walk(m.tree):
            tg = x.targets if isinstance(x, ast.Assign) else [x.target] if isinstance(x, ast.AugAssign) else []
            for t in tg:
                if isinstance(t, ast.Subscript) and dotted(t.value).split(".")[-1] == "INDEXES" and m.name != "nostr_relay.storage.kv":
                    n += 1
                    ctx.bad(finding_at(prop, rid, x, f"{m.name.split('.')[-1]} replaces an entry of kv.INDEXES (`{ast.unparse(x)[:60]}`): records indexed before the swap are cleared with another key generator"))
    base = program.cls("nostr_relay.storage.kv:Index")
    for ci in program.subclasses(base):
        for name in ("convert", "to_key"):
            fn = ci.methods.get(name)
            if fn is None:
                continue
            cfgs = [a for a in ast.walk(fn) if isinstance(a, ast.Attribute) and isinstance(a.value, ast.Name) and a.value.id == "Config"]
            if cfgs:
                n += 1
                ctx.bad(finding_at(prop, rid, cfgs[0], f"{ci.node.name}.{name} reads `{ast.unparse(cfgs[0])}`: the keys derived for an event change with the configuration, so entries written earlier "
                                   "are not found for deletion later"))
    if not n:
        ctx.ok(rid, base.node, "index registry fixed; key generators are functions of the event alone")


def rule_render(program, ctx, prop=P, rid="C10.render"):
    ctx.rule(
        rid,
        "the key under which a tag is indexed must be derivable again from the stored record: TagIndex.convert renders the value with str(), which is the identity on "
        "strings but spells a JSON array as \"['a']\" for the list the wire event carries and \"('a',)\" for the tuple get_event_data returns (unpackb(..., use_list=False)) - "
        "the entry written on add is not the entry cleared on delete. Sound only if the value is known to be a str, the rendering is container-type independent "
        "(json), or records are read back as lists",
        floor=1,
    )
    cv = program.func("nostr_relay.storage.kv:TagIndex.convert")
    ge = program.func("nostr_relay.storage.kv:get_event_data")
    tuples_on_read = any(isinstance(c, ast.Call) and call_name(c).split(".")[-1] == "unpackb" and any(k.arg == "use_list" and isinstance(k.value, ast.Constant) and k.value.value is False for k in c.keywords)
                         for c in ast.walk(ge))
    from ..lib import guard_atoms
    n = 0
    for c in ast.walk(cv):
        if isinstance(c, ast.Call) and isinstance(c.func, ast.Name) and c.func.id == "str" and c.args and isinstance(c.args[0], ast.Subscript):
            n += 1
            v = ast.unparse(c.args[0])
            typed = any(pol and isinstance(e, ast.Call) and call_name(e) == "isinstance" and ast.unparse(e.args[0]) == v and "str" in ast.unparse(e.args[1]) for e, pol in guard_atoms(c, stop=cv))
            if tuples_on_read and not typed:
                ctx.bad(finding_func(prop, rid, cv, f"`{ast.unparse(c)}` renders a nested array by its Python container type: the wire event has a list, the stored record (use_list=False) a tuple - "
                                   "the index entry of a tag whose value is a JSON array is written under one key and cleared under another; it dangles after deletion / replacement",
                                   text="str() of a tag value that may be an array"))
            else:
                ctx.ok(rid, c, f"{ast.unparse(c)}: same rendering on add and on delete")
    if not n:
        ctx.ok(rid, cv, "no str() rendering of tag values")


def run(program, ctx):
    from ..lib import rule_awaited

    rule_awaited(program, ctx, P, ANCHORS)
    rule_symmetric(program, ctx)
    rule_samelist(program, ctx)
    c07.rule_owner(program, ctx, prop=P, rid="C10.txn")
    rule_callers(program, ctx)
    rule_keyspace(program, ctx)
    rule_injective(program, ctx)
    rule_render(program, ctx)
    rule_registry_fixed(program, ctx)
    from . import c04 as _c04i

    # the stored record is re-read to derive the keys to clear: nothing between admission and the writer may rewrite the event's tags
    _c04i.rule_immutable(program, ctx, prop=P, rid="C10.immutable")
    c07.rule_ctxmgr(program, ctx, prop=P, rid="C10.ctxmgr")
    from . import c01

    # the tag keys re-derived from the stored record (tuples, not lists) for deletion are the keys that were written
    c01.rule_tagindex(program, ctx, prop=P, rid="C10.tagindex")
    from . import c04 as _c04

    # index entries are deleted with keys re-derived from the *stored record*: the record must hold the event's fields exactly as they were indexed
    _c04.rule_kvcodec(program, ctx, prop=P, rid="C10.kvcodec")
    # one region / no swallowing handler: same constructs as C07.kvregion
    ridr = ctx.rule("C10.region", "all index mutations of one task inside one write transaction, no handler inside it swallows a failed write (see C07.kvregion)", floor=1)
    run_fn = program.func("nostr_relay.storage.kv:WriterThread.run")
    regions = [w for w in walk_no_nested(run_fn) if isinstance(w, ast.With) and any(isinstance(i.context_expr, ast.Call) and call_name(i.context_expr).endswith(".begin") for i in w.items)]
    bad = False
    for r in regions:
        for t in ast.walk(r):
            if isinstance(t, ast.Try) and t.handlers and any(not isinstance(h.body[-1], ast.Raise) for h in t.handlers):
                bad = True
                ctx.bad(finding_at(P, ridr, t, "a handler inside the write transaction swallows a failed index write: the transaction commits a record without some of its entries (or entries without the record)"))
    for c in walk_no_nested(run_fn):
        if isinstance(c, ast.Call) and isinstance(c.func, ast.Attribute) and c.func.attr in ("write", "_post_save", "_delete_event", "bulk_update") and not any(a in regions for a in ancestors(c)):
            bad = True
            ctx.bad(finding_at(P, ridr, c, f"{call_name(c)} outside the write transaction"))
    if len(regions) == 1 and not bad:
        ctx.ok(ridr, regions[0], "single write transaction per task, no swallowing handler inside")
    elif len(regions) != 1:
        ctx.bad(finding_func(P, ridr, run_fn, f"{len(regions)} write transactions per task", text="def run(...) :: regions"))
    ctx.not_decided += [
        "coherence after arbitrary histories as a runtime invariant (crash recovery of LMDB itself)",
        "stability of str(tag[1]) through msgpack for exotic values",
    ]


KV = "nostr_relay/storage/kv.py"

MUTANTS = [
    M("c10-convert-reads-config", "nostr_relay/storage/kv.py", "            if len(tag) >= 2 and (\n                len(tag[0]) == 1 or tag[0] in (\"expiration\", \"delegation\")\n            ):", "            if len(tag) >= 2 and (\n                len(tag[0]) == 1 or tag[0] in (\"expiration\", \"delegation\")\n            ) and tag[0] not in (Config.get(\"unindexed_tags\") or ()):", "C10.registry"),
    M("c10-key-rstripped", "nostr_relay/storage/kv.py", "            to_save = b\"%s\\x00%s\\x00%s\" % (key, ctime, event_id)", "            to_save = b\"%s\\x00%s\\x00%s\" % (key.rstrip(b\"\\x00\"), ctime, event_id)", "C10.injective"),
    M("c10-dup-prefix", KV, "class AuthorKindIndex(Index):\n    prefix = b\"\\x04\"", "class AuthorKindIndex(Index):\n    prefix = b\"\\x03\"", "C10.keyspace", canary=True),
    M("c10-prefix-above-tombstone", KV, "class TagIndex(Index):\n    prefix = b\"\\x09\"", "class TagIndex(Index):\n    prefix = b\"\\xf0\"", "C10.keyspace"),
    M("c10-clear-noop", KV, "class KindIndex(Index):\n    prefix = b\"\\x02\"\n", "class KindIndex(Index):\n    prefix = b\"\\x02\"\n\n    def clear(self, event, txn):\n        pass\n", "C10.symmetric"),
    M("c10-clear-put", KV, "        self.write(event, txn, operation=\"delete\")", "        self.write(event, txn, operation=\"put\")", "C10.symmetric"),
    M("c10-idindex-delete-other-key", KV, "            txn.delete(self.to_key(event.id))", "            txn.delete(self.to_key(event.pubkey))", "C10.symmetric"),
    M("c10-convert-clock", KV, "    def convert(self, event: Event):\n        yield self.to_key(event.created_at)", "    def convert(self, event: Event):\n        yield self.to_key(event.created_at or int(time()))", "C10.symmetric"),
    M("c10-convert-cached", KV, "    def to_key(self, value: tuple[str, str]) -> bytes:\n        return b\"%s%s\\x00%s\" % (self.prefix, value[0].encode(), value[1].encode())", "    @functools.lru_cache(maxsize=4096)\n    def to_key(self, value: tuple[str, str]) -> bytes:\n        return b\"%s%s\\x00%s\" % (self.prefix, value[0].encode(), value[1].encode())", "C10.symmetric"),
    M("c10-delete-other-list", KV, "        for index in reversed(self.write_indexes):\n            index.clear(event, txn)", "        for index in INDEXES.values():\n            index.clear(event, txn)", "C10.samelist"),
    M("c10-delete-skips-tags", KV, "        for index in reversed(self.write_indexes):\n            index.clear(event, txn)", "        for index in reversed(self.write_indexes):\n            if index.cardinality > 50:\n                continue\n            index.clear(event, txn)", "C10.samelist"),
    M("c10-txn-delete-direct", KV, "                        if candidate:\n                            self._delete_event(txn, candidate, log)", "                        if candidate:\n                            txn.delete(b\"\\x00\" + event_id)", "C10.txn"),
    M("c10-tombstone-late", KV, "        self.write_tombstone()\n        self.writer_thread = WriterThread(self.db, self.stat_collector)\n        self.writer_queue = self.writer_thread.queue\n        self.writer_thread.start()\n",
      "        self.writer_thread = WriterThread(self.db, self.stat_collector)\n        self.writer_queue = self.writer_thread.queue\n        self.writer_thread.start()\n        self.write_tombstone()\n", "C10.keyspace"),
    M("c10-reindex-tags", "nostr_relay/cli.py", "await storage.reindex(\"search\", since=since, until=until, batch_size=batch)", "await storage.reindex(\"tags\", since=since, until=until, batch_size=batch)", "C10.owner"),
    M("c10-per-index-try", KV, "                            for index in self.write_indexes:\n                                index.write(event, txn)\n", "                            for index in self.write_indexes:\n                                try:\n                                    index.write(event, txn)\n                                except Exception:\n                                    log.exception(\"index\")\n", "C10.region"),
]
EQUIVS = []

# functions whose syntactic mutants are used for the thorough tier's sensitivity figure (sa/automut.py)
ANCHORS = [
    "nostr_relay.storage.kv:Index.write",
    "nostr_relay.storage.kv:Index.clear",
    "nostr_relay.storage.kv:IdIndex.write",
    "nostr_relay.storage.kv:TagIndex.convert",
    "nostr_relay.storage.kv:TagIndex.to_key",
    "nostr_relay.storage.kv:WriterThread.run",
    "nostr_relay.storage.kv:WriterThread._delete_event",
    "nostr_relay.storage.kv:LMDBStorage.setup",
    "nostr_relay.storage.kv:LMDBStorage.write_tombstone",
]
