"""C13 - subscription protocol: one EOSE per REQ; CLOSE / replacement / disconnect end delivery.

  C13.eose       every run_query of a subscription class reaches the (sub_id, None) sentinel on every
                 non-cancellation path that leaves the function, and at most once
  C13.total      every normal exit of BaseStorage.subscribe has started a subscription or queued the
                 sentinel itself; it raises only types the connection handler answers with a NOTICE
  C13.limit      the subscription_limit test precedes the registry insertion on every path and compares
                 len() of the same dict with >= / ==
  C13.replace    a REQ reusing an id drops the old subscription on every path that answers the REQ
  C13.cancel     unsubscribe cancels before deleting; the handler's finally drops the registry entry and
                 cancels + awaits the sender
  C13.sender     the sender maps None -> EOSE frame with the dequeued id, events -> EVENT frame; a
                 dequeued sentinel is never dropped
  C13.liveness   no delivery after close: a liveness test on the notify->put or get->send path
"""
from __future__ import annotations

import ast

from ..cfg import cfg_of
from ..core import (
    AnalysisError,
    ancestors,
    call_name,
    dotted,
    enclosing_stmt,
    finding_at,
    finding_func,
    norm,
    own_calls,
    own_nodes,
    qual_of,
    walk_no_nested,
)
from ..lib import NORMAL, all_calls, implied, must_pass, stores_of, strip_await, test_edges
from ..selftest import E, M

P = "C13"


def is_sentinel_put(call: ast.Call) -> bool:
    nm = call_name(call)
    if not (nm.endswith("put") or nm.endswith("put_nowait")):
        return False
    if "writer_queue" in nm:
        return False
    if not call.args or not isinstance(call.args[0], ast.Tuple) or len(call.args[0].elts) != 2:
        return False
    second = call.args[0].elts[1]
    return isinstance(second, ast.Constant) and second.value is None


def sentinel_nodes(cfg) -> list:
    out = []
    for n, d in cfg.g.nodes(data=True):
        s = d["ast"]
        if s is not None and d["kind"] == "stmt" and any(is_sentinel_put(c) for c in own_calls(s)):
            out.append(n)
    return out


def subscription_classes(program):
    base = program.cls("nostr_relay.storage.base:BaseSubscription")
    return program.subclasses(base, strict=True)


def rule_eose(program, ctx):
    rid = ctx.rule(
        "C13.eose",
        "each run_query of a BaseSubscription subclass: with the sentinel put nodes removed, neither the normal exit nor the "
        "exceptional exit is reachable on non-cancellation edges (an error while streaming stored events still ends in EOSE); "
        "no path passes two sentinel puts",
        floor=2,
    )
    classes = subscription_classes(program)
    if len(classes) < 2:
        raise AnalysisError("fewer than two subscription classes found")
    for ci in classes:
        fn = ci.methods.get("run_query")
        if fn is None:
            continue
        cfg = cfg_of(fn)
        sent = sentinel_nodes(cfg)
        if not sent:
            ctx.bad(finding_func(P, rid, fn, "run_query never queues the (sub_id, None) sentinel: the REQ is never answered with EOSE", text="def run_query(...)"))
            continue
        # exceptional edges that matter here: await points, async iteration, and calls of the
        # operator-supplied output validator; plain constructor/logger calls are not failure points
        user_calls = {"check_output"}

        def edge_ok(n, m, ek, cfg=cfg):
            if ek & NORMAL:
                return True
            s = cfg.ast_of(n)
            if s is None or cfg.kind_of(n) == "reraise":
                return True  # an exception already in flight continues through finally
            if cfg.kind_of(n) == "with_exit":
                return False
            if isinstance(s, (ast.AsyncFor, ast.AsyncWith, ast.Raise)):
                return True
            for x in own_nodes(s):
                if isinstance(x, ast.Await):
                    return True
                if isinstance(x, ast.Call) and call_name(x).split(".")[-1] in user_calls:
                    return True
            return False

        path = cfg.find_path([cfg.entry], [cfg.exit, cfg.raise_exit], avoid_nodes=sent, kinds=NORMAL | {"exc"}, edge_ok=edge_ok)
        if path:
            # name the first statement from which the sentinel is bypassed
            last_stmt = next((cfg.ast_of(n) for n in reversed(path) if cfg.ast_of(n) is not None), fn)
            ctx.bad(finding_func(P, rid, fn,
                                 "a path leaves run_query without queueing the EOSE sentinel (an exception from the output validator, the "
                                 "result iteration or queue.put ends the task silently: the REQ is met with silence)",
                                 text="def run_query(...) :: sentinel not on every exit", path=cfg.describe_path(path)[-6:],
                                 escapes_at=norm(last_stmt)))
        else:
            ctx.ok(rid, fn, f"{ci.qual.split(':')[1]}.run_query: sentinel on every non-cancellation exit")
        # at most once
        twice = False
        for s in sent:
            succs = list(cfg.succ(s, kinds=NORMAL))
            if set(sent) & cfg.reach(succs, kinds=NORMAL | {"exc"}):
                twice = True
                ctx.bad(finding_at(P, rid, cfg.ast_of(s), "a second EOSE sentinel is reachable after this one on the same path"))
        if not twice:
            ctx.ok(rid, fn, f"{ci.qual.split(':')[1]}.run_query: at most one sentinel per path")
        # the sentinel carries this subscription's id
        for s in sent:
            st = cfg.ast_of(s)
            c = next(c for c in own_calls(st) if is_sentinel_put(c))
            first = c.args[0].elts[0]
            src = dotted(first)
            okid = src == "self.sub_id"
            if isinstance(first, ast.Name):
                defs = stores_of(fn, first.id)
                okid = bool(defs) and all(isinstance(d, ast.Assign) and dotted(d.value) == "self.sub_id" for d in defs)
            if not okid:
                ctx.bad(finding_at(P, rid, st, "the sentinel does not carry self.sub_id"))


def rule_total(program, ctx):
    rid = ctx.rule(
        "C13.total",
        "BaseStorage.subscribe: with `sub.start()` and sentinel-put nodes removed the normal exit is unreachable; explicit raises "
        "are StorageError/AuthenticationError and start_client's per-message try answers both with a NOTICE frame",
        floor=2,
    )
    fn = program.func("nostr_relay.storage.base:BaseStorage.subscribe")
    cfg = cfg_of(fn)
    answered = sentinel_nodes(cfg)
    for n, d in cfg.g.nodes(data=True):
        s = d["ast"]
        if s is not None and d["kind"] == "stmt":
            for c in own_calls(s):
                if isinstance(c.func, ast.Attribute) and c.func.attr == "start" and not c.args:
                    answered.append(n)
    path = cfg.find_path([cfg.entry], [cfg.exit], avoid_nodes=answered)
    if path:
        last = next((cfg.ast_of(n) for n in reversed(path) if cfg.ast_of(n) is not None), fn)
        ctx.bad(finding_at(P, rid, last, "subscribe can return normally without starting a subscription or queueing EOSE: the REQ is met with silence",
                           path=cfg.describe_path(path)[-6:]))
    else:
        ctx.ok(rid, fn, "every normal exit of subscribe started a subscription or queued the sentinel")
    raised = set()
    for r in walk_no_nested(fn):
        if isinstance(r, ast.Raise) and r.exc is not None:
            nm = (call_name(r.exc) if isinstance(r.exc, ast.Call) else dotted(r.exc)).split(".")[-1]
            raised.add(nm)
            if nm not in ("StorageError", "AuthenticationError"):
                ctx.bad(finding_at(P, rid, r, f"subscribe raises {nm}, which the connection handler does not answer with a NOTICE"))
            else:
                ctx.ok(rid, r, f"refusal raises {nm}")
    sc = program.func("nostr_relay.web:start_client")
    handled = set()
    for h in ast.walk(sc):
        if isinstance(h, ast.ExceptHandler) and h.type is not None:
            from ..cfg import handler_names
            names = {x.split(".")[-1] for x in handler_names(h)}
            if names & {"StorageError", "AuthenticationError"}:
                sends_notice = any(
                    isinstance(c, ast.Call) and call_name(c) == "ws_send" and "NOTICE" in {k.value for k in ast.walk(c) if isinstance(k, ast.Constant)}
                    for c in ast.walk(h)
                )
                # only the per-message handlers (not the EVENT branch's inner try)
                if sends_notice:
                    handled |= names
                    ctx.ok(rid, h, f"{norm(h)} -> NOTICE frame")
    for nm in raised & {"StorageError", "AuthenticationError"}:
        if nm not in handled:
            ctx.bad(finding_func(P, rid, sc, f"start_client has no handler answering {nm} with a NOTICE", text=f"def start_client(...) :: {nm}"))


def rule_limit(program, ctx):
    rid = ctx.rule(
        "C13.limit",
        "BaseStorage.subscribe: the registry insertion is reachable only via the non-raising edge of a test comparing "
        "len(<the same dict>) >=/== Config.subscription_limit; before that test the dict is mutated only by unsubscribe of the same id",
        floor=1,
    )
    fn = program.func("nostr_relay.storage.base:BaseStorage.subscribe")
    cfg = cfg_of(fn)
    inserts = []
    for n, d in cfg.g.nodes(data=True):
        s = d["ast"]
        if d["kind"] == "stmt" and isinstance(s, ast.Assign) and any(isinstance(t, ast.Subscript) and isinstance(t.value, ast.Name) for t in s.targets):
            t = next(t for t in s.targets if isinstance(t, ast.Subscript))
            if any(isinstance(x, ast.Name) and x.id == "sub_id" for x in ast.walk(t.slice)):
                inserts.append((n, t.value.id))
    if not inserts:
        ctx.bad(finding_func(P, rid, fn, "no `subs[sub_id] = sub` registry insertion found", text="def subscribe(...)"))
        return
    for n, dname in inserts:
        def pred(expr, pol, dname=dname):
            if not isinstance(expr, ast.Compare) or len(expr.ops) != 1:
                return False
            l, r = expr.left, expr.comparators[0]
            op = type(expr.ops[0])
            def is_len(e):
                return isinstance(e, ast.Call) and call_name(e) == "len" and e.args and isinstance(e.args[0], ast.Name) and e.args[0].id == dname
            def is_lim(e):
                return "subscription_limit" in dotted(e)
            # under the limit is known when  not (len >= limit) / not (len == limit) / len < limit
            if is_len(l) and is_lim(r):
                return (op in (ast.GtE, ast.Eq) and not pol) or (op is ast.Lt and pol)
            if is_lim(l) and is_len(r):
                return (op in (ast.LtE, ast.Eq) and not pol) or (op is ast.Gt and pol)
            return False

        def unlimited(expr, pol):
            if (not pol) and "subscription_limit" in dotted(expr) and not isinstance(expr, ast.Compare):
                return True
            # a REQ replacing an existing id does not grow the dict
            if isinstance(expr, ast.Compare) and len(expr.ops) == 1 and isinstance(expr.left, ast.Name) and expr.left.id == "sub_id" \
                    and isinstance(expr.comparators[0], ast.Name) and expr.comparators[0].id == dname:
                return (isinstance(expr.ops[0], ast.In) and pol) or (isinstance(expr.ops[0], ast.NotIn) and not pol)
            return False

        passes = test_edges(cfg, lambda e, p, dname=dname: pred(e, p) or unlimited(e, p))
        path = must_pass(cfg, passes, [n])
        if path:
            ctx.bad(finding_at(P, rid, cfg.ast_of(n), "the subscription is registered on a path that has not established len(subs) < subscription_limit "
                               "(limit tested after the insertion, against another container, or with an off-by-one operator)",
                               path=cfg.describe_path(path)[-6:]))
        else:
            ctx.ok(rid, cfg.ast_of(n), f"insertion into `{dname}` only after len({dname}) under subscription_limit was established")
    # refusal leaves the dict untouched: no mutation of the dict before the raise except unsubscribe(client_id, sub_id)
    for r in walk_no_nested(fn):
        if isinstance(r, ast.Raise) and "too many" in " ".join(str(k.value) for k in ast.walk(r) if isinstance(k, ast.Constant)):
            rn = cfg.nodes_of(r)
            before = cfg.reaches_backward(rn)
            muts = []
            for b in before:
                s = cfg.ast_of(b)
                if s is None or cfg.kind_of(b) != "stmt":
                    continue
                if isinstance(s, (ast.Assign, ast.Delete)) and any(isinstance(t, ast.Subscript) for t in (s.targets if hasattr(s, "targets") else [])):
                    muts.append(s)
                for c in own_calls(s):
                    if isinstance(c.func, ast.Attribute) and c.func.attr in ("pop", "clear", "popitem", "update") and dotted(c.func.value) in ("subs", "self.clients"):
                        muts.append(s)
            if muts:
                ctx.bad(finding_at(P, rid, muts[0], "the subscription dict is mutated on a path that then refuses the REQ for the limit"))
            else:
                ctx.ok(rid, r, "limit refusal: no registry mutation precedes it (except the same-id replacement)")


def rule_replace(program, ctx, prop=P, rid="C13.replace"):
    ctx.rule(
        rid,
        "BaseStorage.subscribe: every path that answers the REQ (normal exit) has either seen `sub_id in subs` false or called "
        "self.unsubscribe(client_id, sub_id) - the old subscription with the same id never survives an answered REQ",
        floor=1,
    )
    fn = program.func("nostr_relay.storage.base:BaseStorage.subscribe")
    cfg = cfg_of(fn)

    def pred(expr, pol):
        return (
            isinstance(expr, ast.Compare)
            and len(expr.ops) == 1
            and isinstance(expr.left, ast.Name)
            and expr.left.id == "sub_id"
            and ((isinstance(expr.ops[0], ast.In) and not pol) or (isinstance(expr.ops[0], ast.NotIn) and pol))
        )

    passes = test_edges(cfg, pred)
    for n, d in cfg.g.nodes(data=True):
        s = d["ast"]
        if s is not None and d["kind"] == "stmt":
            for c in own_calls(s):
                if call_name(c) == "self.unsubscribe" and len(c.args) >= 2 and isinstance(c.args[1], ast.Name) and c.args[1].id == "sub_id":
                    passes[n] = set(NORMAL)
    if not passes:
        ctx.bad(finding_func(prop, rid, fn, "subscribe never removes an existing subscription with the same id", text="def subscribe(...)"))
        return
    path = must_pass(cfg, passes, [cfg.exit])
    if path:
        last = next((cfg.ast_of(n) for n in reversed(path) if cfg.ast_of(n) is not None), fn)
        ctx.bad(finding_at(prop, rid, last, "an answered REQ can leave the old subscription with the same id registered (it keeps receiving events)",
                           path=cfg.describe_path(path)[-6:]))
    else:
        ctx.ok(rid, fn, "same-id replacement precedes every answer to the REQ")


def rule_cancel(program, ctx, prop=P, rid="C13.cancel"):
    ctx.rule(
        rid,
        "BaseStorage.unsubscribe(client, sub_id): cancel() of the subscription before its deletion; whole-client form deletes the "
        "registry entry; BaseSubscription.cancel cancels the query task; start_client finally: unsubscribe(client_id), "
        "send_task.cancel() and await send_task",
        floor=3,
    )
    fn = program.func("nostr_relay.storage.base:BaseStorage.unsubscribe")
    cfg = cfg_of(fn)
    dels = cfg.stmt_nodes(lambda s: isinstance(s, ast.Delete) and "sub_id" in ast.unparse(s), kinds=("stmt",))
    cancels = {n: set(NORMAL) for n in cfg.stmt_nodes(lambda s: any(isinstance(c.func, ast.Attribute) and c.func.attr == "cancel" and "sub_id" in ast.unparse(c) for c in own_calls(s)), kinds=("stmt",))}
    pops = cfg.stmt_nodes(lambda s: any(isinstance(c.func, ast.Attribute) and c.func.attr == "pop" and "sub_id" in ast.unparse(c) for c in own_calls(s)), kinds=("stmt",))
    if not dels and not pops:
        ctx.bad(finding_func(prop, rid, fn, "unsubscribe(client, sub_id) no longer removes the subscription from the registry", text="def unsubscribe(...)"))
    for d in dels:
        if must_pass(cfg, cancels, [d]):
            ctx.bad(finding_at(prop, rid, cfg.ast_of(d), "the subscription is removed from the registry without cancel(): its stored-query task keeps sending"))
        else:
            ctx.ok(rid, cfg.ast_of(d), "cancel() precedes removal of the subscription")
    whole = cfg.stmt_nodes(lambda s: isinstance(s, ast.Delete) and "sub_id" not in ast.unparse(s) and "client_id" in ast.unparse(s), kinds=("stmt",))
    whole += cfg.stmt_nodes(lambda s: any(isinstance(c.func, ast.Attribute) and c.func.attr == "pop" and "client_id" in ast.unparse(c) and "sub_id" not in ast.unparse(c) for c in own_calls(s)), kinds=("stmt",))
    if whole:
        ctx.ok(rid, cfg.ast_of(whole[0]), "disconnect form removes the client's whole registry entry")
    else:
        ctx.bad(finding_func(prop, rid, fn, "unsubscribe(client_id) does not remove the client's registry entry", text="def unsubscribe(...) :: whole client"))
    # the single-subscription form: selected by `sub_id is not None` ("" is a legal id), and it never removes the client's whole entry
    # (subscribe keeps a reference to that dict across its own `await self.unsubscribe(client_id, sub_id)`)
    def single(expr, pol):
        if isinstance(expr, ast.Compare) and len(expr.ops) == 1 and dotted(expr.left) == "sub_id" and isinstance(expr.comparators[0], ast.Constant) and expr.comparators[0].value is None:
            return (isinstance(expr.ops[0], ast.IsNot) and pol) or (isinstance(expr.ops[0], ast.Is) and not pol)
        return False

    def whole_form(expr, pol):
        return single(expr, not pol)

    truthy = [n for n in walk_no_nested(fn) if isinstance(n, (ast.If, ast.IfExp)) and any((isinstance(x, ast.Name) and x.id == "sub_id" and not isinstance(getattr(x, "_parent", None), (ast.Compare, ast.Subscript, ast.Call, ast.Tuple, ast.Index))) for x in ast.walk(n.test))]
    if truthy:
        ctx.bad(finding_at(prop, rid, truthy[0], "unsubscribe selects its form by the truthiness of sub_id: the legal subscription id \"\" takes the whole-client branch, so CLOSE \"\" (or a "
                           "REQ re-using \"\") drops every subscription of the connection"))
    else:
        ctx.ok(rid, fn, "form selected by `sub_id is not None`")
    wf = test_edges(cfg, whole_form)
    for w in whole:
        if must_pass(cfg, wf, [w]):
            ctx.bad(finding_at(prop, rid, cfg.ast_of(w), "closing one subscription can remove the client's whole registry entry: a REQ that replaces the connection's only subscription then "
                               "registers the new one in a detached dict - a later CLOSE cannot find it and it keeps sending"))
        else:
            ctx.ok(rid, cfg.ast_of(w), "the whole entry is removed only in the disconnect form (sub_id is None)")
    cn = program.func("nostr_relay.storage.base:BaseSubscription.cancel")
    if any(isinstance(c.func, ast.Attribute) and c.func.attr == "cancel" and dotted(c.func.value) == "self.query_task" for c in ast.walk(cn) if isinstance(c, ast.Call)):
        ctx.ok(rid, cn, "BaseSubscription.cancel -> query_task.cancel()")
    else:
        ctx.bad(finding_func(prop, rid, cn, "BaseSubscription.cancel does not cancel the stored-query task", text="def cancel(...)"))
    for ci in subscription_classes(program):
        if "cancel" in ci.methods:
            f2 = ci.methods["cancel"]
            if not any(isinstance(c, ast.Call) and (dotted(c.func).endswith("query_task.cancel") or (isinstance(c.func, ast.Attribute) and c.func.attr == "cancel" and isinstance(c.func.value, ast.Call) and dotted(c.func.value.func) == "super")) for c in ast.walk(f2)):
                ctx.bad(finding_func(prop, rid, f2, "cancel override does not cancel the query task", text="def cancel(...)"))
    sc = program.func("nostr_relay.web:start_client")
    outer = next((t for t in sc.body if isinstance(t, ast.Try) and t.finalbody), None)
    if outer is None:
        ctx.bad(finding_func(prop, rid, sc, "start_client has no outer try/finally", text="def start_client(...)"))
        return
    fin = ast.Module(body=outer.finalbody, type_ignores=[])
    texts = [ast.unparse(s) for s in ast.walk(fin) if isinstance(s, ast.Call)]
    checks = [
        ("storage.unsubscribe(client_id)", any(t.startswith("storage.unsubscribe(client_id)") for t in texts)),
        ("send_task.cancel()", any(t == "send_task.cancel()" for t in texts)),
        ("await send_task", any(isinstance(a, ast.Await) and dotted(a.value) == "send_task" for a in ast.walk(fin))),
    ]
    for what, okv in checks:
        if okv:
            ctx.ok(rid, outer.finalbody[0], f"finally: {what}")
        else:
            ctx.bad(finding_func(prop, rid, sc, f"start_client's finally lacks `{what}`: the connection's subscriptions/sender outlive it", text=f"finally :: {what}"))


def rule_sender(program, ctx, prop=P, rid="C13.sender"):
    ctx.rule(
        rid,
        "web.send_subscriptions: (sub_id, event) dequeued together; event None -> frame containing the constant EOSE and that sub_id; "
        "otherwise event_as_json(sub_id, event); no path from the dequeue back to the loop head avoids ws_send unless it has "
        "established `event is not None` (a sentinel is never dropped)",
        floor=2,
    )
    fn = program.func("nostr_relay.web:send_subscriptions")
    cfg = cfg_of(fn)
    deq = None
    names = None
    for n, d in cfg.g.nodes(data=True):
        s = d["ast"]
        if d["kind"] == "stmt" and isinstance(s, ast.Assign) and isinstance(s.targets[0], ast.Tuple) and isinstance(strip_await(s.value), ast.Call) and call_name(strip_await(s.value)) == "get_from_storage":
            deq = n
            names = [e.id for e in s.targets[0].elts if isinstance(e, ast.Name)]
    if deq is None or not names or len(names) != 2:
        ctx.bad(finding_func(prop, rid, fn, "sender no longer dequeues `(sub_id, event)` pairs from get_from_storage()", text="def send_subscriptions(...)"))
        return
    sid, ev = names
    ctx.ok(rid, cfg.ast_of(deq), f"dequeue: {sid}, {ev} = await get_from_storage()")

    def not_none(expr, pol):
        if isinstance(expr, ast.Compare) and len(expr.ops) == 1 and isinstance(expr.left, ast.Name) and expr.left.id == ev and isinstance(expr.comparators[0], ast.Constant) and expr.comparators[0].value is None:
            return (isinstance(expr.ops[0], (ast.IsNot, ast.NotEq)) and pol) or (isinstance(expr.ops[0], (ast.Is, ast.Eq)) and not pol)
        if isinstance(expr, ast.Name) and expr.id == ev:
            return pol
        return False

    def is_none(expr, pol):
        return not_none(expr, not pol)

    sends = cfg.stmt_nodes(lambda s: any(call_name(c) == "ws_send" for c in own_calls(s)), kinds=("stmt",))
    loop = next((n for n, d in cfg.g.nodes(data=True) if d["kind"] == "loop"), None)
    if not sends or loop is None:
        ctx.bad(finding_func(prop, rid, fn, "sender has no ws_send / loop", text="def send_subscriptions(...)"))
        return
    passes = test_edges(cfg, not_none)
    path = cfg.find_path(list(cfg.succ(deq, kinds=NORMAL)), [loop, cfg.exit], avoid_nodes=sends, kinds=NORMAL, avoid_edge_kinds=passes)
    if path:
        last = next((cfg.ast_of(n) for n in reversed(path[:-1]) if cfg.ast_of(n) is not None), fn)
        ctx.bad(finding_at(prop, rid, last, "a dequeued item can be dropped without being sent although it may be the EOSE sentinel "
                           "(the path has not established `event is not None`)", path=cfg.describe_path(path)))
    else:
        ctx.ok(rid, cfg.ast_of(sends[0]), "every dequeued sentinel reaches ws_send")
        rule_every_item_sent(program, ctx, prop=prop, rid=rid)
    # the frame sent is built from the pair dequeued in this iteration
    from ..core import stmt_assigns
    for sn in sends:
        st = cfg.ast_of(sn)
        c = next(c for c in own_calls(st) if call_name(c) == "ws_send")
        if c.args and isinstance(c.args[0], ast.Name):
            var = c.args[0].id
            defs = [n for n, d in cfg.g.nodes(data=True) if d["ast"] is not None and d["kind"] == "stmt" and var in stmt_assigns(d["ast"])]
            path = cfg.find_path(list(cfg.succ(deq, kinds=NORMAL)), [sn], avoid_nodes=defs, kinds=NORMAL)
            if path:
                ctx.bad(finding_at(prop, rid, st, f"`{var}` can reach ws_send without having been rebuilt from the pair just dequeued: the frame of an earlier item (another "
                                   "subscription's id, or an EOSE) is sent again", path=cfg.describe_path(path), text="stale frame"))
            else:
                ctx.ok(rid, st, f"`{var}` is rebuilt from the dequeued pair on every path to ws_send")
    # mapping of the two branches
    frame_vars = {c.args[0].id for sn in sends for c in own_calls(cfg.ast_of(sn)) if call_name(c) == "ws_send" and c.args and isinstance(c.args[0], ast.Name)}
    # close over name-to-name re-bindings (payload = tmp; tmp = json_dumps(…))
    for _ in range(3):
        for s_ in walk_no_nested(fn):
            if isinstance(s_, ast.Assign) and isinstance(s_.targets[0], ast.Name) and s_.targets[0].id in frame_vars and isinstance(s_.value, ast.Name):
                frame_vars.add(s_.value.id)
    msg_assigns = [s for s in walk_no_nested(fn) if isinstance(s, ast.Assign) and isinstance(s.targets[0], ast.Name) and s.targets[0].id in frame_vars and not isinstance(s.value, ast.Name)]
    eose = [s for s in msg_assigns if any(isinstance(k, ast.Constant) and isinstance(k.value, str) and "EOSE" in k.value for k in ast.walk(s.value))]
    evs = [s for s in msg_assigns if any(isinstance(c, ast.Call) and call_name(c) == "event_as_json" for c in ast.walk(s.value))]
    if not eose:
        ctx.bad(finding_func(prop, rid, fn, "no EOSE frame is built for the sentinel", text="def send_subscriptions(...) :: EOSE"))
    for s in eose:
        nodes = cfg.nodes_of(s)
        nn = test_edges(cfg, is_none)
        if not any(isinstance(x, ast.Name) and x.id == sid for x in ast.walk(s.value)):
            ctx.bad(finding_at(prop, rid, s, "the EOSE frame does not carry the dequeued subscription id"))
        elif must_pass(cfg, nn, nodes):
            ctx.bad(finding_at(prop, rid, s, "the EOSE frame is built on a path where the dequeued event is not known to be None"))
        else:
            ctx.ok(rid, s, "None -> EOSE frame with the dequeued sub_id")
    for s in evs:
        c = next(c for c in ast.walk(s.value) if isinstance(c, ast.Call) and call_name(c) == "event_as_json")
        if len(c.args) >= 2 and dotted(c.args[0]) == sid and dotted(c.args[1]) == ev:
            ctx.ok(rid, s, "event -> event_as_json(sub_id, event)")
        else:
            ctx.bad(finding_at(prop, rid, s, "EVENT frame is not built from the dequeued (sub_id, event) pair"))
    if not evs:
        ctx.bad(finding_func(prop, rid, fn, "no EVENT frame is built from the dequeued pair", text="def send_subscriptions(...) :: EVENT"))


def rule_notify_atomic(program, ctx, prop=P, rid="C13.atomic"):
    ctx.rule(
        rid,
        "a live event is enqueued in the same scheduler step in which it was matched: in BaseSubscription.notify (and overrides) the only suspension point is the "
        "`queue.put` itself - an await between the match and the put parks the untracked notify task across a CLOSE / replacing REQ (cancel() ends only the "
        "query task), and the event is then delivered under the id of a subscription that no longer exists or now has other filters",
        floor=1,
    )
    fns = [program.func("nostr_relay.storage.base:BaseSubscription.notify")]
    for ci in subscription_classes(program):
        if "notify" in ci.methods and ci.methods["notify"] not in fns:
            fns.append(ci.methods["notify"])
    for fn in fns:
        bad = False
        for a in walk_no_nested(fn):
            if isinstance(a, (ast.AsyncFor, ast.AsyncWith)):
                bad = True
                ctx.bad(finding_at(prop, rid, a, f"{qual_of(fn)} suspends in `{type(a).__name__}` before the enqueue"))
            if isinstance(a, ast.Await):
                v = a.value
                if isinstance(v, ast.Call) and isinstance(v.func, ast.Attribute) and v.func.attr in ("put", "put_nowait") and "queue" in ast.unparse(v.func.value):
                    continue
                bad = True
                ctx.bad(finding_at(prop, rid, a, f"{qual_of(fn)} awaits `{ast.unparse(v)[:60]}` between matching the event and queueing it: the subscription may be closed or replaced "
                                   "meanwhile (only query_task is cancelled) and still receives the event"))
        if not bad:
            ctx.ok(rid, fn, f"{qual_of(fn)}: match and enqueue in one step")


def rule_every_item_sent(program, ctx, prop=P, rid="C13.sender"):
    """no dequeued pair - event or sentinel - returns to the loop head without a ws_send (a sender-side filter drops stored events the query selected)."""
    fn = program.func("nostr_relay.web:send_subscriptions")
    cfg = cfg_of(fn)
    deq = next((n for n, d in cfg.g.nodes(data=True) if d["kind"] == "stmt" and isinstance(d["ast"], ast.Assign) and isinstance(strip_await(d["ast"].value), ast.Call)
                and call_name(strip_await(d["ast"].value)) == "get_from_storage"), None)
    sends = cfg.stmt_nodes(lambda s: any(call_name(c) == "ws_send" for c in own_calls(s)), kinds=("stmt",))
    loop = next((n for n, d in cfg.g.nodes(data=True) if d["kind"] == "loop"), None)
    if deq is None or not sends or loop is None:
        raise AnalysisError("send_subscriptions: dequeue / ws_send / loop not found")
    path = cfg.find_path(list(cfg.succ(deq, kinds=NORMAL)), [loop, cfg.exit], avoid_nodes=sends, kinds=NORMAL)
    if path:
        last = next((cfg.ast_of(n) for n in reversed(path[:-1]) if cfg.ast_of(n) is not None), fn)
        ctx.bad(finding_at(prop, rid, last, "a dequeued (sub_id, event) pair can go back to the loop head without ws_send: the sender filters what the stored query selected - fewer than "
                           "min(limit, matching) events are sent, and not the ones the query chose", path=cfg.describe_path(path), text="dropped item"))
    else:
        ctx.ok(rid, cfg.ast_of(sends[0]), "every dequeued pair is sent (no sender-side filtering)")


LIVE_WORDS = ("closed", "active", "alive", "cancelled", "canceled", "is_open", "clients", "done")


def rule_liveness(program, ctx, prop=P, rid="C13.liveness"):
    ctx.rule(
        rid,
        "typestate 'no delivery after close': notify runs as a detached task and queued items are sent later, so either the "
        "notify->queue.put path or the queue.get->ws_send path must test that the subscription is still registered/open, or "
        "unsubscribe must purge the queue",
        floor=1,
    )
    notify = program.func("nostr_relay.storage.base:BaseSubscription.notify")
    sender = program.func("nostr_relay.web:send_subscriptions")
    unsub = program.func("nostr_relay.storage.base:BaseStorage.unsubscribe")

    def has_liveness_test(fn):
        for n in walk_no_nested(fn):
            if isinstance(n, (ast.If, ast.While)):
                txt = ast.unparse(n.test)
                if any(w in txt for w in LIVE_WORDS):
                    return n
        return None

    purge = any(isinstance(c, ast.Call) and isinstance(c.func, ast.Attribute) and c.func.attr in ("get_nowait", "_queue", "purge", "clear") and "queue" in dotted(c.func.value) for c in ast.walk(unsub))
    t1, t2 = has_liveness_test(notify), has_liveness_test(sender)
    put = next((c for c in ast.walk(notify) if isinstance(c, ast.Call) and call_name(c).endswith("queue.put")), None)
    if t1 is not None and t2 is not None or purge:
        ctx.ok(rid, notify, "liveness test / purge present on the delivery paths")
    elif put is None:
        ctx.bad(finding_func(prop, rid, notify, "BaseSubscription.notify no longer delivers through queue.put", text="def notify(...)"))
    else:
        ctx.bad(finding_at(prop, rid, put, label="no liveness test after close", message=
                           "a live event is queued for, and queued items are later sent to, a subscription that was closed/replaced in the "
                           "meantime: neither BaseSubscription.notify nor send_subscriptions tests that the subscription is still open, and "
                           "unsubscribe does not purge the queue"))


def rule_subid(program, ctx, prop=P, rid="C13.subid"):
    ctx.rule(
        rid,
        "sibling agreement: the REQ and the CLOSE branch of the connection handler derive the subscription id from message[1] by the same expression "
        "(otherwise CLOSE looks up another key than REQ registered and is a silent no-op)",
        floor=1,
    )
    sc = program.func("nostr_relay.web:start_client")
    exprs = {}
    for b in stores_of(sc, "sub_id"):
        if isinstance(b, ast.Assign):
            br = next((a for a in ancestors(b) if isinstance(a, ast.If) and "command ==" in ast.unparse(a.test)), None)
            label = ast.unparse(br.test) if br is not None else "?"
            exprs.setdefault(ast.unparse(b.value), []).append((label, b))
    if len(exprs) == 1 and sum(len(v) for v in exprs.values()) >= 2:
        ctx.ok(rid, list(exprs.values())[0][0][1], f"REQ and CLOSE both use `{list(exprs)[0]}`")
    elif len(exprs) > 1:
        b = list(exprs.values())[-1][0][1]
        ctx.bad(finding_at(prop, rid, b, f"the subscription id is derived differently in different branches ({sorted(exprs)}): for ids where the two renderings differ (null, booleans, arrays) "
                           "CLOSE does not find the subscription REQ registered"))
    else:
        ctx.bad(finding_func(prop, rid, sc, "REQ/CLOSE no longer bind a subscription id", text="def start_client(...) :: sub_id"))


def rule_typed(program, ctx, prop=P, rid="C13.typed"):
    ctx.rule(
        rid,
        "guard before use (contradiction rule): inside the NostrQuery validators a client-supplied value that is type-tested with isinstance(v, str) somewhere in the function "
        "is not operated on (len(v), v[...], v.attr, arithmetic, comparison with <,>) on a path where that test has not passed yet - such an operation raises TypeError for "
        "numbers/null, which pydantic does not convert into a ValidationError: it escapes subscribe() and the connection handler closes the socket (no EOSE, no NOTICE)",
        floor=1,
    )
    ci = program.cls("nostr_relay.storage.base:NostrQuery")
    n = 0
    for name, fn in ci.methods.items():
        tested = {dotted(c.args[0]) for c in ast.walk(fn) if isinstance(c, ast.Call) and call_name(c) == "isinstance" and len(c.args) == 2 and isinstance(c.args[0], ast.Name) and "str" in ast.unparse(c.args[1])}
        if not tested:
            continue
        cfg = cfg_of(fn)
        for v in tested:
            def gate(expr, pol, v=v):
                return isinstance(expr, ast.Call) and call_name(expr) == "isinstance" and expr.args and dotted(expr.args[0]) == v and pol

            passes = test_edges(cfg, gate)
            n += 1
            bad = False
            for node in walk_no_nested(fn):
                use = None
                if isinstance(node, ast.Call) and call_name(node) in ("len", "int", "float", "sorted", "min", "max") and node.args and dotted(node.args[0]) == v:
                    use = node
                elif isinstance(node, ast.Subscript) and dotted(node.value) == v:
                    use = node
                elif isinstance(node, ast.Attribute) and dotted(node.value) == v:
                    use = node
                elif isinstance(node, ast.BinOp) and (dotted(node.left) == v or dotted(node.right) == v):
                    use = node
                elif isinstance(node, ast.Compare) and dotted(node.left) == v and any(isinstance(o, (ast.Lt, ast.Gt, ast.LtE, ast.GtE)) for o in node.ops):
                    use = node
                if use is None:
                    continue
                st = enclosing_stmt(use)
                nodes = cfg.nodes_of(st)
                if not nodes:
                    continue
                inline = False
                for anc in ancestors(use):
                    if isinstance(anc, ast.BoolOp) and isinstance(anc.op, ast.And):
                        idx = next((i for i, x in enumerate(anc.values) if any(w is use for w in ast.walk(x))), None)
                        if idx and any(isinstance(x, ast.Call) and call_name(x) == "isinstance" and dotted(x.args[0]) == v for x in anc.values[:idx]):
                            inline = True
                    if isinstance(anc, ast.stmt):
                        break
                if inline:
                    continue
                path = must_pass(cfg, passes, nodes, kinds=NORMAL)
                if path:
                    bad = True
                    ctx.bad(finding_at(prop, rid, st, f"{name}: `{ast.unparse(use)[:50]}` is evaluated before `isinstance({v}, str)` has passed: a REQ filter with a number / null there raises "
                                       "TypeError out of model_validate (not a ValidationError) - the REQ gets neither EOSE nor NOTICE and the connection is closed", text=f"{v} used before its type test"))
            if not bad:
                ctx.ok(rid, fn, f"{name}: `{v}` is only operated on after its isinstance(…, str) test")
    if not n:
        ctx.floors[rid] = 0
        ctx.info(rid, ci.node, "no type-tested client value in the NostrQuery validators")


def rule_sentinel_sites(program, ctx, prop=P, rid="C13.sentinel"):
    ctx.rule(
        rid,
        "who-may-put: the end-of-stored-events sentinel `(sub_id, None)` is queued only by the run_query of a subscription class (its finally) and by "
        "BaseStorage.subscribe (REQs that start no query) - a second producer (e.g. cancel()) makes a REQ that is closed or replaced while its query runs receive EOSE twice",
        floor=2,
    )
    owners = ("run_query", "subscribe")
    n = 0
    for m in program.modules.values():
        if m.rel.startswith("<dep>") or not m.name.startswith("nostr_relay.storage"):
            continue
        for c in ast.walk(m.tree):
            if isinstance(c, ast.Call) and isinstance(c.func, ast.Attribute) and c.func.attr in ("put", "put_nowait") or (isinstance(c, ast.Call) and isinstance(c.func, ast.Name) and c.func.id in ("queue_put",)):
                if c.args and isinstance(c.args[0], ast.Tuple) and len(c.args[0].elts) == 2 and isinstance(c.args[0].elts[1], ast.Constant) and c.args[0].elts[1].value is None:
                    q = qual_of(c)
                    n += 1
                    if q.split(".")[-1] in owners:
                        ctx.ok(rid, c, f"sentinel queued in {q}")
                    else:
                        ctx.bad(finding_at(prop, rid, c, f"{q} queues the EOSE sentinel as well: together with the `finally` of run_query a cancelled / replaced subscription gets two EOSE"))
    if not n:
        raise AnalysisError("no sentinel put found")


def rule_query_task(program, ctx, prop=P, rid="C13.task"):
    ctx.rule(
        rid,
        "CLOSE / a same-id REQ cancel exactly the coroutine that sends the stored events: BaseSubscription.start binds `self.query_task` to "
        "`asyncio.create_task(self.run_query())` - not to a wrapper that awaits run_query through asyncio.wait / shield / ensure_future (cancelling the wrapper does not "
        "cancel the inner future: the old query keeps queueing events and its EOSE after the CLOSE)",
        floor=1,
    )
    st = program.func("nostr_relay.storage.base:BaseSubscription.start")
    binds = [s_ for s_ in walk_no_nested(st) if isinstance(s_, ast.Assign) and any(dotted(t) == "self.query_task" for t in s_.targets)]
    if not binds:
        ctx.bad(finding_func(prop, rid, st, "BaseSubscription.start no longer binds self.query_task", text="def start(...) :: query_task"))
    for b in binds:
        v = b.value
        okv = isinstance(v, ast.Call) and call_name(v).split(".")[-1] in ("create_task", "ensure_future") and v.args and isinstance(v.args[0], ast.Call) and dotted(v.args[0].func) == "self.run_query"
        if okv:
            ctx.ok(rid, b, "query_task = create_task(self.run_query())")
        else:
            ctx.bad(finding_at(prop, rid, b, f"query_task is `{ast.unparse(v)[:60]}`, not the task of self.run_query() itself: cancel() on CLOSE / replacement may not reach the coroutine that "
                               "queues the stored events and the EOSE"))
    for name in ("wait", "shield", "wait_for"):
        for c in [c for c in ast.walk(st) if isinstance(c, ast.Call) and call_name(c).split(".")[-1] == name]:
            ctx.bad(finding_at(prop, rid, c, f"start() runs the query behind asyncio.{name}: cancellation of the outer task does not cancel the query"))


def rule_config_types(program, ctx, prop=P, rid="C13.config"):
    ctx.rule(
        rid,
        "the subscription limit is compared as a number: BaseStorage.subscribe tests `len(subs) == Config.subscription_limit`, so the configuration must hand out the YAML "
        "document's own (typed) values - ConfigClass.load sets attributes only from the parsed document, never from os.environ / argv strings (\"2\" is truthy and never "
        "equals an int: the limit silently stops being enforced)",
        floor=1,
    )
    ld = program.func("nostr_relay.config:ConfigClass.load")
    sets = [c for c in ast.walk(ld) if isinstance(c, ast.Call) and call_name(c) == "setattr"]
    if not sets:
        ctx.bad(finding_func(prop, rid, ld, "ConfigClass.load no longer sets the attributes from the document", text="def load(...) :: setattr"))
    for c in sets:
        loop = next((a for a in ancestors(c) if isinstance(a, ast.For)), None)
        src = ast.unparse(loop.iter) if loop is not None else ""
        if "environ" in src or "argv" in src or "getenv" in ast.unparse(c):
            ctx.bad(finding_at(prop, rid, c, f"ConfigClass.load sets attributes from `{src[:40]}`: every such value is a str - numeric settings (subscription_limit, max_limit, "
                               "message_timeout) compare unequal to ints and are no longer enforced"))
        else:
            ctx.ok(rid, c, f"attributes set from {src[:40] or 'the document'}")
    for x in ast.walk(program.module("nostr_relay.config").tree):
        if isinstance(x, ast.Attribute) and x.attr in ("environ", "getenv") and dotted(x.value) == "os":
            fn_ = next((a for a in ancestors(x) if isinstance(a, (ast.FunctionDef, ast.AsyncFunctionDef))), None)
            if fn_ is not None and fn_.name in ("load", "__getattr__", "get"):
                ctx.bad(finding_at(prop, rid, x, f"ConfigClass.{fn_.name} reads os.{x.attr}: untyped strings become configuration values"))


def run(program, ctx):
    rule_notify_atomic(program, ctx)
    rule_config_types(program, ctx)
    rule_query_task(program, ctx)
    from . import c19 as _c19

    # a leaked query slot (relay-wide semaphore) parks every later REQ before its EOSE
    _c19.rule_slots(program, ctx, prop=P, rid="C13.slots")
    from ..lib import rule_awaited

    rule_awaited(program, ctx, P, ANCHORS)
    rule_subid(program, ctx)
    rule_eose(program, ctx)
    rule_total(program, ctx)
    rule_limit(program, ctx)
    rule_replace(program, ctx)
    rule_cancel(program, ctx)
    rule_sender(program, ctx)
    rule_liveness(program, ctx)
    rule_typed(program, ctx)
    from . import c05

    # subscriptions live in a registry keyed by the connection's ClientID object: identity, not the (16 random bits per address) id string
    c05.rule_registry(program, ctx, prop=P, rid="C13.registry")
    rule_sentinel_sites(program, ctx)
    from . import c19

    # a REQ that the message validator drops is answered with neither EOSE nor NOTICE
    c19.rule_shape(program, ctx, prop=P, rid="C13.shape")
    c05.rule_deliver(program, ctx, prop=P, rid="C13.deliver")
    # EOSE needs the stored query to finish: a bounded send queue parks query tasks (and their relay-wide slots) behind a client that does not read
    c19.rule_queue(program, ctx, prop=P, rid="C13.queue")
    ctx.not_decided += [
        "outcomes of races between a running query task and REQ/CLOSE beyond the liveness rule",
        "bounded-exhaustive command sequences; ordering of stored events before EOSE inside the engine",
    ]


BASE = "nostr_relay/storage/base.py"
DB = "nostr_relay/storage/db.py"
KV = "nostr_relay/storage/kv.py"
WEB = "nostr_relay/web.py"

MUTANTS = [
    M("c13-query-task-wrapper", "nostr_relay/storage/base.py", "        self.query_task = asyncio.create_task(self.run_query())", "        self.query_task = asyncio.create_task(asyncio.wait([asyncio.ensure_future(self.run_query())]))", "C13.task"),
    M("c13-config-from-environ", "nostr_relay/config.py", "        for k, v in conf.items():\n            setattr(self, k, v)\n", "        for k, v in conf.items():\n            setattr(self, k, v)\n        for k, v in os.environ.items():\n            setattr(self, k.lower(), v)\n", "C13.config"),
    M("c13-notify-yields-first", "nostr_relay/storage/base.py", "            await self.queue.put((self.sub_id, event))", "            await asyncio.sleep(0)\n            await self.queue.put((self.sub_id, event))", "C13.atomic"),
    M("c13-bounded-queue", "nostr_relay/web.py", "subscription_queue = asyncio.Queue()", "subscription_queue = asyncio.Queue(1000)", "C13.queue"),
    M("c13-close-json-id", WEB, "                    sub_id = str(message[1])\n                    await storage.unsubscribe(client_id, sub_id)", "                    sub_id = json_dumps(message[1])\n                    await storage.unsubscribe(client_id, sub_id)", "C13.subid"),
    M("c13-req-raw-id", WEB, "                    sub_id = str(message[1])\n                    await storage.subscribe(", "                    sub_id = message[1]\n                    await storage.subscribe(", "C13.subid"),
    M("c13-db-sentinel-out-of-finally", DB, "        finally:\n            # always end with EOSE, even if the output validator raised\n            await queue.put((sub_id, None))",
      "        finally:\n            pass\n        await queue.put((sub_id, None))", "C13.eose", canary=True),
    M("c13-kv-sentinel-uncaught", KV, "            except Exception:\n                self.log.exception(\"run_query\")\n            finally:\n                await queue_put((sub_id, None))\n                analyze(plans)",
      "            finally:\n                analyze(plans)\n            await queue_put((sub_id, None))", "C13.eose"),
    M("c13-kv-two-sentinels", KV, "                self.log.debug(\"Cancelled run_query\")", "                await queue_put((sub_id, None))", "C13.eose"),
    M("c13-subscribe-silent-return", BASE, "        if not cleaned_filters:\n            await queue.put((sub_id, None))\n            return", "        if not cleaned_filters:\n            return", "C13.total"),
    M("c13-subscribe-valueerror", BASE, "raise StorageError(\"rejected: too many subscriptions\")", "raise ValueError(\"rejected: too many subscriptions\")", "C13.total"),
    M("c13-limit-after-insert", BASE, "            sub.start()\n            subs[sub_id] = sub\n",
      "            sub.start()\n            subs[sub_id] = sub\n            if Config.subscription_limit and len(subs) > Config.subscription_limit:\n                raise StorageError(\"rejected: too many subscriptions\")\n", "C13.limit"),
    M("c13-limit-off-by-one", BASE, "len(subs) == Config.subscription_limit", "len(subs) > Config.subscription_limit", "C13.limit"),
    M("c13-limit-other-dict", BASE, "len(subs) == Config.subscription_limit", "len(self.clients) == Config.subscription_limit", "C13.limit"),
    M("c13-replace-dropped", BASE, "        if sub_id in subs:\n            await self.unsubscribe(client_id, sub_id)\n\n", "", "C13.replace"),
    M("c13-unsubscribe-no-cancel", BASE, "                self.clients[client_id][sub_id].cancel()\n", "", "C13.cancel"),
    M("c13-finally-no-unsubscribe", WEB, "    finally:\n        await storage.unsubscribe(client_id)\n", "    finally:\n", "C13.cancel"),
    M("c13-sender-eose-wrong-id", WEB, "message = json_dumps([\"EOSE\", sub_id])", "message = json_dumps([\"EOSE\", \"\"])", "C13.sender"),
    M("c13-sender-stale-frame", WEB, "            if event is not None:\n                message = event_as_json(sub_id, event)\n            else:", "            if event is not None and event is not last:\n                message = event_as_json(sub_id, event)\n            elif event is None:", "C13.sender"),
    M("c13-sender-drops-none", WEB, "            sub_id, event = await get_from_storage()\n", "            sub_id, event = await get_from_storage()\n            if not event:\n                continue\n", "C13.sender"),
]

EQUIVS = [
    E("c13-eq-sender-is-none-first", WEB,
      "            if event is not None:\n                message = event_as_json(sub_id, event)\n            else:\n                # done with stored events\n                message = json_dumps([\"EOSE\", sub_id])",
      "            if event is None:\n                message = json_dumps([\"EOSE\", sub_id])\n            else:\n                message = event_as_json(sub_id, event)"),
]

# functions whose syntactic mutants are used for the thorough tier's sensitivity figure (sa/automut.py)
ANCHORS = [
    "nostr_relay.storage.base:BaseStorage.subscribe",
    "nostr_relay.storage.base:BaseStorage.unsubscribe",
    "nostr_relay.storage.db:Subscription.run_query",
    "nostr_relay.storage.kv:Subscription.run_query",
    "nostr_relay.web:send_subscriptions",
    "nostr_relay.web:start_client",
]
