"""C03 - only authentic events are stored, acknowledged or forwarded.

Decided (structural necessary conditions):
  C03.gate       every path of every concrete add_event to an admission effect passes
                 ``await self.validate_event(E, …)`` on the event built from the client JSON
  C03.chain      the validator chain calls every configured function unconditionally and the
                 coroutine awaits it (an exception propagates)
  C03.defaults   every default validator list contains is_signed; validate_event has one writer
  C03.is_signed  is_signed's normal exit requires a truthy ``event.verify()``
  C03.id         the id under which the event is stored/acked is compared with the recomputed hash
  C03.closed     only add_event (after the gate), the writer thread and the cross-worker client
                 can store or broadcast an event
"""
from __future__ import annotations

import ast

from ..cfg import cfg_of
from ..core import (
    AnalysisError,
    call_name,
    dotted,
    finding_at,
    finding_func,
    norm,
    own_calls,
    own_nodes,
    qual_of,
    walk_no_nested,
)
from ..lib import (
    NORMAL,
    admission_effects,
    all_calls,
    call_matches,
    concrete_add_events,
    const_str_list,
    event_var,
    first_arg_is,
    func_of,
    implied,
    mentions,
    must_pass,
    stmt_has_call,
    stores_of,
    strip_await,
    test_edges,
    yaml_list,
)
from ..selftest import E, M

P = "C03"
IS_SIGNED = "nostr_relay.validators.is_signed"


def rule_gate(program, ctx, prop=P, rid="C03.gate"):
    """shared with C16 (same construct, reported under the caller's property id)."""
    ctx.rule(
        rid,
        "every CFG path of each concrete add_event from entry to an admission effect "
        "(insert, enqueue, pre/post_save, broadcast, announce, normal return) passes "
        "`await self.validate_event(E, …)` with E = Event(**client json), E never re-bound",
        floor=4,
    )
    for fn, classes in concrete_add_events(program):
        cfg = cfg_of(fn)
        ev = event_var(fn)
        if ev is None:
            ctx.bad(finding_func(prop, rid, fn, "add_event does not build the event with Event(**json): "
                                 "the admitted object is not the one that is validated"))
            continue
        stores = stores_of(fn, ev)
        if len(stores) != 1:
            ctx.bad(finding_at(prop, rid, stores[-1], f"admitted event variable `{ev}` is re-bound "
                               f"({len(stores)} bindings): the validated object need not be the stored one"))
        gates = {}
        for n, d in cfg.g.nodes(data=True):
            s = d["ast"]
            if s is None or d["kind"] != "stmt":
                continue
            for c in own_calls(s):
                if call_name(c) == "self.validate_event" and first_arg_is(c, ev):
                    # must be awaited, otherwise the coroutine never runs
                    par = getattr(c, "_parent", None)
                    if isinstance(par, ast.Await):
                        gates[n] = set(NORMAL)
        effects = admission_effects(cfg, fn, ev)
        if not effects:
            raise AnalysisError(f"no admission effect recognised in {qual_of(fn)}")
        for n, label in effects:
            path = must_pass(cfg, gates, [n])
            s = cfg.ast_of(n)
            if path:
                ctx.bad(finding_at(prop, rid, s, f"{label} is reachable without passing "
                                   f"`await self.validate_event({ev}, …)`",
                                   path=cfg.describe_path(path)[-6:]))
            else:
                ctx.ok(rid, s, f"{label}: dominated by validate_event({ev}) [{'/'.join(c.split(':')[1] for c in classes)}]")


def rule_chain(program, ctx, prop=P, rid="C03.chain"):
    ctx.rule(
        rid,
        "validators.get_validator: list built from every configured name (no filter/slice); the loop "
        "calls each function with the event unconditionally (no break/continue/return/try/if around "
        "the call); the coroutine awaits the executor future outside any handler; it is what is returned",
        floor=4,
    )
    gv = program.func("nostr_relay.validators:get_validator")
    param = gv.args.args[0].arg if gv.args.args else None
    # (a) list of callables
    lst_name = None
    for n in walk_no_nested(gv):
        if isinstance(n, ast.Assign) and isinstance(n.value, ast.ListComp):
            comp = n.value
            gen = comp.generators[0]
            if isinstance(gen.iter, ast.Name) and gen.iter.id == param:
                lst_name = n.targets[0].id if isinstance(n.targets[0], ast.Name) else None
                if gen.ifs or len(comp.generators) != 1:
                    ctx.bad(finding_at(prop, rid, n, "validator list is filtered: some configured validators are dropped"))
                elif not (isinstance(comp.elt, ast.Call) and call_matches(comp.elt, "object_from_path")):
                    ctx.bad(finding_at(prop, rid, n, "validator list elements are not object_from_path(name)"))
                else:
                    ctx.ok(rid, n, "validator list = [object_from_path(n) for n in <all configured names>]")
    if lst_name is None:
        ctx.bad(finding_func(prop, rid, gv, "no `[object_from_path(n) for n in function_names]` list found"))
        return
    # (b) loop
    loops = []
    for n in ast.walk(gv):
        if isinstance(n, ast.For) and isinstance(n.iter, ast.Name) and n.iter.id == lst_name:
            loops.append(n)
    if not loops:
        ctx.bad(finding_func(prop, rid, gv, f"no loop over `{lst_name}`: validators are never called"))
        return
    inner_fn = None
    for loop in loops:
        var = loop.target.id if isinstance(loop.target, ast.Name) else None
        inner_fn = func_of(loop)
        call_stmt = None
        for s in loop.body:
            if isinstance(s, ast.Expr) and isinstance(s.value, ast.Call) and isinstance(s.value.func, ast.Name) and s.value.func.id == var:
                call_stmt = s
        bad = [s for s in ast.walk(loop) if isinstance(s, (ast.Break, ast.Continue, ast.Return, ast.Try))]
        ev_param = inner_fn.args.args[0].arg if inner_fn and inner_fn.args.args else None
        if call_stmt is None:
            ctx.bad(finding_at(prop, rid, loop, "validator is not called unconditionally as a statement of the loop body"))
        elif bad:
            ctx.bad(finding_at(prop, rid, bad[0], f"`{type(bad[0]).__name__.lower()}` inside the validator loop: later validators can be skipped or their verdict swallowed"))
        elif loop.orelse or not first_arg_is(call_stmt.value, ev_param):
            ctx.bad(finding_at(prop, rid, call_stmt, "validator is not called with the event parameter"))
        else:
            ctx.ok(rid, loop, f"for {var} in {lst_name}: {var}(event, config) - unconditional")
    # (c) awaited, not inside a handler
    outer = None
    for n in ast.walk(gv):
        if isinstance(n, ast.Await):
            c = n.value
            if isinstance(c, ast.Call) and (
                call_matches(c, "run_in_executor") and any(isinstance(a, ast.Name) and inner_fn is not None and a.id == inner_fn.name for a in c.args)
                or (inner_fn is not None and isinstance(c.func, ast.Name) and c.func.id == inner_fn.name)
            ):
                outer = func_of(n)
                tr = [a for a in _ancestors_until(n, outer) if isinstance(a, ast.Try)]
                if tr:
                    ctx.bad(finding_at(prop, rid, n, "the validator future is awaited inside a try block: a rejection can be swallowed"))
                else:
                    ctx.ok(rid, n, "await run_in_executor(None, inner, event, config) - exception propagates")
    direct = inner_fn is not None and any(
        isinstance(c.func, ast.Name) and c.func.id == inner_fn.name for c in ast.walk(gv) if isinstance(c, ast.Call)
    )
    if outer is None and not direct:
        ctx.bad(finding_func(prop, rid, gv, "the validator loop is never awaited/called"))
        return
    # (c') every normal exit of the coroutine has awaited the chain (no cache / early return around it)
    if outer is not None:
        ocfg = cfg_of(outer)
        gates = {}
        for n_, d_ in ocfg.g.nodes(data=True):
            s_ = d_["ast"]
            if s_ is not None and d_["kind"] == "stmt":
                for a_ in own_nodes(s_):
                    if isinstance(a_, ast.Await) and isinstance(a_.value, ast.Call) and (call_matches(a_.value, "run_in_executor") or (inner_fn is not None and isinstance(a_.value.func, ast.Name) and a_.value.func.id == inner_fn.name)):
                        gates[n_] = set(NORMAL)
        path = must_pass(ocfg, gates, [ocfg.exit])
        if path:
            last = next((ocfg.ast_of(x) for x in reversed(path) if ocfg.ast_of(x) is not None), outer)
            ctx.bad(finding_at(prop, rid, last, "the validation coroutine can return without having run the validator chain (memoised verdict / early return): "
                               "time- and state-dependent validators are skipped for a re-sent event", path=ocfg.describe_path(path)[-5:]))
        else:
            ctx.ok(rid, outer, "every normal exit of the coroutine awaited the chain")
    # (d) returned
    rets = [n for n in walk_no_nested(gv) if isinstance(n, ast.Return)]
    good = [r for r in rets if isinstance(r.value, ast.Name) and outer is not None and r.value.id == outer.name]
    if len(good) != len(rets) or not rets:
        ctx.bad(finding_func(prop, rid, gv, "get_validator does not return the coroutine that runs the chain"))
    else:
        ctx.ok(rid, rets[0], f"returns {outer.name}")
    # outer passes its own event parameter on
    if outer is not None:
        evp = outer.args.args[0].arg
        for c in ast.walk(outer):
            if isinstance(c, ast.Call) and call_matches(c, "run_in_executor"):
                if not any(isinstance(a, ast.Name) and a.id == evp for a in c.args):
                    ctx.bad(finding_at(prop, rid, c, "the event parameter is not what is handed to the chain"))


def _ancestors_until(node, stop):
    n = getattr(node, "_parent", None)
    while n is not None and n is not stop:
        yield n
        n = getattr(n, "_parent", None)


def rule_defaults(program, ctx, prop=P, rid="C03.defaults"):
    ctx.rule(
        rid,
        "each default validator list (BaseStorage.__init__, DBStorage.parse_options, shipped config.yaml) "
        "contains nostr_relay.validators.is_signed; `validate_event` is assigned only from get_validator(...) "
        "in BaseStorage.__init__",
        floor=4,
    )
    init = program.func("nostr_relay.storage.base:BaseStorage.__init__")
    found = False
    for c in ast.walk(init):
        if isinstance(c, ast.Call) and call_name(c).endswith(".pop") and c.args and isinstance(c.args[0], ast.Constant) and c.args[0].value == "validators":
            found = True
            lst = const_str_list(c.args[1]) if len(c.args) > 1 else None
            if lst is None or IS_SIGNED not in lst:
                ctx.bad(finding_at(prop, rid, c, "default validator list of BaseStorage lacks is_signed"))
            else:
                ctx.ok(rid, c, f"BaseStorage default validators = {lst}")
    if not found:
        ctx.bad(finding_func(prop, rid, init, "BaseStorage.__init__ no longer reads options['validators'] with a default"))
    po = program.func("nostr_relay.storage.db:DBStorage.parse_options")
    found = False
    for d in ast.walk(po):
        if isinstance(d, ast.Dict):
            for k, v in zip(d.keys, d.values):
                if isinstance(k, ast.Constant) and k.value == "validators":
                    found = True
                    lst = const_str_list(v)
                    if lst is None or IS_SIGNED not in lst:
                        ctx.bad(finding_at(prop, rid, d, "default validator list of DBStorage.parse_options lacks is_signed"))
                    else:
                        ctx.ok(rid, d, f"DBStorage.parse_options default validators = {lst}")
    if not found:
        ctx.info(rid, po, "parse_options has no own default (falls back to BaseStorage default)")
    for rel, text in program.extra_files.items():
        if rel.endswith("config.yaml"):
            items = yaml_list(text, "validators")
            if items is not None:
                node = program.module("nostr_relay.config").tree
                if IS_SIGNED not in items:
                    f = finding_func(prop, rid, init, f"shipped {rel} configures validators without is_signed", text=f"{rel}: validators: {items}")
                    f.unit = rel
                    f.qual = "storage.validators"
                    ctx.bad(f)
                else:
                    ctx.instances.append(__import__("sa.ctx", fromlist=["Instance"]).Instance(rid, rel, f"validators = {items}", "ok"))
    # single writer of validate_event
    writers = []
    for m in program.modules.values():
        for n in ast.walk(m.tree):
            tgt = []
            if isinstance(n, ast.Assign):
                tgt = n.targets
            elif isinstance(n, (ast.AugAssign, ast.AnnAssign)):
                tgt = [n.target]
            for t in tgt:
                for a in ast.walk(t):
                    if isinstance(a, ast.Attribute) and a.attr == "validate_event":
                        writers.append(n)
            if isinstance(n, ast.Call) and call_name(n) == "setattr" and len(n.args) > 1 and isinstance(n.args[1], ast.Constant) and n.args[1].value == "validate_event":
                writers.append(n)
    for w in writers:
        okw = (
            qual_of(w) == "BaseStorage.__init__"
            and isinstance(w, ast.Assign)
            and isinstance(w.value, ast.Call)
            and call_matches(w.value, "get_validator")
        )
        if okw:
            ctx.ok(rid, w, "validate_event = get_validator(<configured list>)")
        else:
            ctx.bad(finding_at(prop, rid, w, "validate_event is (re)assigned outside BaseStorage.__init__/get_validator"))
    if not writers:
        ctx.bad(finding_func(prop, rid, init, "validate_event is never assigned"))


def _verify_atom(evname):
    def pred(expr, pol):
        return (
            pol
            and isinstance(expr, ast.Call)
            and isinstance(expr.func, ast.Attribute)
            and expr.func.attr == "verify"
            and isinstance(expr.func.value, ast.Name)
            and expr.func.value.id == evname
        )
    return pred


def rule_is_signed(program, ctx, prop=P, rid="C03.is_signed"):
    ctx.rule(
        rid,
        "validators.is_signed: with the branch edges on which `event.verify()` is known truthy removed, "
        "the normal exit is unreachable (every accepting path has seen a truthy verify())",
        floor=1,
    )
    fn = program.func("nostr_relay.validators:is_signed")
    ev = fn.args.args[0].arg
    cfg = cfg_of(fn)
    # follow `v = event.verify()` one step
    alias = set()
    for n in walk_no_nested(fn):
        if isinstance(n, ast.Assign) and _verify_atom(ev)(strip_await(n.value), True):
            for t in n.targets:
                if isinstance(t, ast.Name):
                    alias.add(t.id)
    base = _verify_atom(ev)

    def pred(expr, pol):
        return base(expr, pol) or (pol and isinstance(expr, ast.Name) and expr.id in alias)

    passes = test_edges(cfg, pred)
    path = must_pass(cfg, passes, [cfg.exit])
    if path:
        ctx.bad(finding_func(prop, rid, fn, "is_signed can return normally without a truthy event.verify()",
                             text="def is_signed(...)", path=cfg.describe_path(path)))
    else:
        ctx.ok(rid, fn, f"normal exit only through {len(passes)} edge(s) on which {ev}.verify() is truthy")


def _is_hash_expr(e, aliases) -> bool:
    for n in ast.walk(e):
        if isinstance(n, ast.Call):
            nm = call_name(n)
            if nm.endswith("compute_id") or nm.endswith("hexdigest"):
                return True
        if isinstance(n, ast.Name) and n.id in aliases:
            return True
    return False


def _is_id_of(e, obj) -> bool:
    return isinstance(e, ast.Attribute) and e.attr == "id" and isinstance(e.value, ast.Name) and e.value.id == obj


def rule_id(program, ctx, prop=P, rid="C03.id"):
    ctx.rule(
        rid,
        "on the admission gate (is_signed -> Event.verify) the client-supplied `.id` is compared with "
        "compute_id(...)/sha256 hexdigest and inequality leads to rejection (raise / falsy verdict); "
        "Event.__init__ keeps a client-supplied id, so without the comparison the stored id is attacker-chosen",
        floor=1,
    )
    sites = [
        (program.func("nostr_relay.validators:is_signed"), None),
        (program.func("aionostr.event:Event.verify"), "self"),
    ]
    okay = []
    for fn, obj in sites:
        obj = obj or fn.args.args[0].arg
        cfg = cfg_of(fn)
        aliases = set()
        for n in walk_no_nested(fn):
            if isinstance(n, ast.Assign) and _is_hash_expr(n.value, set()):
                for t in n.targets:
                    if isinstance(t, ast.Name):
                        aliases.add(t.id)

        def pred(expr, pol, obj=obj, aliases=aliases):
            if not isinstance(expr, ast.Compare) or len(expr.ops) != 1:
                return False
            l, r = expr.left, expr.comparators[0]
            pair = (_is_id_of(l, obj) and _is_hash_expr(r, aliases)) or (_is_id_of(r, obj) and _is_hash_expr(l, aliases))
            if not pair:
                return False
            if isinstance(expr.ops[0], ast.Eq):
                return pol
            if isinstance(expr.ops[0], ast.NotEq):
                return not pol
            return False

        passes = test_edges(cfg, pred)
        if not passes:
            continue
        # accepting exits: normal exit for is_signed; for verify(): a return whose value is not False
        if obj == "self":
            targets = [n for n in cfg.stmt_nodes(lambda s: isinstance(s, ast.Return) and not (isinstance(s.value, ast.Constant) and s.value.value is False))]
        else:
            targets = [cfg.exit]
        path = must_pass(cfg, passes, targets)
        if path:
            ctx.bad(finding_func(prop, rid, fn, "an accepting exit is reachable without `id == recomputed hash` having held",
                                 text=f"def {fn.name}(...)", path=cfg.describe_path(path)))
        else:
            okay.append(fn)
            ctx.ok(rid, fn, f"{obj}.id compared with the recomputed hash; every accepting exit passes the equal edge")
    if not okay and not any(f.rule == rid for f in ctx.findings):
        fn = sites[0][0]
        ctx.bad(finding_func(prop, rid, fn,
                             "neither is_signed nor Event.verify compares the client-supplied id with the recomputed "
                             "hash: a validly signed event is admitted, acknowledged, stored and forwarded under a forged id",
                             text="def is_signed(...)"))


def rule_closed(program, ctx, prop=P, rid="C03.closed"):
    ctx.rule(
        rid,
        "who-may-call: event INSERT only in DBStorage.add_event; writer_queue.put(('add',…)) only in "
        "LMDBStorage.add_event; index.write only from the writer thread / Index.clear / bulk_update; "
        "notify_all_connected only from the add_event closure and NotifyClient.connect (event re-read from the store)",
        floor=3,
    )
    owners = {
        "insert": {"DBStorage.add_event"},
        "enqueue-add": {"LMDBStorage.add_event"},
        "index.write": {"WriterThread.run", "Index.clear", "Index.bulk_update"},
        "notify_all_connected": {"DBStorage.add_event", "LMDBStorage.post_save", "NotifyClient.connect"},
        "notify_other_processes": {"DBStorage.add_event", "LMDBStorage.post_save"},
    }
    for m, c in all_calls(program):
        nm = call_name(c)
        kind = None
        if nm.endswith(".execute") and mentions(c, "event_insert_query"):
            kind = "insert"
        elif nm.endswith("writer_queue.put") and c.args and isinstance(c.args[0], ast.Tuple) and c.args[0].elts and isinstance(c.args[0].elts[0], ast.Constant) and c.args[0].elts[0].value == "add":
            kind = "enqueue-add"
        elif nm.endswith(".write") and len(c.args) >= 2 and m.name == "nostr_relay.storage.kv" and not nm.startswith(("sys.", "fp.", "writer.", "self.writer", "peer")):
            kind = "index.write"
        elif nm.endswith(".notify_all_connected"):
            kind = "notify_all_connected"
        elif nm.endswith(".notify_other_processes"):
            kind = "notify_other_processes"
        if kind is None:
            continue
        q = qual_of(c)
        if q in owners[kind]:
            ctx.ok(rid, c, f"{kind} in owner {q}")
        else:
            ctx.bad(finding_at(prop, rid, c, f"{kind} outside its owner set {sorted(owners[kind])}: an event can be stored/forwarded without the admission gate"))
    # NotifyClient.connect fans out only what it re-read from the store
    nc = program.func("nostr_relay.notifier:NotifyClient.connect")
    for c in ast.walk(nc):
        if isinstance(c, ast.Call) and call_name(c).endswith(".notify_all_connected"):
            arg = c.args[0] if c.args else None
            src_ok = False
            if isinstance(arg, ast.Name):
                for a in stores_of(nc, arg.id):
                    if isinstance(a, ast.Assign) and isinstance(strip_await(a.value), ast.Call) and call_name(strip_await(a.value)).endswith("storage.get_event"):
                        src_ok = True
                    else:
                        src_ok = False
                        break
            if src_ok:
                ctx.ok(rid, c, "cross-worker fan-out of an event obtained from storage.get_event(id)")
            else:
                ctx.bad(finding_at(prop, rid, c, "cross-worker client broadcasts an object that was not re-read from the store"))
    # other entry points go through add_event
    for q in ("nostr_relay.storage.base:BaseStorage.add_service_event", "nostr_relay.cli:load", "nostr_relay.foaf:FOAFBuilder.save"):
        fn = program.func_opt(q)
        if fn is None:
            continue
        if any(call_name(c).endswith(".add_event") for c in ast.walk(fn) if isinstance(c, ast.Call)):
            ctx.ok(rid, fn, f"{q.split(':')[1]} admits through add_event")
        else:
            ctx.info(rid, fn, f"{q.split(':')[1]} no longer calls add_event")


def rule_stored(program, ctx):
    rid = ctx.rule(
        "C03.stored",
        "what is stored is what was verified: the SQL INSERT's column values and the LMDB record's row are the validated event's own fields, "
        "directly or through the reversible hex<->bytes codec - a transformation between validation and storage (stripping, normalising) makes "
        "the stored event no longer hash to its id / verify",
        floor=4,
    )
    from . import c04

    c04.rule_insert_values(program, ctx, P, rid)
    enc = program.func("nostr_relay.storage.kv:encode_event")
    row = next((s.value for s in walk_no_nested(enc) if isinstance(s, ast.Assign) and isinstance(s.value, ast.Tuple)), None)
    if row is None:
        ctx.bad(finding_func(P, rid, enc, "encode_event no longer builds the record row", text="def encode_event(...)"))
        return
    import re as _re

    for i, e in enumerate(row.elts[1:], 1):
        src = ast.unparse(e)
        if _re.fullmatch(r"(?:bytes\.fromhex\()?event\.(\w+?)\)?", src):
            ctx.ok(rid, e, f"LMDB record[{i}] = {src}")
        else:
            ctx.bad(finding_at(P, rid, e, f"LMDB record[{i}] is `{src}`: not the validated event's own field through a reversible codec", text=str(i)))


def rule_config(program, ctx, prop=P, rid="C03.config"):
    ctx.rule(
        rid,
        "who-may-write: the `validators` entry of the storage configuration is only *read* (BaseStorage.__init__ pops it with the default [is_signed]); "
        "no code in the package stores to / rebuilds `Config.storage['validators']` or an options['validators'] - writing a list there (even an empty or "
        "filtered one) disables the default chain, and with it the signature check",
        floor=1,
    )
    n_read = 0
    for m in program.modules.values():
        if m.rel.startswith("<dep>"):
            continue
        for n in ast.walk(m.tree):
            tgt = None
            if isinstance(n, (ast.Assign, ast.AugAssign, ast.AnnAssign, ast.Delete)):
                tgts = n.targets if isinstance(n, (ast.Assign, ast.Delete)) else [n.target]
                for t in tgts:
                    if isinstance(t, ast.Subscript) and isinstance(t.slice, ast.Constant) and t.slice.value in ("validators",) and "Validator" not in ast.unparse(t.value):
                        tgt = t
            if isinstance(n, ast.Call) and isinstance(n.func, ast.Attribute) and n.func.attr in ("update", "setdefault", "__setitem__") and "storage" in ast.unparse(n.func.value).lower() \
                    and any(isinstance(a, ast.Constant) and a.value == "validators" for a in ast.walk(n)):
                tgt = n
            if tgt is not None:
                ctx.bad(finding_at(prop, rid, n, f"`{norm(n, 80)}` writes the `validators` configuration: the chain BaseStorage builds is no longer the configured one / the default "
                                   "[is_signed] (an absent key becomes a present, possibly empty list)"))
            if isinstance(n, ast.Call) and isinstance(n.func, ast.Attribute) and n.func.attr in ("pop", "get") and n.args and isinstance(n.args[0], ast.Constant) and n.args[0].value == "validators":
                n_read += 1
                ctx.ok(rid, n, f"read with default: {norm(n, 80)}")
    if not n_read:
        raise AnalysisError("no read of the `validators` option found")


def rule_ack_sites(program, ctx, prop=P, rid="C03.acksites"):
    ctx.rule(
        rid,
        "an OK acknowledgement is only ever sent for an event that went through storage.add_event: in start_client every ws_send of a frame whose head is \"OK\" sits in the "
        "EVENT branch (after add_event, or in its rate-limit refusal with False) - an OK built elsewhere (e.g. for an AUTH event, which is checked by Event.verify() alone) "
        "acknowledges an id that nobody compared with the hash of the event",
        floor=1,
    )
    from ..lib import guard_atoms
    sc = program.func("nostr_relay.web:start_client")
    n = 0
    for c in walk_no_nested(sc):
        if isinstance(c, ast.List) and c.elts and isinstance(c.elts[0], ast.Constant) and c.elts[0].value == "OK":
            n += 1
            if len(c.elts) > 2 and isinstance(c.elts[2], ast.Constant) and c.elts[2].value is False:
                ctx.ok(rid, c, "OK … false: a refusal acknowledges nothing")
                continue
            atoms = [ast.unparse(e) for e, pol in guard_atoms(c, stop=sc) if pol]
            if any(a.replace(" ", "") in ("command=='EVENT'", "'EVENT'==command") for a in atoms):
                ctx.ok(rid, c, "OK frame in the EVENT branch")
            else:
                ctx.bad(finding_at(prop, rid, c, f"an OK frame `{ast.unparse(c)[:60]}` is built outside the EVENT branch: the id it acknowledges was not checked by the admission pipeline"))
    if not n:
        raise AnalysisError("start_client builds no OK frame")


def rule_verbatim(program, ctx, prop=P, rid="C03.verbatim"):
    from ..lib import concrete_add_events

    ctx.rule(
        rid,
        "what the validators see is what the client sent: each add_event builds the event as `Event(**event_json)` from its own parameter, untouched. A model / "
        "normaliser in between (pydantic coercing \"1700000000\" or 1700000000.0 to int, stripping, lower-casing) makes is_signed's canonical-form guards "
        "(`type(created_at) is int`, lower-case hex) vacuous: they then test the repaired copy, and an event whose wire form does not hash to its id is acknowledged",
        floor=2,
    )
    for fn, _owners in concrete_add_events(program):
        param = fn.args.args[1].arg if len(fn.args.args) > 1 else None
        builds = [c for c in ast.walk(fn) if isinstance(c, ast.Call) and call_name(c) == "Event"]
        if not builds or param is None:
            ctx.bad(finding_func(prop, rid, fn, f"{qual_of(fn)} no longer builds the event with Event(**<its parameter>)", text="def add_event(...) :: Event"))
            continue
        for c in builds:
            okv = not c.args and len(c.keywords) == 1 and c.keywords[0].arg is None and dotted(c.keywords[0].value) == param
            if okv and not [s_ for s_ in stores_of(fn, param)]:
                ctx.ok(rid, c, f"{qual_of(fn)}: Event(**{param}), parameter untouched")
            else:
                ctx.bad(finding_at(prop, rid, c, f"{qual_of(fn)}: the event is built from `{ast.unparse(c)[:70]}`, not from the client's JSON as received: the validators check a "
                                   "coerced / normalised copy, so their format guards no longer speak about what was signed and sent"))


def run(program, ctx):
    from ..lib import rule_awaited

    rule_awaited(program, ctx, P, ANCHORS)
    from . import c04

    c04.rule_canonical(program, ctx, prop=P, rid="C03.canonical")
    rule_gate(program, ctx)
    rule_stored(program, ctx)
    rule_chain(program, ctx)
    rule_verbatim(program, ctx)
    rule_ack_sites(program, ctx)
    from . import c01 as _c01

    # the tag indexer runs between validation and the broadcast: it must read the tags, not rewrite them
    _c01.rule_tagindex(program, ctx, prop=P, rid="C03.tagindex")
    rule_defaults(program, ctx)
    rule_is_signed(program, ctx)
    rule_id(program, ctx)
    rule_closed(program, ctx)
    from . import c16

    c16.rule_handlers(program, ctx, prop=P, rid="C03.handlers")
    rule_config(program, ctx)
    # what is stored / served must hash to the accepted id: the shared JSON encoder does not re-order or substitute tag items
    c04.rule_encoder(program, ctx, prop=P, rid="C03.encoder")
    ctx.not_decided += [
        "correctness of BIP-340 verification, SHA-256 and canonical serialisation inside aionostr/coincurve",
        "NIP-26 delegation conditions (only that a failed delegation signature makes verify() falsy is read)",
    ]


KV = "nostr_relay/storage/kv.py"
DB = "nostr_relay/storage/db.py"
VAL = "nostr_relay/validators.py"

MUTANTS = [
    M("c03-ok-for-auth", "nostr_relay/web.py", "                    throttle = await storage.authenticator.should_throttle(auth_token)\n", "                    throttle = await storage.authenticator.should_throttle(auth_token)\n                    await ws_send(json_dumps([\"OK\", message[1].get(\"id\", \"\"), True, \"\"]))\n", "C03.acksites"),
    M("c03-event-from-copy", "nostr_relay/storage/db.py", "            event = Event(**event_json)", "            event = Event(**{k: (v.strip() if isinstance(v, str) else v) for k, v in event_json.items()})", "C03.verbatim"),
] + [
    M("c03-" + m.id, m.rel, m.old, m.new, "C03.canonical", m.where, False, m.count) for m in __import__("sa.props.c04", fromlist=["MUTANTS"]).MUTANTS if m.expect == "C04.canonical"
] + [
    M("c03-stored-content-stripped", DB, "                                content=event.content,", "                                content=event.content.strip(),", "C03.stored"),
    M("c03-stored-kv-lower", KV, "        event.content,\n        event.tags,", "        event.content.replace(\"\\x00\", \"\"),\n        event.tags,", "C03.stored"),
    M("c03-id-compare-dropped", VAL,
      "    if event.id != Event.compute_id(\n        event.pubkey, event.created_at, event.kind, event.tags, event.content\n    ):\n        raise StorageError(\"invalid: Bad id\")\n",
      "", "C03.id"),
    M("c03-id-compare-logged-only", VAL, "        raise StorageError(\"invalid: Bad id\")", "        logging.getLogger(__name__).warning(\"bad id\")", "C03.id"),
    M("c03-kv-drop-validate", KV, "        await self.validate_event(event, Config)\n", "", "C03.gate", canary=True),
    M("c03-db-validate-after-insert", DB,
      "        await self.validate_event(event, Config)\n        # check authentication",
      "        # check authentication", "C03.gate"),
    M("c03-db-validate-swallowed", DB,
      "        await self.validate_event(event, Config)\n",
      "        try:\n            await self.validate_event(event, Config)\n        except StorageError:\n            self.log.debug('invalid')\n", "C03.gate"),
    M("c03-kv-validate-unawaited", KV, "        await self.validate_event(event, Config)\n", "        self.validate_event(event, Config)\n", "C03.gate"),
    M("c03-chain-break", VAL, "                func(event, config)\n", "                func(event, config)\n                break\n", "C03.chain"),
    M("c03-chain-try", VAL, "                func(event, config)\n",
      "                try:\n                    func(event, config)\n                except StorageError:\n                    pass\n", "C03.chain"),
    M("c03-chain-slice", VAL, "for funcname in function_names]", "for funcname in function_names if 'signed' not in funcname]", "C03.chain"),
    M("c03-default-unsigned", "nostr_relay/storage/base.py", 'self.options.pop("validators", ["nostr_relay.validators.is_signed"])',
      'self.options.pop("validators", ["nostr_relay.validators.is_not_too_large"])', "C03.defaults"),
    M("c03-is-signed-returns", VAL, "    if not event.verify():\n        raise StorageError(\"invalid: Bad signature\")",
      "    if not event.verify():\n        return False", "C03.is_signed"),
    M("c03-second-insert", "nostr_relay/storage/base.py", "        await self.add_event(event.to_json_object())\n        return event",
      "        await self.db_conn.execute(self.event_insert_query.values(id=event.id_bytes))\n        return event", "C03.closed"),
    M("c03-revalidate-assign", DB, "        self.subscription_class = self.options[\"subscription_class\"]\n",
      "        self.subscription_class = self.options[\"subscription_class\"]\n        self.validate_event = get_validator([])\n", "C03.defaults"),
]

EQUIVS = [
    E("c03-eq-is-signed-else", VAL, "    if not event.verify():\n        raise StorageError(\"invalid: Bad signature\")",
      "    if event.verify():\n        pass\n    else:\n        raise StorageError(\"invalid: Bad signature\")"),
    E("c03-eq-id-eq-form", VAL, "    ):\n        raise StorageError(\"invalid: Bad id\")",
      "    ):\n        raise StorageError(\"invalid: id is not the event hash\")"),
]

# functions whose syntactic mutants are used for the thorough tier's sensitivity figure (sa/automut.py)
ANCHORS = [
    "nostr_relay.storage.db:DBStorage.add_event",
    "nostr_relay.storage.kv:LMDBStorage.add_event",
    "nostr_relay.validators:get_validator",
    "nostr_relay.validators:is_signed",
]
