"""C18 - rate limits bound admitted messages per window and do not over-block (structural part).

  C18.consulted   the limiter verdict dominates every command branch of the connection handler and the websocket accept
  C18.record      a timestamp is recorded iff the message was admitted, into the deque that was evaluated; evaluation does not record
  C18.bounded     per-address state is bounded by the rates: a per-element eviction bounded by the longest interval exists on the admission
                  path (a whole-deque clear() guarded by idleness is not one)
  C18.ends        newest/oldest orientation agreement between insertion, idleness tests, eviction and cleanup
  C18.precedence  the early return that lets a specific-address section override the generic rules is taken only when that section has a rule
                  for this command
  C18.cleanup     idle-state cleanup runs when a connection ends
"""
from __future__ import annotations

import ast

from ..cfg import cfg_of
from ..core import (
    AnalysisError,
    ancestors,
    call_name,
    dotted,
    enclosing_stmt,
    finding_at,
    finding_func,
    norm,
    own_calls,
    qual_of,
    walk_no_nested,
)
from ..lib import NORMAL, must_pass, stores_of, strip_await, test_edges
from ..selftest import E, M

P = "C18"


def rule_consulted(program, ctx):
    rid = ctx.rule(
        "C18.consulted",
        "start_client: every `command == …` dispatch test (and storage call) is reachable only via the edge on which "
        "`rate_limiter.is_limited(remote_addr, message)` is false (or no limiter is configured); the limited edge sends a refusal and continues; "
        "NostrAPI.on_websocket: ws.accept() only after the ACCEPT check",
        floor=2,
    )
    sc = program.func("nostr_relay.web:start_client")
    cfg = cfg_of(sc)

    def pred(expr, pol):
        if isinstance(expr, ast.Call) and call_name(expr) == "rate_limiter.is_limited":
            return (not pol) and len(expr.args) == 2 and dotted(expr.args[0]) == "remote_addr" and dotted(expr.args[1]) == "message"
        if isinstance(expr, ast.Name) and expr.id == "rate_limiter":
            return not pol
        return False

    passes = test_edges(cfg, pred)
    if not passes:
        ctx.bad(finding_func(P, rid, sc, "the connection handler never consults rate_limiter.is_limited(remote_addr, message)", text="def start_client(...) :: is_limited"))
    targets = []
    for n, d in cfg.g.nodes(data=True):
        s = d["ast"]
        if s is None:
            continue
        if d["kind"] == "test" and isinstance(s, ast.If) and any(isinstance(c, ast.Compare) and dotted(c.left) == "command" for c in ast.walk(s.test)):
            # the EVENT test inside the limited branch itself is on the limited edge by design
            inside_limited = any(isinstance(a, ast.If) and "is_limited" in ast.unparse(a.test) for a in ancestors(s))
            if not inside_limited:
                targets.append((n, f"dispatch `{ast.unparse(s.test)[:40]}`"))
        if d["kind"] == "stmt":
            for c in own_calls(s):
                if call_name(c) in ("storage.subscribe", "storage.unsubscribe", "storage.add_event", "storage.authenticator.authenticate") and not any(isinstance(a, ast.Try) and s in a.finalbody for a in ancestors(s)) and "client_id)" != ast.unparse(c)[-10:]:
                    targets.append((n, call_name(c)))
    for n, label in targets:
        st = cfg.ast_of(n)
        if any(isinstance(a, ast.Try) and any(st is x or any(st is y for y in ast.walk(x)) for x in a.finalbody) for a in ancestors(st)):
            continue
        if must_pass(cfg, passes, [n]):
            ctx.bad(finding_at(P, rid, st, f"{label} is reachable without the rate limiter having admitted the message"))
        else:
            ctx.ok(rid, st, f"{label}: only after is_limited(...) was false")
    ws = program.func("nostr_relay.web:NostrAPI.on_websocket")
    cfg2 = cfg_of(ws)

    def pred2(expr, pol):
        if isinstance(expr, ast.Call) and call_name(expr) == "self.rate_limiter.is_limited":
            return (not pol) and len(expr.args) == 2 and isinstance(expr.args[1], ast.List) and expr.args[1].elts and getattr(expr.args[1].elts[0], "value", None) == "ACCEPT"
        if dotted(expr) == "self.rate_limiter":
            return not pol
        return False

    p2 = test_edges(cfg2, pred2)
    acc = cfg2.stmt_nodes(lambda s: any(call_name(c) == "ws.accept" for c in own_calls(s)), kinds=("stmt",))
    sta = cfg2.stmt_nodes(lambda s: any(call_name(c) == "start_client" for c in own_calls(s)), kinds=("stmt",))
    for a in acc + sta:
        if must_pass(cfg2, p2, [a]):
            ctx.bad(finding_at(P, rid, cfg2.ast_of(a), "a websocket is accepted / served without the ACCEPT rate check"))
        else:
            ctx.ok(rid, cfg2.ast_of(a), "only after the ACCEPT rate check")
    # the same limiter object is handed to start_client
    for c in ast.walk(ws):
        if isinstance(c, ast.Call) and call_name(c) == "start_client":
            kw = next((k for k in c.keywords if k.arg == "rate_limiter"), None)
            if kw is None or dotted(kw.value) != "self.rate_limiter":
                ctx.bad(finding_at(P, rid, c, "start_client is not given the configured rate limiter"))


def rule_counted_once(program, ctx, prop=P, rid="C18.once"):
    ctx.rule(
        rid,
        "a message is counted once: is_limited both decides and records, so along a connection's path on_websocket -> start_client the limiter is consulted once per "
        "accepted connection (the literal [\"ACCEPT\"] in on_websocket only) and once per received frame (`message` in start_client only); a second consultation of the "
        "same thing halves the configured rate - the message is refused although no rule has passed n",
        floor=2,
    )
    ws = program.func("nostr_relay.web:NostrAPI.on_websocket")
    sc = program.func("nostr_relay.web:start_client")
    recv = {t.id for s_ in walk_no_nested(sc) if isinstance(s_, ast.Assign) and "ws_recv" in ast.unparse(s_.value) or isinstance(s_, ast.Assign) and "json_loads" in ast.unparse(s_.value) or isinstance(s_, ast.Assign) and "validate_message" in ast.unparse(s_.value) for t in s_.targets if isinstance(t, ast.Name)}
    for fn, want in ((ws, "accept"), (sc, "frame")):
        calls = [c for c in walk_no_nested(fn) if isinstance(c, ast.Call) and isinstance(c.func, ast.Attribute) and c.func.attr == "is_limited"]
        for c in calls:
            arg = c.args[1] if len(c.args) > 1 else None
            literal = isinstance(arg, (ast.List, ast.Tuple))
            if want == "frame" and (literal or not (isinstance(arg, ast.Name) and arg.id in recv)):
                ctx.bad(finding_at(prop, rid, c, f"start_client consults the limiter for `{ast.unparse(arg)[:40] if arg is not None else ''}`, which is not the frame just received: "
                                   "every connection driven through NostrAPI.on_websocket has already been counted there - the pseudo-command is recorded twice and refused at half the configured rate"))
            elif want == "accept" and not literal:
                ctx.bad(finding_at(prop, rid, c, "on_websocket consults the limiter for something other than the literal connection pseudo-command"))
            else:
                ctx.ok(rid, c, f"{qual_of(fn)}: is_limited({ast.unparse(arg)[:30]})")
        if len(calls) > 1:
            ctx.bad(finding_at(prop, rid, calls[1], f"{qual_of(fn)} consults the limiter {len(calls)} times per {'connection' if want == 'accept' else 'frame'}: each call records the message again"))
        if not calls:
            ctx.bad(finding_func(prop, rid, fn, f"{qual_of(fn)} no longer consults the limiter", text=f"def {fn.name}(...) :: is_limited"))


MONOTONIC = ("time.perf_counter", "time.monotonic", "time.perf_counter_ns", "time.monotonic_ns")


def rule_clock(program, ctx, prop=P, rid="C18.clock"):
    ctx.rule(
        rid,
        "windows are measured on a clock that cannot step: RateLimiter._timestamp (the only time source of is_limited and cleanup) reads time.perf_counter / "
        "time.monotonic - with the wall clock (time.time, datetime.now) a backwards step (NTP, manual set, VM resume) makes `now - ts[0]` negative or small, the old entries "
        "stay inside every window and messages are refused although no rule has passed n in any real interval; a forward step forgets the history (> n pass)",
        floor=1,
    )
    rl = program.cls("nostr_relay.rate_limiter:RateLimiter")
    ts = rl.methods.get("_timestamp")
    if ts is None:
        raise AnalysisError("RateLimiter._timestamp not found")
    imports = program.imports_of(rl.module)
    n = 0
    for c in ast.walk(ts):
        if isinstance(c, ast.Call):
            d = dotted(c.func)
            if not d or d.startswith("self."):
                continue
            head, _, rest = d.partition(".")
            full = imports.get(head, head) + ("." + rest if rest else "")
            n += 1
            if full in MONOTONIC:
                ctx.ok(rid, c, f"_timestamp reads {full}")
            elif full.startswith(("time.", "datetime.")) or full in ("time",):
                ctx.bad(finding_at(prop, rid, c, f"RateLimiter._timestamp reads `{full}`, a clock that can be stepped: the sliding windows are no longer real intervals"))
    if not n:
        ctx.bad(finding_func(prop, rid, ts, "RateLimiter._timestamp reads no clock", text="def _timestamp(...)"))
    # every `now` in the limiter comes from _timestamp
    for name in ("is_limited", "cleanup"):
        fn = rl.methods.get(name)
        for c in (ast.walk(fn) if fn is not None else []):
            if isinstance(c, ast.Call) and not dotted(c.func).startswith("self."):
                head, _, rest = dotted(c.func).partition(".")
                full = imports.get(head, head) + ("." + rest if rest else "")
                if full.startswith(("time.", "datetime.")) and full not in MONOTONIC:
                    ctx.bad(finding_at(prop, rid, c, f"RateLimiter.{name} reads `{full}` directly instead of the limiter's monotonic _timestamp()"))


def rule_pruned(program, ctx, prop=P, rid="C18.pruned"):
    ctx.rule(
        rid,
        "the per-address history is pruned on every evaluation: in RateLimiter.evaluate_rules no `return` is reachable with a non-empty history unless the path went through the "
        "statement that drops the entries older than the longest interval (`timestamps.pop()` loop / `clear()`) - is_limited records every admission, so a fast path that "
        "returns early (e.g. for exempt `-1` rules) lets the history of the busiest addresses grow with the connection's lifetime",
        floor=1,
    )
    fn = program.cls("nostr_relay.rate_limiter:RateLimiter").methods.get("evaluate_rules")
    if fn is None:
        raise AnalysisError("RateLimiter.evaluate_rules not found")
    cfg = cfg_of(fn)
    hist = fn.args.args[2].arg if len(fn.args.args) > 2 else "timestamps"
    prune = cfg.stmt_nodes(lambda s: any(isinstance(c.func, ast.Attribute) and c.func.attr in ("pop", "clear", "popleft") and dotted(c.func.value) == hist for c in own_calls(s)), kinds=("stmt",))
    loops = [n for n, d in cfg.g.nodes(data=True) if d["kind"] == "loop" and isinstance(d["ast"], ast.While) and any(n2 in prune for n2 in cfg.reach(list(cfg.succ(n, kinds={"t"})), kinds=NORMAL))]
    if not prune:
        ctx.bad(finding_func(prop, rid, fn, "evaluate_rules no longer prunes the history", text="def evaluate_rules(...) :: prune"))
        return

    def empty(expr, pol):
        return (isinstance(expr, ast.Name) and expr.id == hist and not pol) or (isinstance(expr, ast.UnaryOp) and isinstance(expr.op, ast.Not) and isinstance(expr.operand, ast.Name) and expr.operand.id == hist and pol)

    passes = test_edges(cfg, empty)
    for n in prune + loops:
        passes[n] = set(NORMAL)
    rets = cfg.stmt_nodes(lambda s: isinstance(s, ast.Return), kinds=("stmt",)) + [cfg.exit]
    for r in rets:
        path = must_pass(cfg, passes, [r])
        if path:
            st = cfg.ast_of(r) or fn
            ctx.bad(finding_at(prop, rid, st, "evaluate_rules can return with a non-empty history that was not pruned on this call: entries older than every interval accumulate",
                               path=cfg.describe_path(path)[-4:], text="return without pruning"))
            return
    ctx.ok(rid, fn, "every return with a non-empty history follows the pruning")


def rule_key(program, ctx, prop=P, rid="C18.key"):
    ctx.rule(
        rid,
        "one history per peer address: RateLimiter.is_limited keys the per-IP history by `ip_address(client_address).packed` of the address it was given - the parameter is "
        "not re-bound or cut beforehand (a host:port splitter that takes a bare IPv6 address' last group for a port files two peers under one history: the second is "
        "refused on its first message; an address it mangles beyond parsing raises and drops the connection)",
        floor=1,
    )
    fn = program.cls("nostr_relay.rate_limiter:RateLimiter").methods.get("is_limited")
    if fn is None:
        raise AnalysisError("RateLimiter.is_limited not found")
    p = fn.args.args[1].arg
    reb = [s_ for s_ in stores_of(fn, p)]
    for s_ in reb:
        ctx.bad(finding_at(prop, rid, s_, f"is_limited re-binds its address parameter (`{ast.unparse(s_)[:60]}`) before it selects the history: distinct peers can share one "
                           "history, and the specific-address rule lookup no longer sees the address the server reported"))
    keys = [c for c in ast.walk(fn) if isinstance(c, ast.Call) and call_name(c).split(".")[-1] == "ip_address"]
    for c in keys:
        if c.args and dotted(c.args[0]) == p:
            ctx.ok(rid, c, f"history key = ip_address({p}).packed")
        else:
            ctx.bad(finding_at(prop, rid, c, f"the history key is derived from `{ast.unparse(c.args[0])[:40] if c.args else ''}`, not from the address parameter itself"))
    if not keys:
        ctx.bad(finding_func(prop, rid, fn, "is_limited no longer keys the history by ip_address(<address>)", text="def is_limited(...) :: key"))


def rule_record(program, ctx):
    rid = ctx.rule(
        "C18.record",
        "RateLimiter.is_limited: `<deque>.insert/append(<now>)` is reachable only via the false edge of `self.evaluate_rules(rules[command], <same deque>)`; "
        "evaluate_rules itself never inserts; the deque is recent_commands[<scope key>][command]",
        floor=1,
    )
    fn = program.func("nostr_relay.rate_limiter:RateLimiter.is_limited")
    cfg = cfg_of(fn)
    ins = []
    for n, d in cfg.g.nodes(data=True):
        s = d["ast"]
        if s is not None and d["kind"] == "stmt":
            for c in own_calls(s):
                if isinstance(c.func, ast.Attribute) and c.func.attr in ("insert", "append", "appendleft") and isinstance(c.func.value, ast.Name):
                    ins.append((n, c))
    if not ins:
        ctx.bad(finding_func(P, rid, fn, "admitted messages are never recorded: no limit can ever trigger", text="def is_limited(...) :: record"))
    for n, c in ins:
        dq = c.func.value.id

        from ..lib import expand_aliases

        def canon(e):
            return ast.unparse(expand_aliases(fn, e))

        dq_canon = canon(ast.Name(id=dq, ctx=ast.Load()))
        rules_canon = canon(ast.parse("rules[command]", mode="eval").body)

        def pred(expr, pol, dq=dq):
            return (not pol) and isinstance(expr, ast.Call) and call_name(expr) == "self.evaluate_rules" and len(expr.args) == 2 \
                and canon(expr.args[1]) == dq_canon and canon(expr.args[0]) == rules_canon

        passes = test_edges(cfg, pred)
        if must_pass(cfg, passes, [n]):
            ctx.bad(finding_at(P, rid, cfg.ast_of(n), f"a timestamp is recorded in `{dq}` on a path where evaluate_rules(rules[command], {dq}) was not false: refused messages count against the "
                               "limit (over-blocking) or the wrong deque is charged"))
        else:
            ctx.ok(rid, cfg.ast_of(n), f"record into `{dq}` iff evaluate_rules(rules[command], {dq}) is false")
        ts = c.args[-1]
        if ast.unparse(ts) != "self._timestamp()":
            ctx.bad(finding_at(P, rid, cfg.ast_of(n), "the recorded value is not self._timestamp()"))
        src = [s for s in stores_of(fn, dq) if isinstance(s, ast.Assign)]
        if src and all("self.recent_commands[" in ast.unparse(s.value) and ast.unparse(s.value).endswith("[command]") for s in src):
            ctx.ok(rid, src[0], f"`{dq}` = self.recent_commands[<scope>][command]")
        else:
            ctx.bad(finding_func(P, rid, fn, f"`{dq}` is not the per-scope, per-command deque of recent_commands", text="def is_limited(...) :: deque"))
    ev = program.func("nostr_relay.rate_limiter:RateLimiter.evaluate_rules")
    if any(isinstance(c, ast.Call) and isinstance(c.func, ast.Attribute) and c.func.attr in ("insert", "append", "appendleft", "extend") for c in ast.walk(ev)):
        ctx.bad(finding_func(P, rid, ev, "evaluate_rules records timestamps: evaluating a refused message charges the limit", text="def evaluate_rules(...) :: insert"))
    else:
        ctx.ok(rid, ev, "evaluate_rules only reads/evicts")


def rule_bounded_ends(program, ctx):
    rid = ctx.rule(
        "C18.bounded",
        "growth without eviction: the deque receives one entry per admitted message in is_limited; on that path (evaluate_rules) there must be a "
        "per-element eviction (`pop/popleft` in a loop, slice deletion, rebuild by filter, or maxlen=) whose condition compares an element's age with the "
        "longest rule interval",
        floor=1,
    )
    rid2 = ctx.rule(
        "C18.ends",
        "orientation: insertion end (insert(0,…)/appendleft = newest first; append = newest last) must agree with every idleness test "
        "`now - <deque>[i] > interval` (i = newest end) in evaluate_rules and cleanup, and evictions must take from the oldest end",
        floor=2,
    )
    isl = program.func("nostr_relay.rate_limiter:RateLimiter.is_limited")
    newest = None
    for c in ast.walk(isl):
        if isinstance(c, ast.Call) and isinstance(c.func, ast.Attribute):
            if c.func.attr == "insert" and c.args and isinstance(c.args[0], ast.Constant) and c.args[0].value == 0 or c.func.attr == "appendleft":
                newest = 0
            elif c.func.attr == "append" and "timestamp" in ast.unparse(c):
                newest = -1
    if newest is None:
        ctx.bad(finding_func(P, rid2, isl, "cannot determine at which end admitted timestamps are inserted", text="def is_limited(...) :: end"))
        return
    ctx.ok(rid2, isl, f"newest entry at index {newest}")
    oldest = -1 if newest == 0 else 0
    ev = program.func("nostr_relay.rate_limiter:RateLimiter.evaluate_rules")
    cl = program.func("nostr_relay.rate_limiter:RateLimiter.cleanup")
    for fn in (ev, cl):
        for n in ast.walk(fn):
            if isinstance(n, ast.Compare) and isinstance(n.ops[0], (ast.Gt, ast.GtE)):
                subs = [s for s in ast.walk(n.left) if isinstance(s, ast.Subscript) and isinstance(s.slice, (ast.Constant, ast.UnaryOp))]
                for s in subs:
                    idx = s.slice.value if isinstance(s.slice, ast.Constant) else (-s.slice.operand.value if isinstance(s.slice.operand, ast.Constant) else None)
                    if idx not in (0, -1):
                        continue
                    # what does the true branch do?  clear() of everything => idx must be the newest; pop of one => idx must be the oldest
                    st = enclosing_stmt(n)
                    body_txt = ast.unparse(st)
                    whole = ".clear()" in body_txt and isinstance(st, ast.If)
                    per_elem = isinstance(st, ast.While) or (".pop" in body_txt and not whole)
                    if whole and idx != newest:
                        ctx.bad(finding_at(P, rid2, n, f"{fn.name}: the whole history is cleared when the entry at index {idx} is old, but the newest entry is at index {newest}: "
                                           "an address with recent admissions has its history wiped and can exceed its limit"))
                    elif per_elem and idx != oldest:
                        ctx.bad(finding_at(P, rid2, n, f"{fn.name}: per-element eviction inspects index {idx}, the oldest entry is at index {oldest}"))
                    else:
                        ctx.ok(rid2, n, f"{fn.name}: `{ast.unparse(n)[:50]}` looks at the {'newest' if idx == newest else 'oldest'} entry")
    # eviction
    evict = None
    for n in ast.walk(ev):
        if isinstance(n, ast.While) and any(isinstance(c, ast.Call) and isinstance(c.func, ast.Attribute) and c.func.attr in ("pop", "popleft") for s in n.body for c in ast.walk(s)):
            evict = n
        if isinstance(n, ast.Delete) and any(isinstance(t, ast.Subscript) and isinstance(t.slice, ast.Slice) for t in n.targets):
            evict = n
    init = program.func("nostr_relay.rate_limiter:RateLimiter.__init__")
    maxlen = any(isinstance(c, ast.Call) and call_name(c).endswith("deque") and any(k.arg == "maxlen" for k in c.keywords) for c in ast.walk(init))
    if maxlen:
        ctx.ok(rid, init, "deque(maxlen=…) bounds the state")
    elif evict is None:
        ctx.bad(finding_func(P, rid, ev, "per-address history grows with connection lifetime: the only removal is clear() once the *newest* entry is older than the longest interval; "
                             "under sustained traffic just below the limit the deque and the O(n) scan per message grow without bound", text="def evaluate_rules(...) :: eviction"))
    else:
        pops = [c for s in evict.body for c in ast.walk(s) if isinstance(c, ast.Call) and isinstance(c.func, ast.Attribute) and c.func.attr in ("pop", "popleft")] if isinstance(evict, ast.While) else []
        end_ok = all((c.func.attr == "pop" and not c.args and oldest == -1) or (c.func.attr == "popleft" and oldest == 0) for c in pops)
        cond = ast.unparse(evict.test) if isinstance(evict, ast.While) else ""
        bound_ok = "max" in cond or "interval" in cond
        if end_ok and bound_ok:
            ctx.ok(rid, evict, f"per-element eviction `{norm(evict, 80)}` from the oldest end, bounded by the longest interval")
        else:
            ctx.bad(finding_at(P, rid, evict, "the eviction removes from the newest end or is not bounded by the longest rule interval: entries that still count are dropped (the limit is exceeded)"))


def rule_allrules(program, ctx):
    rid = ctx.rule(
        "C18.allrules",
        "RateLimiter.evaluate_rules: every (interval, n) rule of the command is evaluated - inside the loop over the rules only `return True` (limited) may "
        "leave early; a `return False` / `break` inside it skips the remaining (shorter) rules",
        floor=1,
    )
    fn = program.func("nostr_relay.rate_limiter:RateLimiter.evaluate_rules")
    loop = next((l for l in ast.walk(fn) if isinstance(l, ast.For) and dotted(l.iter) == "rules"), None)
    if loop is None:
        ctx.bad(finding_func(P, rid, fn, "evaluate_rules no longer iterates the rules", text="def evaluate_rules(...) :: loop"))
        return
    bad = []
    for n in ast.walk(loop):
        if isinstance(n, ast.Return) and not (isinstance(n.value, ast.Constant) and n.value.value is True):
            bad.append(n)
        if isinstance(n, ast.Break):
            # a break of the *inner* timestamp scan is fine; a break of the rule loop is not
            inner = next((a for a in ancestors(n) if isinstance(a, (ast.For, ast.While))), None)
            if inner is loop:
                bad.append(n)
    if bad:
        ctx.bad(finding_at(P, rid, bad[0], "the rule loop is left early with a non-limiting verdict: the command's remaining rules (e.g. the per-second rule after the per-hour rule) are never checked"))
    else:
        ctx.ok(rid, loop, "all rules evaluated; only `return True` leaves the loop early")


def rule_precedence(program, ctx):
    rid = ctx.rule(
        "C18.precedence",
        "RateLimiter.is_limited: scopes are evaluated in the order (client address, \"global\", \"ip\"); the `return False` that stops after a "
        "specific-address section lies inside `if command in rules:` of that section (an address section without a rule for this command does "
        "not exempt the command from the generic rules)",
        floor=1,
    )
    fn = program.func("nostr_relay.rate_limiter:RateLimiter.is_limited")
    loop = next((l for l in walk_no_nested(fn) if isinstance(l, ast.For) and isinstance(l.iter, ast.Tuple)), None)
    if loop is None:
        ctx.bad(finding_func(P, rid, fn, "is_limited no longer iterates the scopes", text="def is_limited(...) :: scopes"))
        return
    order = [ast.unparse(e) for e in loop.iter.elts]
    if order == ["client_address", "'global'", "'ip'"]:
        ctx.ok(rid, loop, "scope order: specific address, global, ip")
    else:
        ctx.bad(finding_at(P, rid, loop, f"scope order is {order}: a specific-address rule no longer takes precedence / a scope is skipped"))
    rets = [r for r in ast.walk(loop) if isinstance(r, ast.Return) and isinstance(r.value, ast.Constant) and r.value.value is False]
    cfg = cfg_of(fn)

    def has_rule(expr, pol):
        if isinstance(expr, ast.Compare) and len(expr.ops) == 1 and dotted(expr.left) == "command" and dotted(expr.comparators[0]) == "rules":
            return (isinstance(expr.ops[0], ast.In) and pol) or (isinstance(expr.ops[0], ast.NotIn) and not pol)
        return False

    passes = test_edges(cfg, has_rule)
    for r in rets:
        if must_pass(cfg, passes, cfg.nodes_of(r)):
            ctx.bad(finding_at(P, rid, r, "the early `return False` is reachable without `command in rules` having held for the scope being evaluated: an address with a specific "
                               "section skips the global and per-IP rules for commands that section does not mention"))
        else:
            ctx.ok(rid, r, "early `return False` only after `command in rules` of that scope")
    if not rets:
        ctx.bad(finding_at(P, rid, loop, "no precedence return: specific-address rules (incl. -1 exemptions) do not override the generic ones"))


def rule_cleanup(program, ctx):
    rid = ctx.rule(
        "C18.cleanup",
        "start_client's finally calls rate_limiter.cleanup(); cleanup deletes only addresses whose every command deque is empty or idle longer than the "
        "longest ip interval, never the global scope",
        floor=1,
    )
    sc = program.func("nostr_relay.web:start_client")
    outer = next((s for s in sc.body if isinstance(s, ast.Try) and s.finalbody), None)
    if outer is not None and any(isinstance(c, ast.Call) and call_name(c) == "rate_limiter.cleanup" for s in outer.finalbody for c in ast.walk(s)):
        ctx.ok(rid, outer.finalbody[0], "finally: rate_limiter.cleanup()")
    else:
        ctx.bad(finding_func(P, rid, sc, "the limiter's idle-state cleanup no longer runs when a connection ends", text="def start_client(...) :: cleanup"))
    cl = program.func("nostr_relay.rate_limiter:RateLimiter.cleanup")
    # the loop over the per-address histories leaves the 'global' entry alone, whatever the loop variable is called
    skips = False
    for lp in [l for l in walk_no_nested(cl) if isinstance(l, ast.For) and "recent_commands" in ast.unparse(l.iter)]:
        key = lp.target.elts[0].id if isinstance(lp.target, ast.Tuple) and lp.target.elts and isinstance(lp.target.elts[0], ast.Name) else (lp.target.id if isinstance(lp.target, ast.Name) else None)
        for c in ast.walk(lp):
            if isinstance(c, ast.Compare) and len(c.ops) == 1 and isinstance(c.ops[0], (ast.Eq, ast.NotEq, ast.In, ast.NotIn)) and key is not None \
                    and key in (dotted(c.left), dotted(c.comparators[0])) and "'global'" in ast.unparse(c):
                skips = True
    if skips:
        ctx.ok(rid, cl, "cleanup skips the global scope")
    else:
        ctx.bad(finding_func(P, rid, cl, "cleanup no longer skips the global scope", text="def cleanup(...) :: global"))
    all_idle = False
    for lp in [l for l in walk_no_nested(cl) if isinstance(l, ast.For) and "recent_commands" in ast.unparse(l.iter)]:
        val = lp.target.elts[1].id if isinstance(lp.target, ast.Tuple) and len(lp.target.elts) == 2 and isinstance(lp.target.elts[1], ast.Name) else None
        for c in ast.walk(lp):
            if isinstance(c, ast.Compare) and len(c.ops) == 1 and isinstance(c.ops[0], ast.Eq) and all(isinstance(x, ast.Call) and call_name(x) == "len" and x.args for x in (c.left, c.comparators[0])) \
                    and val is not None and val in (dotted(c.left.args[0]), dotted(c.comparators[0].args[0])):
                all_idle = True
    if all_idle:
        ctx.ok(rid, cl, "an address is dropped only when all its command deques are idle")
    else:
        ctx.bad(finding_func(P, rid, cl, "cleanup drops an address although some of its command deques are still active", text="def cleanup(...) :: all idle"))


def rule_parse(program, ctx, prop=P, rid="C18.parse"):
    ctx.rule(
        rid,
        "every configured rule is kept: RateLimiter.parse_option accumulates one (interval, n) pair per 'n/interval' item in a list (append) - not in a mapping keyed by the "
        "interval, where a later item for the same window silently replaces an earlier, possibly stricter one ('3/s,10/sec' would admit 10 per second)",
        floor=1,
    )
    fn = program.func("nostr_relay.rate_limiter:RateLimiter.parse_option")
    loop = next((l for l in walk_no_nested(fn) if isinstance(l, ast.For) and "split" in ast.unparse(l.iter)), None)
    if loop is None:
        ctx.bad(finding_func(prop, rid, fn, "parse_option no longer iterates the comma-separated rules", text="def parse_option(...) :: loop"))
        return
    keyed = [s for s in ast.walk(loop) if isinstance(s, (ast.Assign, ast.AugAssign)) and any(isinstance(t, ast.Subscript) for t in (s.targets if isinstance(s, ast.Assign) else [s.target]))]
    keyed += [c for c in ast.walk(loop) if isinstance(c, ast.Call) and isinstance(c.func, ast.Attribute) and c.func.attr in ("setdefault", "update") and c.args]
    appends = [c for c in ast.walk(loop) if isinstance(c, ast.Call) and isinstance(c.func, ast.Attribute) and c.func.attr in ("append", "add") and c.args and isinstance(c.args[0], ast.Tuple) and len(c.args[0].elts) == 2]
    if keyed:
        ctx.bad(finding_at(prop, rid, keyed[0], "rules are collected in a mapping keyed by the window length: of two rules for the same window only the last survives - the limiter then lets "
                           "through more messages per window than a configured rule allows"))
    elif not appends:
        ctx.bad(finding_at(prop, rid, loop, "no (interval, n) pair is appended per configured rule"))
    else:
        ctx.ok(rid, appends[0], f"one pair per item: {norm(appends[0], 60)}")
        # the appended list is what is returned (sorted in place or via sorted())
        lst = dotted(appends[0].func.value)
        rets = [r for r in walk_no_nested(fn) if isinstance(r, ast.Return) and r.value is not None]
        for r in rets:
            src = ast.unparse(r.value)
            if isinstance(r.value, (ast.Dict, ast.DictComp)) or "dict(" in src:
                ctx.bad(finding_at(prop, rid, r, "the parsed rules pass through a dict: duplicates of one window collapse"))
            elif lst not in src:
                ctx.bad(finding_at(prop, rid, r, f"parse_option returns `{src[:50]}`, not the list the rules were appended to"))


def rule_history(program, ctx, prop=P, rid="C18.history"):
    ctx.rule(
        rid,
        "admission history is forgotten only when it can no longer count: `recent_commands` is a plain collections.defaultdict (no evicting container), and entries are removed "
        "from it only in RateLimiter.cleanup (idle addresses) - a size-capped / LRU history drops timestamps that are still inside a rule's window (the `global` scope first) "
        "and hands out a fresh quota",
        floor=2,
    )
    init = program.func("nostr_relay.rate_limiter:RateLimiter.__init__")
    st = next((s for s in walk_no_nested(init) if isinstance(s, ast.Assign) and dotted(s.targets[0]) == "self.recent_commands"), None)
    if st is None:
        ctx.bad(finding_func(prop, rid, init, "recent_commands is no longer created in __init__", text="def __init__(...) :: recent_commands"))
    elif isinstance(st.value, ast.Call) and call_name(st.value) in ("collections.defaultdict", "defaultdict"):
        ctx.ok(rid, st, "recent_commands = defaultdict(...)")
    elif isinstance(st.value, ast.Call) and program.classes.get(f"nostr_relay.rate_limiter:{call_name(st.value)}") is not None and not any(
            (isinstance(c, ast.Call) and isinstance(c.func, ast.Attribute) and c.func.attr in ("pop", "popitem", "clear", "move_to_end")) or isinstance(c, ast.Delete)
            for c in ast.walk(program.classes[f"nostr_relay.rate_limiter:{call_name(st.value)}"].node)):
        ctx.ok(rid, st, f"recent_commands = {call_name(st.value)}(...) - a container class of this module that never removes entries")
    else:
        ctx.bad(finding_at(prop, rid, st, f"recent_commands is a `{ast.unparse(st.value)[:50]}`, not a plain defaultdict: a container that evicts (size cap, LRU, TTL) forgets admissions that still "
                           "count against a rule - after enough other addresses were seen an address (or the global scope) gets a fresh quota"))
    m = program.module("nostr_relay.rate_limiter")
    n = 0
    for fn in [f for f in ast.walk(m.tree) if isinstance(f, (ast.FunctionDef, ast.AsyncFunctionDef))]:
        for c in walk_no_nested(fn):
            rm = None
            if isinstance(c, ast.Delete) and any(isinstance(t, ast.Subscript) and "recent_commands" in ast.unparse(t.value) for t in c.targets):
                rm = c
            if isinstance(c, ast.Call) and isinstance(c.func, ast.Attribute) and c.func.attr in ("pop", "popitem", "clear") and "recent_commands" in ast.unparse(c.func.value) and "[" not in ast.unparse(c.func.value):
                rm = c
            if rm is not None:
                n += 1
                if fn.name == "cleanup":
                    ctx.ok(rid, rm, f"removal in cleanup: {norm(rm, 50)}")
                else:
                    ctx.bad(finding_at(prop, rid, rm, f"{qual_of(fn)} removes a scope's admission history outside cleanup()"))
    if not n:
        ctx.info(rid, m.tree, "no removal from recent_commands at all (C18.bounded covers growth)")


def rule_allkept(program, ctx, prop=P, rid="C18.kept"):
    from ..lib import expand_aliases

    ctx.rule(
        rid,
        "RateLimiter.parse_options stores, per scope and command, exactly the list parse_option returned (no pruning of 'redundant' rules: an exemption `-1/hour` is not a "
        "small limit that dominates `3/s`); and the verb the connection handler dispatches on is the very `message[0]` that is_limited(remote_addr, message) looks up - a "
        "case-folded / normalised verb is dispatched as EVENT while the limiter finds no rule for 'event'",
        floor=2,
    )
    fn = program.func("nostr_relay.rate_limiter:RateLimiter.parse_options")
    stores = [s_ for s_ in walk_no_nested(fn) if isinstance(s_, ast.Assign) and isinstance(s_.targets[0], ast.Subscript) and isinstance(s_.value, (ast.Call, ast.Name))]
    found = False
    for s_ in stores:
        v = expand_aliases(fn, s_.value)
        if isinstance(v, ast.Call) and call_name(v) == "self.parse_option":
            found = True
            ctx.ok(rid, s_, f"{norm(s_, 60)}")
        elif any(isinstance(c, ast.Call) and call_name(c) == "self.parse_option" for c in ast.walk(v)) or (isinstance(s_.value, ast.Name) and "rules" not in dotted(s_.targets[0].value)):
            if any(isinstance(c, ast.Call) and call_name(c) == "self.parse_option" for c in ast.walk(v)):
                found = True
                ctx.bad(finding_at(prop, rid, s_, f"the rules of a command are post-processed (`{ast.unparse(v)[:60]}`) before they are stored: configured rules can be dropped"))
    for dc in [d for d in walk_no_nested(fn) if isinstance(d, ast.DictComp)]:
        v = dc.value
        if isinstance(v, ast.Call) and call_name(v) == "self.parse_option":
            found = True
            ctx.ok(rid, dc, f"{{{ast.unparse(dc.key)}: self.parse_option(...)}} comprehension")
        elif not isinstance(v, ast.DictComp) and any(isinstance(c, ast.Call) and call_name(c) == "self.parse_option" for c in ast.walk(v)):
            found = True
            ctx.bad(finding_at(prop, rid, dc, f"the rules of a command are post-processed (`{ast.unparse(v)[:60]}`) before they are stored: configured rules can be dropped"))
    if not found:
        # the value may be built by an inlined helper: any list that is filtered between parse_option and the store
        pos = [s_ for s_ in walk_no_nested(fn) if isinstance(s_, ast.Assign) and isinstance(s_.value, ast.Call) and call_name(s_.value) == "self.parse_option"]
        if pos:
            ctx.bad(finding_at(prop, rid, pos[0], "the list returned by parse_option is not what is stored for the command (it is filtered / rebuilt first): a configured rule can disappear"))
        else:
            ctx.bad(finding_func(prop, rid, fn, "parse_options no longer stores parse_option(rule) per command", text="def parse_options(...) :: store"))
    sc = program.func("nostr_relay.web:start_client")
    cmd = [s_ for s_ in stores_of(sc, "command") if isinstance(s_, ast.Assign)]
    if not cmd:
        ctx.bad(finding_func(prop, rid, sc, "start_client no longer binds `command`", text="def start_client(...) :: command"))
    for s_ in cmd:
        if ast.unparse(s_.value) == "message[0]":
            ctx.ok(rid, s_, "command = message[0] (the limiter's key)")
        else:
            ctx.bad(finding_at(prop, rid, s_, f"the dispatched verb is `{ast.unparse(s_.value)[:40]}` while the limiter is asked about the raw message: a verb that differs from its normal form "
                               "(lower case) is served but matches no rate rule - unlimited EVENTs"))


def run(program, ctx):
    from ..lib import rule_awaited

    rule_awaited(program, ctx, P, ANCHORS)
    rule_consulted(program, ctx)
    rule_key(program, ctx)
    rule_pruned(program, ctx)
    rule_clock(program, ctx)
    rule_counted_once(program, ctx)
    rule_record(program, ctx)
    rule_bounded_ends(program, ctx)
    rule_allrules(program, ctx)
    rule_precedence(program, ctx)
    rule_cleanup(program, ctx)
    rule_parse(program, ctx)
    rule_history(program, ctx)
    rule_allkept(program, ctx)
    ctx.not_decided += [
        "the sliding-window invariant itself (never more than n admitted in any window; refused only if some rule is exhausted) - arithmetic over runtime clocks and sequences",
        "rule parsing, IPv6 literals (the precedence test looks for '.' in the key), -1 exemption",
    ]


RL = "nostr_relay/rate_limiter.py"
WEB = "nostr_relay/web.py"

MUTANTS = [
    M("c18-early-return-before-prune", "nostr_relay/rate_limiter.py", "        now = self._timestamp()\n        if timestamps:\n            max_interval = max(rules)[0]", "        now = self._timestamp()\n        if len(rules) == 1 and rules[0][1] < 0:\n            return False\n        if timestamps:\n            max_interval = max(rules)[0]", "C18.pruned"),
    M("c18-address-cut", "nostr_relay/rate_limiter.py", "        command = message[0]\n        self.log.debug(\"Checking limits for %s %s\", command, client_address)", "        command = message[0]\n        client_address = client_address.rpartition(\":\")[0] or client_address\n        self.log.debug(\"Checking limits for %s %s\", command, client_address)", "C18.key"),
    M("c18-wall-clock", "nostr_relay/rate_limiter.py", "        return perf_counter() - self._starttime", "        import time\n\n        return time.time() - self._starttime", "C18.clock"),
    M("c18-limiter-asked-twice", "nostr_relay/web.py", "                if rate_limiter and rate_limiter.is_limited(remote_addr, message):\n                    if command == \"EVENT\":", "                if rate_limiter and rate_limiter.is_limited(remote_addr, [command]):\n                    continue\n                if rate_limiter and rate_limiter.is_limited(remote_addr, message):\n                    if command == \"EVENT\":", "C18.once"),
    M("c18-return-false-in-loop", "nostr_relay/rate_limiter.py", "                        if count == freq:\n                            self.log.debug(\"%d/%d\", freq, interval)\n                            return True\n",
      "                        if count == freq:\n                            self.log.debug(\"%d/%d\", freq, interval)\n                            return True\n                    return False\n", "C18.allrules"),
    M("c18-break-rule-loop", "nostr_relay/rate_limiter.py", "                for interval, freq in rules:\n                    count = 0\n", "                for interval, freq in rules:\n                    if interval < 60:\n                        break\n                    count = 0\n", "C18.allrules"),
    M("c18-dispatch-before-limit", WEB, "                if rate_limiter and rate_limiter.is_limited(remote_addr, message):\n                    if command == \"EVENT\":",
      "                if command == \"CLOSE\":\n                    await storage.unsubscribe(client_id, str(message[1]))\n                    continue\n                if rate_limiter and rate_limiter.is_limited(remote_addr, message):\n                    if command == \"EVENT\":", "C18.consulted", canary=True),
    M("c18-accept-unchecked", WEB, "            if self.rate_limiter and self.rate_limiter.is_limited(\n                req.remote_addr, [\"ACCEPT\"]\n            ):", "            if False:", "C18.consulted"),
    M("c18-record-before-eval", RL, "                    if self.evaluate_rules(rules[command], recent_timestamps):", "                    recent_timestamps.insert(0, self._timestamp())\n                    if self.evaluate_rules(rules[command], recent_timestamps):", "C18.record"),
    M("c18-no-eviction", RL, "                while (now - timestamps[-1]) > max_interval:\n                    timestamps.pop()\n", "", "C18.bounded"),
    M("c18-evict-newest", RL, "                while (now - timestamps[-1]) > max_interval:\n                    timestamps.pop()\n", "                while timestamps and (now - timestamps[0]) > max_interval:\n                    timestamps.popleft()\n", "C18.ends"),
    M("c18-append-orientation", RL, "                    recent_timestamps.insert(0, self._timestamp())", "                    recent_timestamps.append(self._timestamp())", "C18.ends"),
    M("c18-precedence-dedent", RL, "                    if \".\" in key:\n                        # specific ip address rules take precedence\n                        # stop evaluating global and ip rules\n                        return False\n",
      "                if key == client_address:\n                    return False\n", "C18.precedence"),
    M("c18-scope-order", RL, "        for key in (client_address, \"global\", \"ip\"):", "        for key in (\"global\", \"ip\", client_address):", "C18.precedence"),
    M("c18-no-cleanup", WEB, "        if rate_limiter:\n            rate_limiter.cleanup()\n", "", "C18.cleanup"),
]
EQUIVS = []

# functions whose syntactic mutants are used for the thorough tier's sensitivity figure (sa/automut.py)
ANCHORS = [
    "nostr_relay.rate_limiter:RateLimiter.is_limited",
    "nostr_relay.rate_limiter:RateLimiter.evaluate_rules",
    "nostr_relay.rate_limiter:RateLimiter.cleanup",
    "nostr_relay.web:NostrAPI.on_websocket",
]
