"""C06 - OK acknowledgements agree with what the relay did.

  C06.one_ok      every non-closing path through the EVENT branch (and through the rate-limited EVENT
                  branch) of the connection handler sends exactly one OK frame
  C06.assigned    eventid / result / reason are definitely assigned at the OK send
  C06.true        OK=true derives only from a fact read from the store (SQL: rowcount == 1 computed
                  inside the transaction, returned after commit; LMDB: must not be a constant)
  C06.broadcast   the broadcast is control-dependent on "was new" and sits after the commit
  C06.writer      (LMDB) field operations that can raise in the writer thread are guarded before the
                  acknowledged enqueue
  C06.reason      the OK reason for result false after a normal return is the duplicate reason
"""
from __future__ import annotations

import ast

from ..cfg import cfg_of
from ..core import (
    AnalysisError,
    call_name,
    dotted,
    enclosing_stmt,
    finding_at,
    finding_func,
    norm,
    own_calls,
    own_nodes,
    qual_of,
    walk_no_nested,
    ancestors,
)
from ..lib import NORMAL, concrete_add_events, event_var, must_pass, stores_of, strip_await, test_edges
from ..selftest import E, M

P = "C06"


def _list_head(e):
    if isinstance(e, ast.List) and e.elts and isinstance(e.elts[0], ast.Constant):
        return e.elts[0].value
    return None


def frame_lists(fn, arg, depth=3) -> list:
    """the list display(s) that can reach a ws_send argument: json_dumps(<list>), a name bound to one, a name bound to json_dumps(…)"""
    out = []
    a = arg
    if isinstance(a, ast.Call) and call_name(a) in ("json_dumps", "json.dumps") and a.args:
        a = a.args[0]
    if isinstance(a, ast.List):
        out.append(a)
    elif isinstance(a, ast.Name) and depth:
        for st in stores_of(fn, a.id):
            if isinstance(st, ast.Assign):
                out += frame_lists(fn, st.value, depth - 1)
    return out


def frame_heads(fn, arg) -> set:
    """constant heads of the list(s) that can reach a ws_send argument"""
    return {_list_head(l) for l in frame_lists(fn, arg) if _list_head(l) is not None}


def event_branch_tests(fn):
    """If nodes whose test is `command == "EVENT"`"""
    out = []
    for n in walk_no_nested(fn):
        if isinstance(n, ast.If) and isinstance(n.test, ast.Compare) and len(n.test.ops) == 1 and isinstance(n.test.ops[0], ast.Eq):
            l, r = n.test.left, n.test.comparators[0]
            if isinstance(l, ast.Name) and l.id == "command" and isinstance(r, ast.Constant) and r.value == "EVENT":
                out.append(n)
    return out


def rule_one_ok(program, ctx):
    rid = ctx.rule(
        "C06.one_ok",
        "start_client: on every path from the true edge of each `command == \"EVENT\"` test back to the message-loop head "
        "(paths that leave through the connection-closing handlers excluded) exactly one `ws_send(json_dumps([\"OK\", …]))` executes",
        floor=1,
    )
    rid2 = ctx.rule(
        "C06.assigned",
        "definite assignment: eventid, result and reason (every Name read by the OK frame) are bound on every path from the EVENT "
        "branch entry to the OK send",
        floor=3,
    )
    fn = program.func("nostr_relay.web:start_client")
    cfg = cfg_of(fn)
    loops = [n for n, d in cfg.g.nodes(data=True) if d["kind"] == "loop" and isinstance(d["ast"], ast.While)]
    if len(loops) != 1:
        raise AnalysisError("start_client: expected exactly one message loop")
    head = loops[0]
    loop_ast = cfg.ast_of(head)
    # the per-message try: handlers of it (and anything outside the loop) end the examined region
    per_msg = next((s for s in loop_ast.body if isinstance(s, ast.Try)), None)
    if per_msg is None:
        raise AnalysisError("start_client: message loop body is not a try statement")
    dead = set()
    for h in per_msg.handlers:
        dead |= set(cfg.nodes_of(h))
    dead |= {cfg.exit, cfg.raise_exit, cfg.cancel_exit}
    # outer handlers / finally copies reached by exceptions: any node not inside the loop
    inside = set()
    for sub in ast.walk(loop_ast):
        inside |= set(cfg.nodes_of(sub))
    oks = set()
    for n, d in cfg.g.nodes(data=True):
        s = d["ast"]
        if s is None or d["kind"] != "stmt":
            continue
        for c in own_calls(s):
            if call_name(c) == "ws_send" and c.args and "OK" in frame_heads(fn, c.args[0]):
                oks.add(n)
    tests = event_branch_tests(fn)
    if not tests:
        ctx.bad(finding_func(P, rid, fn, "no `command == \"EVENT\"` branch found in the connection handler", text="def start_client(...)"))
        return
    for t in tests:
        for tn in cfg.nodes_of(t):
            srcs = [m for m in cfg.succ(tn) if "t" in cfg.edge_kinds(tn, m)]
            for src in srcs:
                outside = {n for n in cfg.g.nodes if n not in inside}
                lo, hi = cfg.count_marked(src, {head}, oks, kinds=NORMAL | {"exc"}, dead=dead | outside)
                if lo is None:
                    ctx.bad(finding_at(P, rid, t, "no path from the EVENT branch returns to the message loop"))
                elif (lo, hi) != (1, 1):
                    ctx.bad(finding_at(P, rid, t, f"an EVENT message is answered by between {lo} and {hi} OK frames (must be exactly one on every path)"))
                else:
                    ctx.ok(rid, t, "exactly one OK frame on every path back to the loop head")
                # definite assignment at each OK node reachable from src
                region = cfg.reach([src], avoid_nodes=dead | outside | {head})
                for okn in oks & region:
                    st = cfg.ast_of(okn)
                    call = next(c for c in own_calls(st) if call_name(c) == "ws_send")
                    used = {x.id for l in frame_lists(fn, call.args[0]) for x in ast.walk(l) if isinstance(x, ast.Name)} - {"ws_send", "json_dumps"}
                    # names assigned only before the loop (parameters, message, command) are not at issue
                    branch_vars = set()
                    for r in region:
                        sa_ = cfg.ast_of(r)
                        if sa_ is not None:
                            from ..core import stmt_assigns
                            branch_vars |= stmt_assigns(sa_) if cfg.kind_of(r) in ("stmt", "handler", "loop", "with") else set()
                    for v in sorted(used & branch_vars):
                        defs = {r for r in region if cfg.ast_of(r) is not None and cfg.kind_of(r) in ("stmt", "handler") and v in __import__("sa.core", fromlist=["stmt_assigns"]).stmt_assigns(cfg.ast_of(r))}
                        path = cfg.find_path([src], [okn], avoid_nodes=defs | dead | outside | {head}, kinds=NORMAL | {"exc"})
                        if path:
                            ctx.bad(finding_at(P, rid2, st, f"`{v}` may be unbound (or stale from an earlier message) when the OK frame is built",
                                               path=cfg.describe_path(path)[-6:], stmt=st, text=v))
                        else:
                            ctx.ok(rid2, st, f"`{v}` definitely assigned before the OK frame")


def rule_true(program, ctx):
    rid = ctx.rule(
        "C06.true",
        "add_event's second return component: SQL - assigned only `False` or `<result>.rowcount == 1` of the event INSERT inside the "
        "transaction, and returned outside it; LMDB - must be a fact read from the store, a constant True cannot tell new from duplicate",
        floor=1,
    )
    for fn, classes in concrete_add_events(program):
        rets = [r for r in walk_no_nested(fn) if isinstance(r, ast.Return) and isinstance(r.value, ast.Tuple) and len(r.value.elts) == 2]
        if not rets:
            ctx.bad(finding_func(P, rid, fn, "add_event does not return (event, status)", text="def add_event(...)"))
            continue
        for r in rets:
            second = r.value.elts[1]
            in_txn = any(isinstance(a, (ast.With, ast.AsyncWith)) and any("begin" in dotted(i.context_expr) for i in a.items) for a in ancestors(r))
            if in_txn:
                ctx.bad(finding_at(P, rid, r, "add_event returns from inside the transaction region: the acknowledgement precedes the commit"))
                continue
            if isinstance(second, ast.Constant):
                ctx.bad(finding_at(P, rid, r, label="constant acknowledgement", message=f"add_event acknowledges with the constant {second.value!r}: a resubmitted event is acknowledged as new "
                                   "(the writer thread later skips it) and an event the writer fails to apply is still OK=true"))
                continue
            if not isinstance(second, ast.Name):
                ctx.bad(finding_at(P, rid, r, "acknowledgement status is not a tracked variable"))
                continue
            okall = True
            from ..lib import expand_aliases
            for st in stores_of(fn, second.id):
                v = expand_aliases(fn, st.value) if isinstance(st, ast.Assign) else None
                if isinstance(v, ast.Constant) and v.value is False:
                    continue
                if (
                    isinstance(v, ast.Compare) and len(v.ops) == 1 and isinstance(v.ops[0], ast.Eq)
                    and dotted(v.left).endswith(".rowcount") and isinstance(v.comparators[0], ast.Constant) and v.comparators[0].value == 1
                ):
                    res = v.left.value
                    ok_src = False
                    if isinstance(res, ast.Name):
                        for d in stores_of(fn, res.id):
                            if isinstance(d, ast.Assign) and isinstance(strip_await(d.value), ast.Call) and call_name(strip_await(d.value)).endswith(".execute") and "event_insert_query" in ast.unparse(expand_aliases(fn, d.value)):
                                ok_src = True
                    elif isinstance(res, ast.Call) and call_name(res).endswith(".execute") and "event_insert_query" in ast.unparse(res):
                        ok_src = True
                    inside = any(isinstance(a, (ast.With, ast.AsyncWith)) and any("begin" in dotted(i.context_expr) for i in a.items) for a in ancestors(st))
                    if ok_src and inside:
                        continue
                okall = False
                ctx.bad(finding_at(P, rid, st, f"`{second.id}` (the OK status) is assigned from something other than False / the INSERT's rowcount == 1 inside the transaction"))
            if okall:
                ctx.ok(rid, r, f"status `{second.id}` = rowcount == 1 of the event INSERT, returned after commit")


def rule_broadcast(program, ctx, prop=P, rid="C06.broadcast"):
    ctx.rule(
        rid,
        "every notify_all_connected / notify_other_processes in the add_event closure is outside the transaction region and reachable only "
        "via an edge on which the 'was new' status is truthy (duplicate => no broadcast)",
        floor=2,
    )
    for fn, classes in concrete_add_events(program):
        sites = []
        cfg = cfg_of(fn)
        status = None
        for r in walk_no_nested(fn):
            if isinstance(r, ast.Return) and isinstance(r.value, ast.Tuple) and len(r.value.elts) == 2 and isinstance(r.value.elts[1], ast.Name):
                status = r.value.elts[1].id
        for n, d in cfg.g.nodes(data=True):
            s = d["ast"]
            if s is None or d["kind"] != "stmt":
                continue
            for c in own_calls(s):
                nm = call_name(c)
                if nm.endswith(".notify_all_connected") or nm.endswith(".notify_other_processes"):
                    sites.append((cfg, fn, n, s, nm.split(".")[-1]))
                elif nm == "self.post_save" and "kv" in fn._module.name:
                    # LMDB: the broadcast lives in post_save (called unconditionally?)
                    sites.append((cfg, fn, n, s, "post_save (broadcast)"))
        for cfg_, f_, n, s, label in sites:
            in_txn = any(isinstance(a, (ast.With, ast.AsyncWith)) and any("begin" in dotted(i.context_expr) for i in a.items) for a in ancestors(s))
            if in_txn and "post_save" not in label:
                ctx.bad(finding_at(prop, rid, s, f"{label} inside the transaction region: subscribers see an event that may still be rolled back"))
                continue
            if status is None:
                ctx.bad(finding_at(prop, rid, s, f"{label} is not control-dependent on a 'was new' fact: a resubmitted (duplicate) event is broadcast again", label="unconditional broadcast"))
                continue
            passes = test_edges(cfg_, lambda e, p, status=status: p and isinstance(e, ast.Name) and e.id == status)
            if must_pass(cfg_, passes, [n]):
                ctx.bad(finding_at(prop, rid, s, f"{label} reachable without `{status}` being truthy: duplicates are broadcast again"))
            else:
                ctx.ok(rid, s, f"{label}: after commit, only if `{status}`")


def writer_obligations(program) -> list:
    """event fields on which the LMDB index writers apply a fixed-width conversion"""
    m = program.module("nostr_relay.storage.kv")
    fields = {}
    for c in ast.walk(m.tree):
        if isinstance(c, ast.Call) and isinstance(c.func, ast.Attribute) and c.func.attr == "to_bytes":
            fn = c._func
            cls = c._class
            if fn is None or cls is None:
                continue
            recv = c.func.value
            width = c.args[0].value if c.args and isinstance(c.args[0], ast.Constant) else None
            if dotted(recv).startswith("event."):
                fields.setdefault(dotted(recv).split(".", 1)[1], set()).add((cls.name, fn.name, width))
            elif isinstance(recv, (ast.Name, ast.Subscript)) and fn.name == "to_key":
                # to_key(value) <- convert(): self.to_key(event.X) / (event.pubkey, event.kind)
                conv = next((f for f in cls.body if isinstance(f, ast.FunctionDef) and f.name == "convert"), None)
                if conv is not None:
                    for a in ast.walk(conv):
                        if isinstance(a, ast.Attribute) and isinstance(a.value, ast.Name) and a.value.id == "event" and a.attr in ("created_at", "kind"):
                            fields.setdefault(a.attr, set()).add((cls.name, "to_key", width))
    return sorted((k, sorted(v, key=str)) for k, v in fields.items())


def rule_writer(program, ctx):
    rid = ctx.rule(
        "C06.writer",
        "LMDB: for each event field on which an index writer calls a fixed-width `.to_bytes(N)` (derived from kv.py), a range guard on "
        "that field dominates `writer_queue.put((\"add\", …))` in LMDBStorage.add_event - the OK is sent before the writer thread runs "
        "and the writer only logs failures",
        floor=1,
    )
    obl = writer_obligations(program)
    if not obl:
        raise AnalysisError("no to_bytes conversion found in the LMDB index writers")
    fn = program.func("nostr_relay.storage.kv:LMDBStorage.add_event")
    cfg = cfg_of(fn)
    ev = event_var(fn) or "event"
    enq = cfg.stmt_nodes(lambda s: any(call_name(c).endswith("writer_queue.put") for c in own_calls(s)), kinds=("stmt",))
    if not enq:
        ctx.bad(finding_func(P, rid, fn, "LMDBStorage.add_event no longer enqueues to the writer thread", text="def add_event(...)"))
        return
    missing = []
    for field, sites in obl:
        def pred(expr, pol, field=field):
            if not isinstance(expr, ast.Compare):
                return False
            txt = ast.unparse(expr)
            return f"{ev}.{field}" in txt and any(isinstance(o, (ast.Lt, ast.LtE, ast.Gt, ast.GtE)) for o in expr.ops)
        passes = test_edges(cfg, pred)
        if must_pass(cfg, passes, enq):
            missing.append(field)
        else:
            ctx.ok(rid, cfg.ast_of(enq[0]), f"`{ev}.{field}` range-guarded before the acknowledged enqueue (writers: {sites})")
    if missing:
        ctx.bad(finding_at(P, rid, cfg.ast_of(enq[0]), label="no range guard before the acknowledged enqueue: " + ",".join(missing), message=
                           f"no range guard on {', '.join(ev + '.' + f for f in missing)} before the enqueue: a validly signed event with e.g. "
                           "created_at = 2**32 or kind = -1 is acknowledged OK=true, then `.to_bytes(4)` raises OverflowError in the writer "
                           "thread, the transaction aborts, the failure is only logged and the event is lost"))


def rule_reason(program, ctx):
    rid = ctx.rule(
        "C06.reason",
        "start_client EVENT branch: on the no-exception path the OK carries the event's own id and the status returned by add_event; "
        "a false status is explained as a duplicate",
        floor=1,
    )
    fn = program.func("nostr_relay.web:start_client")
    for t in ast.walk(fn):
        if isinstance(t, ast.Try) and t.orelse and any(isinstance(c, ast.Call) and call_name(c).endswith(".add_event") for s in t.body for c in ast.walk(s)):
            # event, result = await storage.add_event(...)
            unpack = next((s for s in t.body if isinstance(s, ast.Assign) and isinstance(s.targets[0], ast.Tuple)), None)
            if unpack is None:
                ctx.bad(finding_at(P, rid, t, "the (event, status) pair returned by add_event is not unpacked"))
                return
            evn, stn = [e.id for e in unpack.targets[0].elts]
            okid = any(isinstance(s, ast.Assign) and dotted(s.value) == f"{evn}.id" for s in t.orelse)
            def mentions_status(e):
                return any(isinstance(x, ast.Name) and x.id == stn for x in ast.walk(e))

            dup = False
            for s_ in t.orelse:
                for n_ in ast.walk(s_):
                    # reason = "" if result else "duplicate…"   |   if [not] result: reason = … else: reason = …
                    if isinstance(n_, ast.Assign) and isinstance(n_.value, ast.IfExp) and mentions_status(n_.value.test):
                        dup = True
                    if isinstance(n_, ast.If) and mentions_status(n_.test) and n_.orelse and all(
                        any(isinstance(a_, ast.Assign) for a_ in ast.walk(ast.Module(body=b_, type_ignores=[]))) for b_ in (n_.body, n_.orelse)
                    ):
                        dup = True
            send = None
            for c in ast.walk(t):
                if isinstance(c, ast.Call) and call_name(c) == "ws_send" and c.args and "OK" in frame_heads(fn, c.args[0]):
                    send = c
            uses_status = send is not None and any(isinstance(x, ast.Name) and x.id == stn for l in frame_lists(fn, send.args[0]) for x in ast.walk(l))
            if okid and dup and uses_status:
                ctx.ok(rid, t, f"OK carries {evn}.id, `{stn}` from add_event and a duplicate reason when false")
            else:
                ctx.bad(finding_at(P, rid, t.orelse[0], "the OK frame of an accepted/duplicate event does not carry the event id, the status returned by add_event and the duplicate reason"))
            return
    ctx.bad(finding_func(P, rid, fn, "EVENT branch has no try/else around add_event", text="def start_client(...) :: EVENT"))


def rule_dupcheck(program, ctx):
    rid = ctx.rule(
        "C06.dupcheck",
        "LMDB writer: the decision 'already stored -> skip' is `not get_event_data(txn, <event>.id_bytes)` read from the store inside the write "
        "transaction and nothing else; a process-local memo of written ids goes stale when events are superseded, deleted by NIP-09 or when a commit "
        "fails, and a later resubmission is acknowledged but silently dropped",
        floor=1,
    )
    from ..lib import expand_aliases, guard_atoms

    run_fn = program.func("nostr_relay.storage.kv:WriterThread.run")
    # the statements that apply an 'add' task: the index writes / _post_save reached under `operation == 'add'`
    sites = []
    for c in walk_no_nested(run_fn):
        if isinstance(c, ast.Call) and isinstance(c.func, ast.Attribute) and c.func.attr in ("write", "_post_save") and not call_name(c).startswith("INDEXES["):
            atoms = guard_atoms(c, stop=run_fn)
            if any(ast.unparse(e) == "operation == 'add'" and pol for e, pol in atoms):
                sites.append((c, atoms))
    if not sites:
        ctx.bad(finding_func(P, rid, run_fn, "writer has no 'add' branch", text="def run(...) :: add"))
        return
    for c, atoms in sites:
        dup = False
        extra = []
        for e, pol in atoms:
            txt = ast.unparse(e)
            if txt == "operation == 'add'" and pol:
                continue
            if isinstance(e, ast.Compare) and dotted(e.left) == "operation":
                continue  # other arms of the dispatch chain
            if isinstance(e, ast.Call) and call_name(e) == "get_event_data" and len(e.args) == 2 and dotted(e.args[0]) == "txn" and ast.unparse(e.args[1]).endswith(".id_bytes"):
                if not pol:
                    dup = True
                    continue
            ee = expand_aliases(run_fn, e)
            if "get(operation" in ast.unparse(ee) or txt in ("task is None", "task", "self.running"):
                continue  # the dispatch-table lookup / loop control
            extra.append(("" if pol else "not ") + txt)
        if extra:
            ctx.bad(finding_at(P, rid, c, f"the writer's add branch also depends on `{extra[0][:60]}`: events can be skipped although they are not in the store (acknowledged OK=true, never stored)"))
        elif not dup:
            ctx.bad(finding_at(P, rid, c, "the writer no longer skips events whose primary record already exists: a resubmission rewrites indexes / re-runs supersede and deletions"))
        else:
            ctx.ok(rid, c, f"{call_name(c)}: add iff not get_event_data(txn, event.id_bytes)")


def rule_drain(program, ctx):
    rid = ctx.rule(
        "C06.drain",
        "LMDB: every acknowledged event is applied before shutdown: LMDBStorage.close stops the writer only through the queued `None` sentinel followed by "
        "join(); the loop flag `running` is not cleared before the queue has drained (the writer tests it before every task)",
        floor=1,
    )
    fn = program.func("nostr_relay.storage.kv:LMDBStorage.close")
    cfg = cfg_of(fn)
    sent = cfg.stmt_nodes(lambda s: any(call_name(c).endswith("writer_queue.put") and c.args and isinstance(c.args[0], ast.Constant) and c.args[0].value is None for c in own_calls(s)), kinds=("stmt",))
    join = cfg.stmt_nodes(lambda s: any(call_name(c).endswith("writer_thread.join") for c in own_calls(s)), kinds=("stmt",))
    flags = cfg.stmt_nodes(lambda s: isinstance(s, ast.Assign) and any(dotted(t).endswith(".running") for t in s.targets), kinds=("stmt",))
    if not sent or not join:
        ctx.bad(finding_func(P, rid, fn, "close() no longer drains the writer (None sentinel + join)", text="def close(...) :: drain"))
        return
    joined = {n: {"n", "t", "f"} for n in join}
    bad = [f for f in flags if must_pass(cfg, joined, [f])]
    if bad:
        ctx.bad(finding_at(P, rid, cfg.ast_of(bad[0]), "the writer loop's `running` flag is cleared before the writer thread was joined: the writer finishes the current task and exits, "
                           "every queued (already acknowledged and broadcast) event is lost"))
    else:
        ctx.ok(rid, cfg.ast_of(sent[0]), "writer stopped by the None sentinel, then join()")
    db_close = cfg.stmt_nodes(lambda s: any(call_name(c) == "self.db.close" for c in own_calls(s)), kinds=("stmt",))
    for d in db_close:
        if must_pass(cfg, joined, [d]):
            ctx.bad(finding_at(P, rid, cfg.ast_of(d), "the LMDB environment is closed before the writer thread was joined"))


def rule_strict(program, ctx):
    rid = ctx.rule(
        "C06.strict",
        "a resubmitted replaceable event must not supersede itself: DBStorage.pre_save selects candidates with created_at strictly less than the incoming one "
        "(with <= the duplicate deletes its own stored row, the INSERT succeeds, the client gets OK=true and the event is broadcast again); the LMDB scan skips the event's own id",
        floor=1,
    )
    ci = program.cls("nostr_relay.storage.db:DBStorage")
    ps = program.func("nostr_relay.storage.db:DBStorage.pre_save")
    seen_pre = False
    for fn in [f for f in ci.node.body if isinstance(f, (ast.FunctionDef, ast.AsyncFunctionDef))]:
        # every "older versions of this event" selection/deletion in the write path (pre_save: replaceable kinds; post_save: metadata/contacts)
        cmps = [c for c in ast.walk(fn) if isinstance(c, ast.Compare) and len(c.ops) == 1 and ast.unparse(c.left).endswith(".c.created_at") and "event.created_at" in ast.unparse(c.comparators[0])]
        for c in cmps:
            seen_pre = seen_pre or fn is ps
            if isinstance(c.ops[0], ast.Lt):
                ctx.ok(rid, c, f"{fn.name}: candidates strictly older than the incoming event")
            else:
                ctx.bad(finding_at(P, rid, c, f"{fn.name}: superseded candidates include events with the same created_at: the incoming event's own row qualifies (a resubmitted replaceable event "
                                   "deletes its stored row and is inserted, acknowledged and broadcast again; in post_save the row just inserted is deleted after OK=true)"))
    if not seen_pre:
        ctx.bad(finding_func(P, rid, ps, "pre_save no longer bounds the superseded versions by created_at", text="def pre_save(...) :: older"))


def rule_noop(program, ctx, prop=P, rid="C06.noop"):
    ctx.rule(
        rid,
        "a refused duplicate changes nothing: in DBStorage.post_save every write (connection.execute, self.process_tags - which also executes NIP-09 deletions) "
        "is reached only through the `changed` gate; add_event passes changed = (rowcount == 1)",
        floor=1,
    )
    fn = program.func("nostr_relay.storage.db:DBStorage.post_save")
    cfg = cfg_of(fn)

    def gate(expr, pol):
        return isinstance(expr, ast.Name) and expr.id == "changed" and pol

    passes = test_edges(cfg, gate)
    writes = cfg.stmt_nodes(lambda s: any(call_name(c).endswith(".execute") or call_name(c).split(".")[-1] in ("process_tags",) for c in own_calls(s)), kinds=("stmt",))
    if not writes:
        ctx.bad(finding_func(prop, rid, fn, "post_save no longer performs the tag / metadata writes", text="def post_save(...) :: writes"))
    for w in writes:
        path = must_pass(cfg, passes, [w], kinds=NORMAL)
        if path:
            ctx.bad(finding_at(prop, rid, cfg.ast_of(w), "this write also runs for a duplicate (changed is false): a re-submitted, already stored event is answered OK=false 'duplicate' and still "
                               "modifies the store (e.g. a stored deletion request deletes again)"))
        else:
            ctx.ok(rid, cfg.ast_of(w), "write only when changed")


def rule_reap(program, ctx, prop=P, rid="C06.reap"):
    ctx.rule(
        rid,
        "waiting for the previous round of notification tasks must not re-raise their exceptions into the next add_event / notifier loop: the tasks in "
        "`_notify_sub_tasks` are awaited with asyncio.wait (never raises a task's exception) or gather(..., return_exceptions=True), never with a bare gather / await of the task",
        floor=1,
    )
    n = 0
    for ci in [program.cls("nostr_relay.storage.base:BaseStorage")] + [c for c in program.subclasses(program.cls("nostr_relay.storage.base:BaseStorage"))]:
        for name, fn in ci.methods.items():
            if "_notify_sub_tasks" not in ast.unparse(fn):
                continue
            # names that alias the task list
            names = {"self._notify_sub_tasks"}
            for st in walk_no_nested(fn):
                if isinstance(st, ast.Assign):
                    tg = st.targets[0]
                    if isinstance(tg, ast.Tuple) and isinstance(st.value, ast.Tuple):
                        for t, v in zip(tg.elts, st.value.elts):
                            if dotted(v) in names and isinstance(t, ast.Name):
                                names.add(t.id)
                    elif isinstance(tg, ast.Name) and (dotted(st.value) in names or (isinstance(st.value, ast.Call) and st.value.args and dotted(st.value.args[0]) in names)):
                        names.add(tg.id)
            for c in walk_no_nested(fn):
                if isinstance(c, ast.Call) and call_name(c) in ("asyncio.gather", "gather") and any(isinstance(a, ast.Starred) and dotted(a.value) in names for a in c.args):
                    n += 1
                    if any(k.arg == "return_exceptions" and isinstance(k.value, ast.Constant) and k.value.value is True for k in c.keywords):
                        ctx.ok(rid, c, "gather(..., return_exceptions=True)")
                    else:
                        ctx.bad(finding_at(prop, rid, c, "asyncio.gather(*tasks) re-raises the exception of a failed notification task of the *previous* event inside this add_event (after the "
                                           "commit): the client is told OK=false for a stored event, the task list is never cleared, later events fail the same way, and on a "
                                           "receiving worker the notifier loop ends"))
                elif isinstance(c, ast.Call) and call_name(c) == "asyncio.wait" and c.args and dotted(c.args[0]) in names:
                    n += 1
                    ctx.ok(rid, c, "asyncio.wait(tasks): task exceptions stay in the tasks")
                elif isinstance(c, ast.Await) and isinstance(c.value, ast.Name):
                    loop = next((a for a in ancestors(c) if isinstance(a, ast.For)), None)
                    if loop is not None and dotted(loop.iter) in names and isinstance(loop.target, ast.Name) and loop.target.id == c.value.id:
                        n += 1
                        ctx.bad(finding_at(prop, rid, c, "each notification task is awaited directly: a failed task's exception is re-raised into add_event"))
    if not n:
        ctx.bad(finding_func(prop, rid, program.func("nostr_relay.storage.base:BaseStorage.notify_all_connected"), "the previous round of notification tasks is no longer awaited", text="def notify_all_connected(...) :: wait"))
    # what create_task() wraps must be a coroutine *function*: with a plain function the body (the socket write) runs inside add_event, before a task exists
    nt = program.func("nostr_relay.notifier:NotifyClient.notify")
    if isinstance(nt, ast.AsyncFunctionDef):
        ctx.ok(rid, nt, "NotifyClient.notify is a coroutine function: its body runs in the task")
    else:
        ctx.bad(finding_func(prop, rid, nt, "NotifyClient.notify is a plain function: `create_task(self.notifier.notify(event))` evaluates it inside add_event - an exception of the announcement "
                             "(link not up yet) is raised after the commit and the local broadcast, and the client is told OK=false for a stored event", text="def notify(...) :: sync"))


def rule_schema(program, ctx, prop=P, rid="C06.schema"):
    ctx.rule(
        rid,
        "a refused row is never mistaken for a duplicate: DBStorage inserts with `INSERT OR IGNORE` (rowcount 0 = the id is already stored = OK false 'duplicate'), so the "
        "`events` table carries no constraint besides the id primary key - a CHECK constraint (kind / created_at range), a NOT NULL or UNIQUE added to the table definition or by "
        "an alembic revision makes SQLite skip a *new* valid event silently: it is answered 'duplicate: exists' and stored nowhere, and pre_save has already deleted the "
        "versions it would have replaced",
        floor=1,
    )
    n = 0
    for m in program.modules.values():
        if not m.name.startswith("nostr_relay"):
            continue
        for c in ast.walk(m.tree):
            if not isinstance(c, ast.Call):
                continue
            nm = call_name(c).split(".")[-1]
            if nm in ("CheckConstraint", "create_check_constraint", "UniqueConstraint", "create_unique_constraint"):
                txt = ast.unparse(c)
                on_events = False
                for a in ancestors(c):
                    if isinstance(a, ast.Call) and call_name(a).split(".")[-1] in ("Table", "create_table") and a.args and isinstance(a.args[0], ast.Constant):
                        on_events = a.args[0].value == "events"
                        break
                    if isinstance(a, ast.Call) and isinstance(a.func, ast.Attribute) and a.func.attr == "append_constraint":
                        on_events = "Event" in ast.unparse(a.func.value) or "events" in ast.unparse(a.func.value)
                        break
                    if isinstance(a, (ast.With, ast.AsyncWith)) and any(isinstance(i.context_expr, ast.Call) and call_name(i.context_expr).endswith("batch_alter_table") and i.context_expr.args
                                                                      and isinstance(i.context_expr.args[0], ast.Constant) and i.context_expr.args[0].value == "events" for i in a.items):
                        on_events = True
                        break
                if not on_events and nm.startswith("create_") and any(isinstance(x, ast.Constant) and x.value == "events" for x in c.args[:2]):
                    on_events = True
                par = getattr(c, "_parent", None)
                if not on_events and isinstance(par, ast.Assign) and isinstance(par.targets[0], ast.Name):
                    # bound to a local first, then listed in the table definition
                    nm_ = par.targets[0].id
                    for t in ast.walk(m.tree):
                        if isinstance(t, ast.Call) and call_name(t).split(".")[-1] in ("Table", "create_table") and t.args and isinstance(t.args[0], ast.Constant) and t.args[0].value == "events" \
                                and any(isinstance(a_, ast.Name) and a_.id == nm_ for a_ in t.args):
                            on_events = True
                if on_events:
                    n += 1
                    ctx.bad(finding_at(prop, rid, c, f"`{txt[:70]}` adds a constraint to the events table: with INSERT OR IGNORE a violating (new, valid) event is skipped silently and reported as a duplicate"))
    ctx.ok(rid, program.module("nostr_relay.storage").tree, "events table: primary key only") if not n else None


def run(program, ctx):
    from ..lib import rule_awaited

    rule_awaited(program, ctx, P, ANCHORS)
    from . import c07

    rule_strict(program, ctx)
    rule_drain(program, ctx)

    c07.rule_sqlregion(program, ctx, prop=P, rid="C06.trace")
    rule_dupcheck(program, ctx)
    rule_one_ok(program, ctx)
    rule_true(program, ctx)
    rule_broadcast(program, ctx)
    rule_writer(program, ctx)
    rule_reason(program, ctx)
    from . import c16

    c16.rule_handlers(program, ctx, prop=P, rid="C06.handlers")
    rule_noop(program, ctx)
    rule_reap(program, ctx)
    from . import c07

    c07.rule_enqueue(program, ctx, prop=P, rid="C06.enqueue")
    c07.rule_ctxmgr(program, ctx, prop=P, rid="C06.ctxmgr")
    from . import c03

    # a validator verdict replayed from memory refuses (or admits) an event whose verdict has changed meanwhile
    c03.rule_chain(program, ctx, prop=P, rid="C06.chain")
    from . import c01

    # LMDB answers OK=true before the writer thread runs: a key derivation that can raise for an admitted event loses it after the acknowledgement
    c01.rule_tagindex(program, ctx, prop=P, rid="C06.tagindex")
    rule_schema(program, ctx)
    # OK false must mean nothing was kept: that needs the driver to open transactions at all
    c07.rule_isolation(program, ctx, prop=P, rid="C06.isolation")
    from . import c19 as _c19

    # add_event waits for the previous round of notify tasks: a bounded per-connection queue parks them behind a client that does not read, and no later EVENT is answered
    _c19.rule_queue(program, ctx, prop=P, rid="C06.queue")
    ctx.not_decided += [
        "'retrievable thereafter' as an end-to-end fact (engine semantics, LMDB writer thread having committed)",
        "'never refused except as duplicate' for all well-formed events (value-dependent faults inside pre_save/process_tags)",
    ]


WEB = "nostr_relay/web.py"
DB = "nostr_relay/storage/db.py"
KV = "nostr_relay/storage/kv.py"

MUTANTS = [
    M("c06-events-check-constraint", "nostr_relay/storage/__init__.py", "                sa.Column(\"id\", sa.BLOB(), primary_key=True),", "                sa.Column(\"id\", sa.BLOB(), primary_key=True),\n                sa.CheckConstraint(\"kind >= 0\"),", "C06.schema"),
    M("c06-presave-le", DB, "                        & (self.EventTable.c.created_at < event.created_at)\n                    )\n                )\n            await self.process_tags",
      "                        & (self.EventTable.c.created_at <= event.created_at)\n                    )\n                )\n            await self.process_tags", "C06.strict"),
    M("c06-presave-select-le", DB, "                & (self.EventTable.c.created_at < event.created_at)\n            )\n            result = await conn.execute(query)",
      "                & (self.EventTable.c.created_at <= event.created_at)\n            )\n            result = await conn.execute(query)", "C06.strict"),
    M("c06-close-stops-writer-early", KV, "            self.writer_queue.put(None)\n            self.writer_thread.join()", "            self.writer_thread.running = False\n            self.writer_queue.put(None)\n            self.writer_thread.join()", "C06.drain"),
    M("c06-insert-own-txn", DB, "                        changed = result.rowcount == 1\n                        await self.post_save(event, connection=conn, changed=changed)\n",
      "                        changed = result.rowcount == 1\n                async with self.db.begin() as conn:\n                    if do_save:\n                        await self.post_save(event, connection=conn, changed=changed)\n", "C06.trace"),
    M("c06-writer-memo", KV, "                        if operation == \"add\" and not get_event_data(\n                            txn, args[0].id_bytes\n                        ):",
      "                        if operation == \"add\" and args[0].id_bytes not in self.written and not get_event_data(\n                            txn, args[0].id_bytes\n                        ):", "C06.dupcheck"),
    M("c06-second-ok-in-else", WEB, "                        reason = \"\" if result else \"duplicate: exists\"\n",
      "                        reason = \"\" if result else \"duplicate: exists\"\n                        await ws_send(json_dumps([\"OK\", eventid, result, reason]))\n", "C06.one_ok", canary=True),
    M("c06-ok-only-on-success", WEB, "                    finally:\n                        if throttle:\n                            await asyncio.sleep(throttle)\n                        await ws_send(json_dumps([\"OK\", eventid, result, reason]))",
      "                    finally:\n                        if throttle:\n                            await asyncio.sleep(throttle)\n                        if result:\n                            await ws_send(json_dumps([\"OK\", eventid, result, reason]))", "C06.one_ok"),
    M("c06-reason-unassigned", WEB, "                        result = False\n                        reason = str(e)\n                        eventid = \"\"\n                    except Exception as e:",
      "                        result = False\n                        eventid = \"\"\n                    except Exception as e:", "C06.assigned"),
    M("c06-changed-true", DB, "                        changed = result.rowcount == 1\n", "                        changed = True\n", "C06.true"),
    M("c06-return-inside-txn", DB, "                        await self.post_save(event, connection=conn, changed=changed)\n",
      "                        await self.post_save(event, connection=conn, changed=changed)\n                        return event, changed\n", "C06.true"),
    M("c06-broadcast-unconditional", DB, "        if changed:\n            await self.notify_all_connected(event)", "        if True:\n            await self.notify_all_connected(event)", "C06.broadcast"),
    M("c06-broadcast-in-txn", DB, "                        await self.post_save(event, connection=conn, changed=changed)\n            counter",
      "                        await self.post_save(event, connection=conn, changed=changed)\n                        if changed:\n                            await self.notify_all_connected(event)\n            counter", "C06.broadcast"),
    M("c06-ratelimited-no-ok", WEB, "                    await ws_send(json_dumps(response))\n                    throttle = max(throttle, 0.25) * 2",
      "                    if command != \"EVENT\":\n                        await ws_send(json_dumps(response))\n                    throttle = max(throttle, 0.25) * 2", "C06.one_ok"),
    M("c06-reason-static", WEB, "                        reason = \"\" if result else \"duplicate: exists\"\n", "                        reason = \"\"\n", "C06.reason"),
]

EQUIVS = []

# functions whose syntactic mutants are used for the thorough tier's sensitivity figure (sa/automut.py)
ANCHORS = [
    "nostr_relay.web:start_client",
    "nostr_relay.storage.db:DBStorage.add_event",
    "nostr_relay.storage.kv:LMDBStorage.add_event",
    "nostr_relay.storage.kv:WriterThread.run",
]
