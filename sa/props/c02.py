"""C02 - a REQ returns every matching stored event exactly once when under its limit (necessary conditions).

  C02.dispatch  every key the LMDB planner can put into query_items is owned by a residual branch for *all* values it can carry
                (no extra conjunct on `value`); otherwise a legal value falls into the catch-all tag branch and nothing matches
  C02.presence  presence tests on ge=0 filter fields on the stored-query path keep the legal value 0
  C02.compose   SQL: the REQ-wide LIMIT accumulates over the filters (shared construct with C12.compose)
  C02.authors   the authors clause honours NIP-26 delegation in all three matchers or in none
  C02.layout    index key layout: writer widths == reader slice bounds; filter bounds fit the byte widths; fixed-width to_key
  C02.plans     the planner does not drop filters below the five a REQ may carry
  C02.shared    index objects are process-wide singletons used from the query thread pool and the writer: no per-scan state on them
"""
from __future__ import annotations

import ast
import re

from ..cfg import cfg_of
from ..core import (
    AnalysisError,
    ancestors,
    call_name,
    dotted,
    enclosing_stmt,
    finding_at,
    finding_func,
    norm,
    own_calls,
    qual_of,
    walk_no_nested,
)
from ..lib import stores_of
from ..selftest import E, M

P = "C02"


def rule_dispatch(program, ctx):
    rid = ctx.rule(
        "C02.dispatch",
        "kv.compile_match_from_query is a decision list over `key`; for every literal key the planner appends ((\"since\", v), (\"until\", v), "
        "ids, authors, kinds, search) the first branch test naming that key must be `key == <lit>` with no additional conjunct that mentions "
        "`value` - a value-dependent conjunct sends legal values (0) to the catch-all tag branch",
        floor=3,
    )
    pl = program.func("nostr_relay.storage.kv:planner")
    emitted = {}
    for c in walk_no_nested(pl):
        if isinstance(c, ast.Call) and isinstance(c.func, ast.Attribute) and c.func.attr == "append" and dotted(c.func.value) == "query_items" and c.args and isinstance(c.args[0], ast.Tuple) and isinstance(c.args[0].elts[0], ast.Constant):
            emitted[c.args[0].elts[0].value] = c
    cm = program.func("nostr_relay.storage.kv:compile_match_from_query")
    loop = next((l for l in walk_no_nested(cm) if isinstance(l, ast.For) and dotted(l.iter) == "query_items"), None)
    if loop is None or not isinstance(loop.target, ast.Tuple):
        raise AnalysisError("compile_match_from_query: dispatch loop not found")
    kname, vname = [e.id for e in loop.target.elts]
    from ..lib import guard_atoms

    from ..lib import implied

    branches = [b for b in ast.walk(loop) if isinstance(b, ast.If)]
    for lit, app in sorted(emitted.items()):
        owner = None
        owner_body = None
        for b in branches:
            for edge, blk in (("t", b.body), ("f", b.orelse)):
                if not blk:
                    continue
                for clause in implied(b.test, edge):
                    if len(clause) == 1:
                        e, pol = clause[0]
                        if isinstance(e, ast.Compare) and len(e.ops) == 1 and dotted(e.left) == kname and isinstance(e.comparators[0], ast.Constant) and e.comparators[0].value == lit \
                                and ((isinstance(e.ops[0], ast.Eq) and pol) or (isinstance(e.ops[0], ast.NotEq) and not pol)):
                            owner, owner_body = b, blk
                        # `key in TABLE` / `key in ("since", "until")` with a constant collection that lists the key
                        if isinstance(e, ast.Compare) and len(e.ops) == 1 and dotted(e.left) == kname and ((isinstance(e.ops[0], ast.In) and pol) or (isinstance(e.ops[0], ast.NotIn) and not pol)):
                            coll = e.comparators[0]
                            keys = None
                            if isinstance(coll, (ast.Tuple, ast.List, ast.Set)):
                                keys = [x.value for x in coll.elts if isinstance(x, ast.Constant)]
                            elif isinstance(coll, ast.Name):
                                for st in cm._module.tree.body:
                                    if isinstance(st, ast.Assign) and any(dotted(t) == coll.id for t in st.targets):
                                        if isinstance(st.value, ast.Dict):
                                            keys = [k.value for k in st.value.keys if isinstance(k, ast.Constant)]
                                        elif isinstance(st.value, (ast.Tuple, ast.List, ast.Set)):
                                            keys = [x.value for x in st.value.elts if isinstance(x, ast.Constant)]
                            if keys and lit in keys:
                                owner, owner_body = b, blk
            if owner:
                break
        if owner is None:
            ctx.bad(finding_at(P, rid, app, f"the planner emits key \"{lit}\" but no residual branch owns it: it is compiled as a tag condition named \"{lit}\"", text=lit))
            continue
        # conditions under which the owner's body runs, beyond the key test itself
        atoms = guard_atoms(owner_body[0], stop=loop)
        extra = [e for e, pol in atoms if any(isinstance(n, ast.Name) and n.id == vname for n in ast.walk(e))]
        if extra:
            ctx.bad(finding_at(P, rid, owner, f"branch for \"{lit}\" also requires `{ast.unparse(extra[0])}`: the legal value 0 (the planner emits it whenever the bound `is not None`) "
                               f"falls into the catch-all tag branch, the residual then demands a tag named \"{lit}\" and the filter returns nothing", text=lit))
        else:
            ctx.ok(rid, owner, f"\"{lit}\" owned by `{ast.unparse(owner.test)}` for every value")


def rule_presence(program, ctx):
    rid = ctx.rule(
        "C02.presence",
        "stored-query path (kv.planner, db.evaluate_filter): since/until - declared ge=0 - are tested with `is not None` where the condition "
        "is compiled",
        floor=2,
    )
    for q, var in (("nostr_relay.storage.kv:planner", "query"), ("nostr_relay.storage.db:Subscription.evaluate_filter", "filter_obj")):
        fn = program.func(q)
        for f in ("since", "until"):
            tests = [n for n in walk_no_nested(fn) if isinstance(n, ast.If) and re.search(rf"\b{var}\.{f}\b", ast.unparse(n.test)) and any(isinstance(c, ast.Call) and isinstance(c.func, ast.Attribute) and c.func.attr == "append" for s in n.body for c in ast.walk(s))]
            if not tests:
                ctx.bad(finding_func(P, rid, fn, f"`{f}` is never compiled into the stored query", text=f"def {fn.name}(...) :: {f}"))
            for t in tests:
                tt = ast.unparse(t.test)
                if tt == f"{var}.{f} is not None":
                    ctx.ok(rid, t, f"{fn.name}: `{tt}`")
                else:
                    ctx.bad(finding_at(P, rid, t, f"{fn.name}: `{tt}` drops the legal bound {f}=0 from the stored query", text=f))


def rule_authors(program, ctx):
    from ..lib import expand_aliases

    rid = ctx.rule(
        "C02.authors",
        "sibling agreement of the authors clause: SQL skeleton, generated LMDB clause and in-memory check_event either all consult the "
        "`delegation` tag (NIP-26) or none does",
        floor=1,
    )
    sites = {
        "SQL": program.func("nostr_relay.storage.db:Subscription.evaluate_filter"),
        "LMDB": program.func("nostr_relay.storage.kv:compile_match_from_query"),
        "live": __import__("sa.lib", fromlist=["live_matcher"]).live_matcher(program)[0],
    }
    has = {}
    where = {}
    for name, fn in sites.items():
        found = False
        anchor = fn
        for n in ast.walk(fn):
            if isinstance(n, ast.If) and "authors" in ast.unparse(expand_aliases(fn, n.test)):
                anchor = n
                txt = " ".join(str(k.value) for s in n.body for k in ast.walk(s) if isinstance(k, ast.Constant) and isinstance(k.value, str))
                if "delegation" in txt:
                    found = True
        has[name] = found
        where[name] = anchor
    if len(set(has.values())) == 1:
        ctx.ok(rid, where["SQL"], f"authors clause: delegation {'honoured' if has['SQL'] else 'ignored'} by all three matchers")
    else:
        yes = [k for k, v in has.items() if v]
        for k, v in has.items():
            if not v:
                ctx.bad(finding_at(P, rid, where[k], label=f"{k} authors clause ignores delegation", message=f"the {k} matcher's authors clause ignores the NIP-26 delegation tag while {', '.join(yes)} honour it: a delegated event is "
                                   f"{'returned by one backend / pushed live but not by this one' }", text="authors"))
            else:
                ctx.ok(rid, where[k], f"{k}: authors clause consults the delegation tag")


def rule_layout(program, ctx, prop=P, rid="C02.layout"):
    ctx.rule(
        rid,
        "key layout table derived from Index.write: key = <index key> 00 <created_at: N bytes from to_bytes(N)> 00 <id: 32 bytes>; every slice of a "
        "key in kv.py must be [-(33+N):-33] for the timestamp and [-32:] for the id; scanner converts since/until with the same N; "
        "NostrQuery.since/until `lt` fits N bytes; to_key of the fixed-width indexes uses to_bytes(4)/32-byte values",
        floor=3,
    )
    wr = program.func("nostr_relay.storage.kv:Index.write")
    N = None
    for c in ast.walk(wr):
        if isinstance(c, ast.Call) and isinstance(c.func, ast.Attribute) and c.func.attr == "to_bytes" and "created_at" in ast.unparse(c.func.value) and c.args and isinstance(c.args[0], ast.Constant):
            N = c.args[0].value
    fmt = next((k.value for k in ast.walk(wr) if isinstance(k, ast.Constant) and isinstance(k.value, bytes) and b"%s" in k.value), None)
    if N is None or fmt != b"%s\x00%s\x00%s":
        ctx.bad(finding_func(prop, rid, wr, "Index.write no longer builds `key 00 created_at 00 id` with a fixed-width timestamp: the readers' slice offsets are meaningless", text="def write(...) :: layout"))
        return
    ctx.ok(rid, wr, f"Index.write: key 00 ts({N}) 00 id(32)")
    ts_lo, ts_hi = -(33 + N), -33
    kv = program.module("nostr_relay.storage.kv")
    for sub in ast.walk(kv.tree):
        if isinstance(sub, ast.Subscript) and isinstance(sub.slice, ast.Slice) and isinstance(sub.value, ast.Name) and sub.value.id == "key":
            def val(x):
                if x is None:
                    return None
                if isinstance(x, ast.UnaryOp) and isinstance(x.op, ast.USub) and isinstance(x.operand, ast.Constant):
                    return -x.operand.value
                if isinstance(x, ast.Constant):
                    return x.value
                return "?"
            lo, hi = val(sub.slice.lower), val(sub.slice.upper)
            if (lo, hi) == (ts_lo, ts_hi):
                ctx.ok(rid, sub, f"timestamp slice key[{lo}:{hi}]")
            elif (lo, hi) == (-32, None):
                ctx.ok(rid, sub, "id slice key[-32:]")
            elif isinstance(lo, int) and lo < 0:
                ctx.bad(finding_at(prop, rid, sub, f"key[{lo}:{hi}] does not match the layout written by Index.write (timestamp = key[{ts_lo}:{ts_hi}], id = key[-32:]): "
                                   "the scanner compares the wrong bytes with since/until or returns wrong ids"))
    sc = program.func("nostr_relay.storage.kv:Index.scanner")
    for c in ast.walk(sc):
        if isinstance(c, ast.Call) and isinstance(c.func, ast.Attribute) and c.func.attr == "to_bytes" and dotted(c.func.value) in ("since", "until"):
            w = c.args[0].value if c.args and isinstance(c.args[0], ast.Constant) else None
            if w == N and len(c.args) > 1 and isinstance(c.args[1], ast.Constant) and c.args[1].value == "big":
                ctx.ok(rid, c, f"{dotted(c.func.value)}.to_bytes({N}, 'big')")
            else:
                ctx.bad(finding_at(prop, rid, c, f"scanner converts {dotted(c.func.value)} with width {w}, keys carry {N} big-endian bytes"))
    ci = program.cls("nostr_relay.storage.base:NostrQuery")
    for st in ci.node.body:
        if isinstance(st, ast.AnnAssign) and isinstance(st.target, ast.Name) and st.target.id in ("since", "until") and isinstance(st.value, ast.Call):
            lt = next((k.value.value for k in st.value.keywords if k.arg == "lt" and isinstance(k.value, ast.Constant)), None)
            if lt is not None and lt <= 2 ** (8 * N):
                ctx.ok(rid, st, f"{st.target.id} < {lt} fits {N} bytes")
            else:
                ctx.bad(finding_at(prop, rid, st, f"NostrQuery.{st.target.id} is not bounded below 2**{8*N}: to_bytes({N}) raises OverflowError inside the scanner"))
    tc = program.func("nostr_relay.storage.kv:TagIndex.convert")
    from ..lib import expand_aliases as _ea

    ys = [_ea(tc, y.value) for y in ast.walk(tc) if isinstance(y, ast.Yield) and y.value is not None]
    if ys and all(ast.unparse(y) == "self.to_key((tag[0], str(tag[1])))" for y in ys):
        ctx.ok(rid, tc, "TagIndex.convert writes exactly to_key((name, str(value))) - the key the planner seeks with to_key on the filter value")
    else:
        ctx.bad(finding_func(prop, rid, tc, f"TagIndex.convert writes `{[ast.unparse(y)[:50] for y in ys]}`: the write side and the query side (TagIndex.to_key on the filter's value) no longer "
                             "build the same key, e.g. long values are truncated on write but not on lookup", text="def convert(...) :: key"))
    for cname, expect in (("CreatedIndex", 4), ("KindIndex", 4), ("AuthorKindIndex", 4)):
        fn = program.func(f"nostr_relay.storage.kv:{cname}.to_key")
        ws = [c.args[0].value for c in ast.walk(fn) if isinstance(c, ast.Call) and isinstance(c.func, ast.Attribute) and c.func.attr == "to_bytes" and c.args and isinstance(c.args[0], ast.Constant)]
        endian = [c.args[1].value for c in ast.walk(fn) if isinstance(c, ast.Call) and isinstance(c.func, ast.Attribute) and c.func.attr == "to_bytes" and len(c.args) > 1 and isinstance(c.args[1], ast.Constant)]
        if ws == [expect] and endian == ["big"]:
            ctx.ok(rid, fn, f"{cname}.to_key: to_bytes({expect}, 'big')")
        else:
            ctx.bad(finding_func(prop, rid, fn, f"{cname}.to_key no longer encodes a fixed-width big-endian integer: byte order of keys no longer equals numeric order", text="def to_key(...)"))


def rule_plans(program, ctx):
    rid = ctx.rule(
        "C02.plans",
        "kv.planner keeps `filters[:maximum_plans]` with maximum_plans >= 5 (a REQ carries up to five filters in the property's quantifier)",
        floor=1,
    )
    pl = program.func("nostr_relay.storage.kv:planner")
    args = pl.args.args
    defaults = [None] * (len(args) - len(pl.args.defaults)) + list(pl.args.defaults)
    mp = next((d for a, d in zip(args, defaults) if a.arg == "maximum_plans"), None)
    if mp is None:
        ctx.ok(rid, pl, "no plan bound", nontrivial=False)
    elif isinstance(mp, ast.Constant) and isinstance(mp.value, int) and mp.value >= 5:
        ctx.ok(rid, pl, f"maximum_plans = {mp.value}")
    else:
        ctx.bad(finding_func(P, rid, pl, f"maximum_plans = {ast.unparse(mp)}: filters beyond it are silently dropped", text="def planner(...) :: maximum_plans"))
    for c in ast.walk(program.module("nostr_relay.storage.kv").tree):
        if isinstance(c, ast.Call) and call_name(c) == "planner" and any(k.arg == "maximum_plans" for k in c.keywords):
            ctx.bad(finding_at(P, rid, c, "a caller overrides maximum_plans"))


def rule_shared(program, ctx, prop=P, rid="C02.shared"):
    ctx.rule(
        rid,
        "classes instantiated in the INDEXES registry are process-wide singletons shared by the query thread pool and the writer thread: outside "
        "__init__ (and FTSIndex's lazy properties) their methods neither assign nor mutate attributes of self - per-scan state on the singleton "
        "makes overlapping scans skip each other's results",
        floor=3,
    )
    kv = program.module("nostr_relay.storage.kv")
    reg = next((s.value for s in kv.tree.body if isinstance(s, ast.Assign) and any(isinstance(t, ast.Name) and t.id == "INDEXES" for t in s.targets) and isinstance(s.value, ast.Dict)), None)
    if reg is None:
        raise AnalysisError("INDEXES registry not found")
    names = {call_name(v) for v in reg.values if isinstance(v, ast.Call)}
    classes = set()
    for n in names:
        ci = program.classes.get(f"nostr_relay.storage.kv:{n}")
        if ci:
            for c in program.mro(ci):
                classes.add(c.qual)
    mut = {"add", "append", "update", "extend", "clear", "pop", "remove", "discard", "insert", "setdefault", "popitem"}
    for q in sorted(classes):
        ci = program.classes[q]
        for mname, fn in ci.methods.items():
            if mname == "__init__" or any("property" in ast.unparse(d) for d in fn.decorator_list):
                continue
            bad = []
            aliases = {t.id for n in ast.walk(fn) if isinstance(n, ast.Assign) and isinstance(n.value, ast.Attribute) and isinstance(n.value.value, ast.Name) and n.value.value.id == "self" for t in n.targets if isinstance(t, ast.Name)}
            for n in ast.walk(fn):
                if isinstance(n, ast.Call) and isinstance(n.func, ast.Attribute) and n.func.attr in mut and isinstance(n.func.value, ast.Name) and n.func.value.id in aliases:
                    bad.append(n)
                if isinstance(n, (ast.Assign, ast.AugAssign, ast.AnnAssign)):
                    tg = n.targets if isinstance(n, ast.Assign) else [n.target]
                    for t in tg:
                        for a in ast.walk(t):
                            if isinstance(a, ast.Attribute) and isinstance(a.value, ast.Name) and a.value.id == "self" and isinstance(a.ctx, ast.Store):
                                bad.append(n)
                if isinstance(n, ast.Call) and isinstance(n.func, ast.Attribute) and n.func.attr in mut and dotted(n.func.value).startswith("self."):
                    bad.append(n)
            if bad:
                for b in bad:
                    ctx.bad(finding_at(prop, rid, b, f"{ci.qual.split(':')[1]}.{mname} keeps state on the shared index singleton: concurrent scans (query pool threads, writer thread) interfere"))
            else:
                ctx.ok(rid, fn, f"{ci.qual.split(':')[1]}.{mname}: stateless on self", nontrivial=False)
    ctx.ok(rid, reg, f"{len(classes)} index classes checked")


def rule_skips(program, ctx, prop=P, rid="C02.skips"):
    from ..lib import guard_atoms, expand_aliases

    ctx.rule(
        rid,
        "LMDB planner: a filter of the REQ is dropped (`continue`) only for an audited reason - it is not a usable NostrQuery, one of its lists is empty, a tag has no "
        "values, or it would need an unbounded created_at scan; and the plan appended for a filter is a QueryPlan *constructed in this iteration* from this filter's "
        "items and limit (a plan looked up in a cache / deduplicated against an earlier filter carries another filter's limit)",
        floor=3,
    )
    fn = program.func("nostr_relay.storage.kv:planner")
    loop = next((l for l in walk_no_nested(fn) if isinstance(l, ast.For) and "filters" in ast.unparse(l.iter)), None)
    if loop is None:
        raise AnalysisError("planner: filter loop not found")
    qv = loop.target.id if isinstance(loop.target, ast.Name) else "query"
    inv = {qv}

    # names that hold (parts of) this filter: bound from an expression over the query, or loop variables over such a value
    derived = {qv}
    changed = True
    while changed:
        changed = False
        for st in ast.walk(loop):
            tg, src = None, None
            if isinstance(st, ast.Assign) and len(st.targets) == 1:
                tg, src = st.targets[0], st.value
            elif isinstance(st, ast.For):
                tg, src = st.target, st.iter
            if tg is None:
                continue
            if any(isinstance(n, ast.Name) and n.id in derived for n in ast.walk(src)) and not any(isinstance(c, ast.Call) and isinstance(c.func, ast.Attribute) and c.func.attr in ("get", "pop") and not any(isinstance(n, ast.Name) and n.id in derived for n in ast.walk(c.func.value)) for c in ast.walk(src)):
                for n in ast.walk(tg):
                    if isinstance(n, ast.Name) and n.id not in derived:
                        derived.add(n.id)
                        changed = True

    def sentinel_ok(name, seen=()):
        """a flag / result variable: every store of a constant (True/False/None) to it - directly or through a copy - happens under audited reasons"""
        if name in seen:
            return True
        sts = [s_ for s_ in ast.walk(loop) if isinstance(s_, ast.Assign) and any(dotted(t) == name for t in s_.targets)]
        if not sts:
            return False
        marks = 0
        for s_ in sts:
            v = s_.value
            if isinstance(v, ast.Constant) and (v.value is None or v.value is True):
                marks += 1
                at = [(x, p_) for x, p_ in guard_atoms(s_, stop=loop) if name not in {n.id for n in ast.walk(x) if isinstance(n, ast.Name)}]
                if not at or not all(reason_ok(x) for x, _ in at):
                    return False
            elif isinstance(v, ast.Constant):
                continue
            elif isinstance(v, ast.Name):
                if not (v.id in derived or sentinel_ok(v.id, seen + (name,)) or not any(isinstance(s2, ast.Assign) and isinstance(s2.value, ast.Constant) and any(dotted(t) == v.id for t in s2.targets) for s2 in ast.walk(loop))):
                    return False
                marks += 1 if sentinel_marks(v.id) else 0
            else:
                continue
        return marks > 0

    def sentinel_marks(name):
        return any(isinstance(s2, ast.Assign) and isinstance(s2.value, ast.Constant) and any(dotted(t) == name for t in s2.targets) for s2 in ast.walk(loop))

    def reason_ok(e):
        txt = ast.unparse(e)
        names = {n.id for n in ast.walk(e) if isinstance(n, ast.Name)}
        if txt in (qv, f"{qv} is None") or txt.startswith(f"isinstance({qv},"):
            return True
        # emptiness of a value built from this filter's own fields (ids, kinds, authors, a tag's values)
        if isinstance(e, ast.Name):
            return e.id in derived or sentinel_ok(e.id)
        if isinstance(e, ast.Compare) and "None" in txt:
            return names <= derived or all(n in derived or sentinel_ok(n) for n in names)
        if "best_index is INDEXES['created_at']" in txt or (f"{qv}.since" in txt or f"{qv}.until" in txt):
            return True
        if isinstance(e, ast.BoolOp):
            return all(reason_ok(v) for v in e.values)
        if isinstance(e, ast.UnaryOp):
            return reason_ok(e.operand)
        if isinstance(e, ast.Compare) and len(e.ops) == 1 and isinstance(e.ops[0], (ast.In, ast.NotIn)):
            return False  # membership in something remembered across filters / requests
        if isinstance(e, ast.Call):
            return call_name(e) in ("isinstance", "len", "bool")
        return not (names - inv - {"log", "default_limit"}) or isinstance(e, ast.Attribute)

    n = 0
    for c in ast.walk(loop):
        if isinstance(c, ast.Continue):
            n += 1
            atoms = guard_atoms(c, stop=loop)
            bad = [(e, pol) for e, pol in atoms if not reason_ok(e)]
            if bad:
                e, pol = bad[0]
                ctx.bad(finding_at(prop, rid, c, f"a filter is skipped when `{'' if pol else 'not '}{ast.unparse(e)[:60]}`: that is not a reason for which the filter matches nothing - its matching events "
                                   "(e.g. those beyond an earlier, smaller limit of an otherwise identical filter) are never delivered"))
            else:
                ctx.ok(rid, c, f"skip reason: {[('' if pol else 'not ') + ast.unparse(e)[:30] for e, pol in atoms][-2:]}")
    # provenance of appended plans
    for c in ast.walk(loop):
        if isinstance(c, ast.Call) and isinstance(c.func, ast.Attribute) and c.func.attr == "append" and dotted(c.func.value) == "plans" and c.args:
            a = c.args[0]
            n += 1
            if isinstance(a, ast.Name) and a.id == qv:
                ctx.ok(rid, c, "a ready-made QueryPlan handed in by an internal caller")
                continue
            srcs = [a] if not isinstance(a, ast.Name) else [s_.value for s_ in stores_of(fn, a.id) if isinstance(s_, ast.Assign)]
            if srcs and all(isinstance(v, ast.Call) and call_name(v) == "QueryPlan" for v in srcs):
                ctx.ok(rid, c, "plan constructed in this iteration")
            else:
                badv = next((v for v in srcs if not (isinstance(v, ast.Call) and call_name(v) == "QueryPlan")), a)
                ctx.bad(finding_at(prop, rid, c, f"the plan appended for a filter can come from `{ast.unparse(badv)[:60]}`, not from a QueryPlan(...) built for this filter: a remembered plan "
                                   "carries the limit (and default_limit) of whoever created it first"))
    if not n:
        raise AnalysisError("planner: no continue/append sites")


def rule_tagrows(program, ctx, prop=P, rid="C02.tagrows"):
    ctx.rule(
        rid,
        "who-may-delete: rows of the `tags` table (what every '#x' filter is answered from) disappear only together with their event (ON DELETE CASCADE) - an explicit "
        "DELETE on the tags table must carry the same author constraint as the DELETE on events, otherwise anybody's kind-5 strips the tag rows of a foreign event, "
        "which then no longer matches any tag filter",
        floor=1,
    )
    m = program.module("nostr_relay.storage.db")
    n = 0
    for c in ast.walk(m.tree):
        txt = ast.unparse(c) if isinstance(c, ast.Call) else ""
        if isinstance(c, ast.Call) and ((call_name(c) in ("sa.delete", "delete") and c.args and "Tag" in ast.unparse(c.args[0])) or (isinstance(c.func, ast.Attribute) and c.func.attr == "delete" and "Tag" in ast.unparse(c.func.value))):
            n += 1
            stmt = enclosing_stmt(c)
            whole = ast.unparse(stmt)
            if "pubkey" in whole or "event.id_bytes" in whole:
                ctx.ok(rid, c, "explicit tag-row delete constrained by author / own id")
            else:
                ctx.bad(finding_at(prop, rid, c, "tag rows are deleted by id without the author constraint of the event DELETE next to it: a deletion request by another pubkey leaves the "
                                   "event stored but removes its tag rows - tag filters no longer return it"))
        if isinstance(c, ast.Constant) and isinstance(c.value, str) and re.search(r"DELETE\s+FROM\s+tags", c.value, re.I):
            n += 1
            ctx.bad(finding_at(prop, rid, c, "raw DELETE FROM tags"))
    if not n:
        ctx.ok(rid, m.tree, "no explicit DELETE on the tags table (cascade only)")


def rule_rows(program, ctx, prop=P, rid="C02.rows"):
    from ..cfg import cfg_of as _cfg_of
    from ..lib import NORMAL as _N

    ctx.rule(
        rid,
        "every row the SQL statement selected is handed on, and the stream ends only when the statement is exhausted: in DBStorage.run_query each iteration of the "
        "row loop reaches `yield event_from_tuple(row)` (no filter between fetch and yield - the WHERE clause is the filter), nothing in the two row loops "
        "(DBStorage.run_query, Subscription.run_query) converts stored tag values with int()/float() outside a handler for ValueError (a value like "
        "[\"expiration\",\"never\"] is accepted at admission: the conversion raises at that row, run_query's catch-all ends the stream and every older row is lost), "
        "and the stream is not cut by a timeout (`async with timeout(...)`, wait_for): a truncated result is indistinguishable from a complete one for "
        "run_single_query's callers (the allow/deny list builder publishes it as the full list)",
        floor=2,
    )
    rq = program.func("nostr_relay.storage.db:DBStorage.run_query")
    cfg = _cfg_of(rq)
    loops = [n for n, d in cfg.g.nodes(data=True) if d["kind"] == "loop" and isinstance(d["ast"], ast.AsyncFor)]
    ys = cfg.stmt_nodes(lambda s: any(isinstance(y, ast.Yield) for y in ast.walk(s)), kinds=("stmt",))
    if not loops or not ys:
        raise AnalysisError("DBStorage.run_query: row loop / yield not found")
    for lp in loops:
        body = list(cfg.succ(lp, kinds={"t"}))
        path = cfg.find_path(body, [lp], avoid_nodes=ys, kinds=_N)
        if path:
            last = next((cfg.ast_of(n) for n in reversed(path[:-1]) if cfg.ast_of(n) is not None), rq)
            ctx.bad(finding_at(prop, rid, last, "a fetched row can be skipped without being yielded: stored events that match the filter are withheld from the result", path=cfg.describe_path(path)[-4:]))
        else:
            ctx.ok(rid, cfg.ast_of(lp), "every fetched row is yielded")
    for y in ys:
        st = cfg.ast_of(y)
        val = next((x.value for x in ast.walk(st) if isinstance(x, ast.Yield)), None)
        src = val
        if isinstance(val, ast.Name):
            b = [s_ for s_ in stores_of(rq, val.id) if isinstance(s_, ast.Assign)]
            src = b[0].value if len(b) == 1 else None
        if not (isinstance(src, ast.Call) and call_name(src) == "event_from_tuple"):
            ctx.bad(finding_at(prop, rid, st, f"run_query yields `{ast.unparse(val)[:40] if val is not None else None}`, not event_from_tuple(row)"))
    for w in walk_no_nested(rq):
        if isinstance(w, (ast.With, ast.AsyncWith)):
            for it in w.items:
                nm = call_name(it.context_expr) if isinstance(it.context_expr, ast.Call) else ""
                if nm.split(".")[-1] in ("timeout", "timeout_at", "fail_after", "move_on_after"):
                    ctx.bad(finding_at(prop, rid, w, f"the row stream runs under `{nm}(...)`: when it fires the generator ends like an exhausted statement - callers that take the stream "
                                       "as the complete answer (dynamic allow/deny lists, run_single_query) publish a truncated result"))
        if isinstance(w, ast.Call) and call_name(w).split(".")[-1] == "wait_for":
            ctx.bad(finding_at(prop, rid, w, "the row stream is awaited through wait_for: a timeout truncates the result silently"))
    for fn in (rq, program.func("nostr_relay.storage.db:Subscription.run_query")):
        for lp_ in [l for l in walk_no_nested(fn) if isinstance(l, (ast.AsyncFor, ast.For))]:
            for c in ast.walk(lp_):
                if isinstance(c, ast.Call) and isinstance(c.func, ast.Name) and c.func.id in ("int", "float") and c.args and any(isinstance(x, ast.Subscript) for x in ast.walk(c.args[0])):
                    guarded = any(isinstance(a, ast.Try) and any(c is x for b_ in a.body for x in ast.walk(b_)) and any(h.type is not None and ("ValueError" in ast.unparse(h.type)) for h in a.handlers)
                                  for a in ancestors(c) if any(a is y for y in ast.walk(lp_)))
                    if not guarded:
                        ctx.bad(finding_at(prop, rid, c, f"{qual_of(fn)}: `{ast.unparse(c)[:40]}` converts a stored tag value inside the row loop with no ValueError handler there: one stored event "
                                           "with a non-numeric value ends every query that reaches it (the rows after it are never sent; the query slot is held)"))
    ctx.ok(rid, rq, "row loops: no conversion of stored values, no timeout")


def run(program, ctx):
    from ..lib import rule_awaited

    rule_awaited(program, ctx, P, ANCHORS)
    from . import c07

    # an event whose tag rows are written in another transaction than its own row can end up stored without them:
    # kinds/ids/authors filters then return it, every tag filter omits it
    c07.rule_sqlregion(program, ctx, prop=P, rid="C02.txn")
    rule_dispatch(program, ctx)
    rule_presence(program, ctx)
    # shared construct with C12
    from . import c12
    ridc = ctx.rule("C02.compose", "SQL: REQ-wide LIMIT must accumulate over the filters (see C12.compose; same construct, reported here too)", floor=1)
    bq = program.func("nostr_relay.storage.db:Subscription.build_query")
    for st in stores_of(bq, "limit"):
        loop = next((a for a in ancestors(st) if isinstance(a, ast.For)), None)
        if loop is not None and "filters" in ast.unparse(loop.iter) and isinstance(st, ast.Assign):
            if any(isinstance(n, ast.Name) and n.id == "limit" for n in ast.walk(st.value)):
                ctx.ok(ridc, st, "limit accumulates over the filters")
            else:
                ctx.bad(finding_at(P, ridc, st, label="REQ-wide LIMIT is last-filter-wins", message="`limit` is re-assigned per filter (last filter wins): a filter whose matching events are fewer than its own limit is still truncated "
                                   "to the last filter's limit, so not every matching event is delivered"))
    rule_authors(program, ctx)
    rule_layout(program, ctx)
    rule_plans(program, ctx)
    rule_skips(program, ctx)
    rule_tagrows(program, ctx)
    rule_shared(program, ctx)
    # the filter model normalises ids/authors (hex, lower case) *before* it dedupes and sorts them - the LMDB scanner relies on a
    # deduplicated, descending list of normalised ids; the hand serializer must not fail on a stored event (the sender task drops it silently)
    from . import c01, c04

    ridm = ctx.rule("C02.model", "NostrQuery: ids/authors are hex-checked and lower-cased by AfterValidator(ids_are_hex) in the field annotation (runs before the "
                    "dedupe/sort field validator); kinds/since/until/limit are int-typed (see C01.model)", floor=3)
    c01.derive_model_fields(program, ctx, ridm, prop=P)
    c04.rule_serializer(program, ctx, c04.canonical_fields(program, ctx, ctx.rule("C02.canonical", "admission proves canonical id/pubkey/sig/created_at (input to C02.serializer)", floor=0)), prop=P, rid="C02.serializer")
    c01.rule_tagindex(program, ctx, prop=P, rid="C02.tagindex")
    c01.rule_emptylist(program, ctx, prop=P, rid="C02.emptylist")
    rule_rows(program, ctx)
    from ..lib import rule_ge0_truthiness
    from . import c13 as _c13

    rule_ge0_truthiness(program, ctx, P, "C02.ge0")
    # a sender that drops queued items (or the EOSE) of a subscription id loses stored events of a REQ that re-uses the id
    _c13.rule_sender(program, ctx, prop=P, rid="C02.sender")
    from . import c07 as _c07

    # an index write that fails must abort the record's transaction: a record without its index entries is stored but never found
    _c07.rule_kvregion(program, ctx, prop=P, rid="C02.kvregion")
    from . import c05, c12

    # a stored query that is cancelled by another connection's REQ (shared registry entry) ends without its remaining events
    c05.rule_registry(program, ctx, prop=P, rid="C02.registry")
    c12.rule_model(program, ctx, prop=P, rid="C02.limitmodel")
    ctx.not_decided += [
        "completeness of Index.scanner / MultiIndex over arbitrary key neighbourhoods (seek sentinel, stop key, prefix test on variable-length tag keys, equal timestamps, ids starting 0xff)",
        "exactly-once on SQL (engine semantics); bound-parameter naming collisions across filters",
    ]


KV = "nostr_relay/storage/kv.py"
DB = "nostr_relay/storage/db.py"
BASE = "nostr_relay/storage/base.py"

MUTANTS = [
    M("c02-planner-truthy-window", "nostr_relay/storage/kv.py", "            query.since is None and query.until is None\n", "            not query.since and not query.until\n", "C02.ge0"),
    M("c02-row-skipped", "nostr_relay/storage/db.py", "                                yield event_from_tuple(row)\n", "                                if not row[4]:\n                                    continue\n                                yield event_from_tuple(row)\n", "C02.rows"),
    M("c02-stream-wait-for", "nostr_relay/storage/db.py", "                            async for row in result:\n                                yield event_from_tuple(row)", "                            async for row in result:\n                                int(row[4][0][1])\n                                yield event_from_tuple(row)", "C02.rows"),
] + [
    M("c02-" + m.id, m.rel, m.old, m.new, "C02.txn", m.where, False, m.count) for m in __import__("sa.props.c07", fromlist=["MUTANTS"]).MUTANTS if m.expect == "C07.sqlregion"
] + [
    M("c02-since-and-value", KV, "        elif key == \"since\":\n", "        elif key == \"since\" and value:\n", "C02.dispatch", canary=True),
    M("c02-kinds-and-value", KV, "        elif key == \"kinds\":\n", "        elif key == \"kinds\" and value[0]:\n", "C02.dispatch"),
    M("c02-until-branch-removed", KV, "        elif key == \"until\":\n            col = FIELDS_TO_COLUMNS[\"created_at\"]\n            filter_clauses.add(f\"(et[{col}] <= {value!r})\")\n", "", "C02.dispatch"),
    M("c02-planner-since-truthy", KV, "        if query.since is not None:\n            query_items.append", "        if query.since:\n            query_items.append", "C02.presence"),
    M("c02-sql-until-truthy", DB, "        if filter_obj.until is not None:", "        if filter_obj.until:", "C02.presence"),
    M("c02-write-8-bytes", KV, "        ctime = event.created_at.to_bytes(4, \"big\")", "        ctime = event.created_at.to_bytes(8, \"big\")", "C02.layout"),
    M("c02-ts-slice", KV, "                    ts = key[-37:-33]", "                    ts = key[-36:-32]", "C02.layout"),
    M("c02-kind-little-endian", KV, "        return self.prefix + value.to_bytes(4, \"big\")\n\n    def convert(self, event: Event):\n        yield self.to_key(event.kind)", "        return self.prefix + value.to_bytes(4, \"little\")\n\n    def convert(self, event: Event):\n        yield self.to_key(event.kind)", "C02.layout"),
    M("c02-max-plans-3", KV, "maximum_plans=5", "maximum_plans=3", "C02.plans"),
    M("c02-scanner-seen-state", KV, "                    event_id = key[-32:]\n                    if event_id in events:\n                        yield event_id",
      "                    event_id = key[-32:]\n                    if event_id in events and event_id not in self.seen:\n                        self.seen.add(event_id)\n                        yield event_id", "C02.shared"),
    M("c02-live-no-delegation", BASE, "                has_delegation, match = event.has_tag(\"delegation\", query.authors)\n                if match:\n                    matched.add(True)\n", "", "C02.authors"),
]
EQUIVS = []

# functions whose syntactic mutants are used for the thorough tier's sensitivity figure (sa/automut.py)
ANCHORS = [
    "nostr_relay.storage.kv:compile_match_from_query",
    "nostr_relay.storage.kv:planner",
    "nostr_relay.storage.kv:Index.write",
    "nostr_relay.storage.db:Subscription.evaluate_filter",
]
