"""C07 - all effects of one event are applied atomically.

  C07.sqlregion  one `async with self.db.begin() as conn` in DBStorage.add_event spans pre_save, the INSERT, post_save and process_tags;
                 every write in the closure runs on that handle; nothing in the closure opens/commits/rolls back a transaction or
                 swallows an exception raised by a write; acknowledgement and broadcast are outside the region
  C07.slots      add_slot / query_slot only through `async with` (shared with C19)
  C07.kvregion   WriterThread.run applies a whole task inside one `with env.begin(write=True)`; the logging handler is outside that with
                 and inside the loop; the closure writes only through its txn parameter, opens no transaction, defers nothing to another
                 task, and no handler in it encloses a write
  C07.owner      txn.put / txn.delete only in Index.write / IdIndex.write (+ the tombstone)
  C07.cascade    tag rows vanish with their event: ON DELETE CASCADE in both schemas and PRAGMA foreign_keys=ON on every SQLite connection
  C07.foreign    no index of the write set commits to a store outside the LMDB transaction
"""
from __future__ import annotations

import ast

from ..cfg import catches, cfg_of
from ..core import (
    AnalysisError,
    ancestors,
    call_name,
    dotted,
    enclosing_stmt,
    finding_at,
    finding_func,
    norm,
    own_calls,
    qual_of,
    walk_no_nested,
)
from ..lib import all_calls, func_of, resolve_self_call, stores_of, strip_await
from ..selftest import E, M
from . import c19

P = "C07"


def _is_begin(expr) -> bool:
    return isinstance(expr, ast.Call) and call_name(expr).endswith(".begin")


def _handler_swallows(h: ast.ExceptHandler) -> bool:
    """a handler that does not end in raise on every path (approximation: no `raise` as last statement)"""
    last = h.body[-1] if h.body else None
    return not isinstance(last, ast.Raise)


def rule_sqlregion(program, ctx, prop=P, rid="C07.sqlregion"):
    ctx.rule(
        rid,
        "DBStorage.add_event: exactly one transaction region; pre_save, INSERT and post_save are lexically inside it; in the closure "
        "(pre_save, post_save, process_tags incl. overrides reached through self.*) every `.execute(` is applied to the connection parameter "
        "handed down from the region, no begin/connect/commit/rollback, no try whose handler swallows around an execute; "
        "return and broadcast are outside the region",
        floor=4,
    )
    ae = program.func("nostr_relay.storage.db:DBStorage.add_event")
    regions = [w for w in walk_no_nested(ae) if isinstance(w, ast.AsyncWith) and any(_is_begin(i.context_expr) for i in w.items)]
    if len(regions) != 1:
        ctx.bad(finding_func(prop, rid, ae, f"add_event opens {len(regions)} transaction regions: the effects of one event are split over several commits "
                             "(a failure or crash between them leaves the event half applied)", text="def add_event(...) :: regions"))
        if not regions:
            return
    region = regions[0]
    handle = next((i.optional_vars.id for i in region.items if _is_begin(i.context_expr) and isinstance(i.optional_vars, ast.Name)), None)
    if handle is None:
        ctx.bad(finding_at(prop, rid, region, "the transaction handle is not bound to a name"))
        return
    ctx.ok(rid, region, f"single region `async with self.db.begin() as {handle}`")
    inside = {id(n) for n in ast.walk(region)}
    must_inside = []
    for c in walk_no_nested(ae):
        if isinstance(c, ast.Call):
            nm = call_name(c)
            if nm in ("self.pre_save", "self.post_save", "self.process_tags") or (nm.endswith(".execute")):
                must_inside.append(c)
    for c in must_inside:
        if id(c) in inside:
            ctx.ok(rid, c, f"{call_name(c)} inside the region")
        else:
            ctx.bad(finding_at(prop, rid, c, f"`{call_name(c)}` runs outside the transaction that inserts the event: its effects commit (or fail) separately"))
    for c in walk_no_nested(ae):
        if isinstance(c, ast.Call) and call_name(c).endswith(".execute") and dotted(c.func.value) != handle:
            ctx.bad(finding_at(prop, rid, c, f"a statement of add_event is executed on `{dotted(c.func.value)}`, not on the region's handle `{handle}`"))
    for r in walk_no_nested(ae):
        if isinstance(r, ast.Return) and id(r) in inside:
            ctx.bad(finding_at(prop, rid, r, "return from inside the region (acknowledged before commit)"))
        if isinstance(r, ast.Call) and call_name(r).endswith(("notify_all_connected", "notify_other_processes")) and id(r) in inside:
            ctx.bad(finding_at(prop, rid, r, "broadcast inside the region (before commit)"))
    # handlers inside the region
    for t in ast.walk(region):
        if isinstance(t, ast.Try) and t.handlers and any(_handler_swallows(h) for h in t.handlers):
            if any(isinstance(c, ast.Call) and (call_name(c).endswith(".execute") or call_name(c).startswith("self.p")) for s in t.body for c in ast.walk(s)):
                ctx.bad(finding_at(prop, rid, t, "a try inside the region swallows an exception raised by a write: the transaction commits half of the event's effects"))
    # closure
    seen = {}
    work = []
    for c in ast.walk(region):
        if isinstance(c, ast.Call) and call_name(c).startswith("self.") and call_name(c).split(".")[1] in ("pre_save", "post_save", "process_tags"):
            work.append((c, ae))
    while work:
        call, caller = work.pop()
        name = call_name(call).split(".")[1]
        for fn in resolve_self_call(program, caller, name) + ([] if name != "post_save" else []):
            # which parameter receives the handle
            params = [a.arg for a in fn.args.args]
            hp = None
            for i, a in enumerate(call.args):
                if isinstance(a, ast.Name) and a.id in (handle, seen.get(id(caller), (None, None))[1]):
                    hp = params[i + 1] if i + 1 < len(params) else None
            for k in call.keywords:
                if isinstance(k.value, ast.Name) and k.value.id in (handle, seen.get(id(caller), (None, None))[1]) and k.arg in params:
                    hp = k.arg
            if id(fn) in seen:
                continue
            seen[id(fn)] = (fn, hp)
            _check_closure_fn(program, ctx, rid, fn, hp, prop)
            for c2 in walk_no_nested(fn):
                if isinstance(c2, ast.Call) and call_name(c2).startswith("self.") and call_name(c2).split(".")[1] in ("pre_save", "post_save", "process_tags"):
                    work.append((c2, fn))
                if isinstance(c2, ast.Call) and "super()" in ast.unparse(c2.func) and c2.func.attr in ("pre_save", "post_save", "process_tags"):
                    from ..lib import super_chain
                    for nxt in super_chain(program, fn):
                        if id(nxt) not in seen:
                            # **kwargs pass-through keeps the keyword name
                            seen[id(nxt)] = (nxt, "connection" if "connection" in [a.arg for a in nxt.args.args] else hp)
                            _check_closure_fn(program, ctx, rid, nxt, seen[id(nxt)][1], prop)
                            for c3 in walk_no_nested(nxt):
                                if isinstance(c3, ast.Call) and call_name(c3).startswith("self.") and call_name(c3).split(".")[1] in ("pre_save", "post_save", "process_tags"):
                                    work.append((c3, nxt))


def _opens_txn(program, fn, name) -> bool:
    for m in resolve_self_call(program, fn, name):
        for c in ast.walk(m):
            if isinstance(c, ast.Call) and (call_name(c).endswith("db.begin") or call_name(c).endswith("db.connect")):
                return True
    return False


def _check_closure_fn(program, ctx, rid, fn, hp, prop):
    q = qual_of(fn)
    writes = 0
    for c in walk_no_nested(fn):
        if isinstance(c, ast.Call) and call_name(c).startswith("self.") and call_name(c).count(".") == 1:
            mname = call_name(c).split(".")[1]
            if mname in ("pre_save", "post_save", "process_tags", "run_single_query", "get_event", "run_query"):
                continue  # closure members / read-only helpers on their own connection (listed as informational)
            if _opens_txn(program, fn, mname):
                ctx.bad(finding_at(prop, rid, c, f"{q} calls self.{mname}(), which opens and commits its own transaction, from inside the event's transaction: that effect is committed even if the "
                                   "event is then rolled back (e.g. the old version is deleted but the new one is never stored)"))
    for c in walk_no_nested(fn):
        if not isinstance(c, ast.Call):
            continue
        nm = call_name(c)
        if nm.endswith(".execute"):
            recv = dotted(c.func.value)
            if hp is not None and recv == hp:
                writes += 1
                ctx.ok(rid, c, f"{q}: execute on the region's handle `{hp}`")
            else:
                ctx.bad(finding_at(prop, rid, c, f"{q}: statement executed on `{recv}`, which is not the transaction handle handed down by add_event"))
        if nm.endswith(".begin_nested"):
            ctx.bad(finding_at(prop, rid, c, f"{q}: a SAVEPOINT (`{nm}()`) inside the event's transaction: with SQLite's deferred BEGIN the savepoint can be the outermost transaction, its RELEASE "
                               "commits the statements executed so far (the older version is deleted before the new one is inserted), and a handler around it turns a failed write into a partial commit"))
        if nm.endswith((".begin", ".commit", ".rollback")) or (nm.endswith(".connect") and "db" in nm):
            # read-only helper queries of the forwarding recipe use run_single_query (own connection): not a write
            ctx.bad(finding_at(prop, rid, c, f"{q}: `{nm}()` inside the closure of the event's transaction: part of the event's effects is committed separately"))
    for t in walk_no_nested(fn):
        if isinstance(t, ast.Try) and t.handlers and any(_handler_swallows(h) for h in t.handlers):
            if any(isinstance(c, ast.Call) and (call_name(c).endswith(".execute") or call_name(c).split(".")[-1] in ("pre_save", "post_save", "process_tags"))
                   for s in t.body for c in ast.walk(s)):
                ctx.bad(finding_at(prop, rid, t, f"{q}: a handler swallows an exception raised by a write inside the event's transaction"))
    if fn.name == "post_save" and "DBStorage" not in q and writes == 0:
        ctx.info(rid, fn, f"{q}: no writes (read-only/network work while the region is open - listed, not a violation of atomicity)")


def rule_kvregion(program, ctx, prop=P, rid="C07.kvregion"):
    ctx.rule(
        rid,
        "WriterThread.run: every index write / _post_save / _delete_event / bulk_update call is lexically inside the single "
        "`with env.begin(write=True)`; the `except Exception` that logs encloses the with (abort first) and is inside the while (later tasks "
        "still applied); closure (Index.write/clear/bulk_update, _post_save, _delete_event): put/delete/cursor only on the txn parameter, no "
        "begin(), no enqueueing of follow-up tasks, no try around a write",
        floor=3,
    )
    run = program.func("nostr_relay.storage.kv:WriterThread.run")
    regions = [w for w in walk_no_nested(run) if isinstance(w, ast.With) and any(_is_begin(i.context_expr) and any(k.arg == "write" and isinstance(k.value, ast.Constant) and k.value.value is True for k in i.context_expr.keywords) for i in w.items)]
    if len(regions) != 1:
        ctx.bad(finding_func(prop, rid, run, f"writer thread opens {len(regions)} write transactions per task", text="def run(...) :: regions"))
        if not regions:
            return
    region = regions[0]
    txn = next((i.optional_vars.id for i in region.items if isinstance(i.optional_vars, ast.Name)), None)
    inside = {id(n) for n in ast.walk(region)}
    loop = next((w for w in walk_no_nested(run) if isinstance(w, ast.While)), None)
    tr = next((a for a in ancestors(region) if isinstance(a, ast.Try)), None)
    if tr is None or not any(catches(h, "exc") == "all" for h in tr.handlers) or loop is None or not any(a is loop for a in ancestors(tr)):
        ctx.bad(finding_at(prop, rid, region, "the write transaction is not enclosed by a catch-all try inside the writer loop: one failing event kills the writer thread (later events are never applied)"))
    else:
        ctx.ok(rid, tr, "try/except Exception encloses the transaction and sits inside the while loop")
    for t in ast.walk(region):
        if isinstance(t, ast.Try) and t.handlers and any(_handler_swallows(h) for h in t.handlers):
            ctx.bad(finding_at(prop, rid, t, "a handler inside the write transaction swallows a failure: the transaction commits a partially applied event "
                               "(some index entries without record, or a record without some entries)"))
    mutators = ("write", "clear", "bulk_update", "_post_save", "_delete_event")
    for c in walk_no_nested(run):
        if isinstance(c, ast.Call) and isinstance(c.func, ast.Attribute) and c.func.attr in mutators:
            if id(c) in inside:
                if any(isinstance(a, ast.Name) and a.id == txn for a in c.args):
                    ctx.ok(rid, c, f"{call_name(c)}(…, {txn}) inside the write transaction")
                else:
                    ctx.bad(finding_at(prop, rid, c, f"{call_name(c)} is not given the region's transaction `{txn}`"))
            else:
                ctx.bad(finding_at(prop, rid, c, f"{call_name(c)} runs outside the write transaction"))
    # closure functions
    closure = [
        "nostr_relay.storage.kv:Index.write", "nostr_relay.storage.kv:Index.clear", "nostr_relay.storage.kv:Index.bulk_update",
        "nostr_relay.storage.kv:IdIndex.write", "nostr_relay.storage.kv:WriterThread._post_save", "nostr_relay.storage.kv:WriterThread._delete_event",
    ]
    for q in closure:
        fn = program.func(q)
        params = [a.arg for a in fn.args.args]
        if "txn" not in params:
            ctx.bad(finding_func(prop, rid, fn, "closure function no longer receives the transaction", text=f"def {fn.name}(...)"))
            continue
        okf = True
        for c in walk_no_nested(fn):
            if not isinstance(c, ast.Call):
                continue
            nm = call_name(c)
            if nm.endswith(".begin"):
                okf = False
                ctx.bad(finding_at(prop, rid, c, f"{qual_of(fn)} opens its own transaction inside the event's write transaction"))
            if isinstance(c.func, ast.Attribute) and c.func.attr in ("put", "delete", "cursor", "get", "pop", "replace") and isinstance(c.func.value, ast.Name) and c.func.value.id not in ("txn",) and c.func.value.id in ("env", "db", "self"):
                okf = False
                ctx.bad(finding_at(prop, rid, c, f"{qual_of(fn)} writes through `{c.func.value.id}` instead of the txn parameter"))
            if ("queue" in nm and nm.endswith((".put", ".put_nowait"))) or nm.endswith("delete_event") and "self._delete_event" != nm:
                okf = False
                ctx.bad(finding_at(prop, rid, c, f"{qual_of(fn)} defers part of the event's effects to a later task (`{nm}`): they commit in another transaction, "
                                   "a crash or failure in between leaves the old and the new version both stored"))
            if isinstance(c.func, ast.Attribute) and c.func.attr in mutators and isinstance(c.func.value, (ast.Name, ast.Attribute, ast.Subscript)) and fn.name in ("_post_save", "_delete_event", "clear", "bulk_update"):
                if not any(isinstance(a, ast.Name) and a.id == "txn" for a in c.args) and not any(k.arg == "txn" for k in c.keywords):
                    okf = False
                    ctx.bad(finding_at(prop, rid, c, f"{qual_of(fn)}: `{nm}` is not given the transaction"))
        # local names bound to a txn operation: func = getattr(txn, operation) / put = txn.put
        txn_ops = {st.targets[0].id for st in walk_no_nested(fn) if isinstance(st, ast.Assign) and isinstance(st.targets[0], ast.Name)
                   and ((isinstance(st.value, ast.Call) and call_name(st.value) == "getattr" and st.value.args and dotted(st.value.args[0]) == "txn")
                        or (isinstance(st.value, ast.Attribute) and dotted(st.value.value) == "txn"))}
        for t in walk_no_nested(fn):
            if isinstance(t, ast.Try) and t.handlers and any(_handler_swallows(h) for h in t.handlers):
                if any(isinstance(c, ast.Call) and ((isinstance(c.func, ast.Attribute) and c.func.attr in mutators + ("put", "delete")) or (isinstance(c.func, ast.Name) and c.func.id in txn_ops))
                       for s in t.body for c in ast.walk(s)):
                    okf = False
                    ctx.bad(finding_at(prop, rid, t, f"{qual_of(fn)}: a handler encloses an index write and swallows its failure"))
        if okf:
            ctx.ok(rid, fn, f"{qual_of(fn)}: writes only through txn, no nested transaction, nothing deferred")


def rule_owner(program, ctx, prop=P, rid="C07.owner"):
    ctx.rule(
        rid,
        "who-may-call: `.put(`/`.delete(` on an LMDB transaction (receiver named txn, or getattr(txn, operation)) occur only in Index.write, "
        "IdIndex.write and write_tombstone",
        floor=3,
    )
    kv = program.module("nostr_relay.storage.kv")
    owners = {"Index.write", "IdIndex.write", "LMDBStorage.write_tombstone"}
    for c in ast.walk(kv.tree):
        if isinstance(c, ast.Call):
            direct = isinstance(c.func, ast.Attribute) and c.func.attr in ("put", "delete", "replace", "pop") and isinstance(c.func.value, ast.Name) and c.func.value.id == "txn"
            viaattr = call_name(c) == "getattr" and c.args and isinstance(c.args[0], ast.Name) and c.args[0].id == "txn"
            if direct or viaattr:
                q = qual_of(c)
                if q in owners:
                    ctx.ok(rid, c, f"txn mutation in owner {q}")
                else:
                    ctx.bad(finding_at(prop, rid, c, f"LMDB keys are mutated in {q}, outside the index classes' write(): put and delete key derivations can diverge"))


def rule_cascade(program, ctx, prop=P, rid="C07.cascade"):
    ctx.rule(
        rid,
        "tags.id is a foreign key with ondelete=\"CASCADE\" in storage.get_metadata() and in the alembic migration; _set_sqlite_pragma issues "
        "PRAGMA foreign_keys = ON and is registered as connect listener for non-postgres engines (otherwise superseded/deleted events leave tag rows)",
        floor=2,
    )
    gm = program.func("nostr_relay.storage:get_metadata")
    fk = [c for c in ast.walk(gm) if isinstance(c, ast.Call) and call_name(c) == "sa.ForeignKey"]
    if fk and all(any(k.arg == "ondelete" and isinstance(k.value, ast.Constant) and k.value.value == "CASCADE" for k in c.keywords) for c in fk):
        ctx.ok(rid, fk[0], "get_metadata: tags.id FK ondelete=CASCADE")
    else:
        ctx.bad(finding_func(prop, rid, gm, "tags.id foreign key lacks ondelete=\"CASCADE\": tag rows of a superseded/deleted event survive it", text="def get_metadata(...) :: cascade"))
    mig = program.modules.get("nostr_relay.alembic.versions.e748549d8d91_initial_tables")
    if mig is not None:
        okm = False
        for c in ast.walk(mig.tree):
            if isinstance(c, ast.Call) and call_name(c) == "sa.ForeignKeyConstraint" and "events.id" in ast.unparse(c) and c.args and "'id'" in ast.unparse(c.args[0]):
                tbl = next((a for a in ancestors(c) if isinstance(a, ast.Call) and call_name(a) == "op.create_table"), None)
                if tbl is not None and tbl.args and tbl.args[0].value == "tags":
                    okm = any(k.arg == "ondelete" and isinstance(k.value, ast.Constant) and k.value.value == "CASCADE" for k in c.keywords)
                    if not okm:
                        ctx.bad(finding_at(prop, rid, c, "alembic: tags foreign key lacks ondelete=CASCADE"))
        if okm:
            ctx.ok(rid, mig.tree, "alembic: tags FK ondelete=CASCADE")
    sp = program.func("nostr_relay.storage.db:DBStorage._set_sqlite_pragma")
    txt = " ".join(k.value for k in ast.walk(sp) if isinstance(k, ast.Constant) and isinstance(k.value, str))
    import re
    if re.search(r"PRAGMA\s+foreign_keys\s*=\s*ON", txt, re.I):
        ctx.ok(rid, sp, "PRAGMA foreign_keys = ON")
    else:
        ctx.bad(finding_func(prop, rid, sp, "SQLite connections no longer enable foreign_keys: ON DELETE CASCADE is inert", text="def _set_sqlite_pragma(...)"))
    init = program.func("nostr_relay.storage.db:DBStorage.__init__")
    if any(isinstance(c, ast.Call) and call_name(c) == "sa.event.listen" and "_set_sqlite_pragma" in ast.unparse(c) and "connect" in ast.unparse(c) for c in ast.walk(init)):
        ctx.ok(rid, init, "pragma listener registered on engine connect")
    else:
        ctx.bad(finding_func(prop, rid, init, "the SQLite pragma listener is no longer registered", text="def __init__(...) :: listen"))


def rule_foreign(program, ctx, prop=P, rid="C07.foreign"):
    ctx.rule(
        rid,
        "every class in the INDEXES registry implements write/clear in terms of its txn parameter; an index that commits to another store "
        "from inside the LMDB transaction is not rolled back when that transaction aborts",
        floor=3,
    )
    kv = program.module("nostr_relay.storage.kv")
    reg = next((s.value for s in kv.tree.body if isinstance(s, ast.Assign) and any(isinstance(t, ast.Name) and t.id == "INDEXES" for t in s.targets) and isinstance(s.value, ast.Dict)), None)
    if reg is None:
        raise AnalysisError("INDEXES registry not found")
    for k, v in zip(reg.keys, reg.values):
        cname = call_name(v) if isinstance(v, ast.Call) else None
        ci = program.classes.get(f"nostr_relay.storage.kv:{cname}")
        if ci is None:
            ctx.bad(finding_at(prop, rid, v, f"INDEXES[{k.value!r}] is not an instance of an index class of this module"))
            continue
        for meth in ("write", "clear"):
            fn = program.resolve_method(ci, meth)
            uses_txn = any(isinstance(n, ast.Name) and n.id == "txn" and isinstance(n.ctx, ast.Load) for n in ast.walk(fn))
            if uses_txn:
                ctx.ok(rid, fn, f"{cname}.{meth} works through txn")
            else:
                ctx.bad(finding_func(prop, rid, fn, f"INDEXES[{k.value!r}] ({cname}).{meth} ignores the LMDB transaction and commits to its own store: when the event's "
                                     "transaction aborts (or the process dies) the two stores disagree", text=f"def {meth}(...) :: ignores txn"))


def rule_finally_return(program, ctx, prop=P, rid="C07.finally"):
    ctx.rule(
        rid,
        "an engine error inside the event's transaction reaches `async with self.db.begin()` (which then rolls back): none of the functions that run inside it "
        "(add_event, pre_save, post_save, process_tags and their overrides) leaves a `finally:` block through return / break / continue - that discards the exception in "
        "flight, the transaction commits a partial event and the client is told OK",
        floor=1,
    )
    n = 0
    for ci in program.classes.values():
        if ci.module.rel.startswith("<dep>"):
            continue
        for name in ("add_event", "pre_save", "post_save", "process_tags"):
            fn = ci.methods.get(name)
            if fn is None:
                continue
            n += 1
            bad = False
            for t in ast.walk(fn):
                if isinstance(t, ast.Try) and t.finalbody:
                    for x in [y for s_ in t.finalbody for y in ast.walk(s_)]:
                        if isinstance(x, (ast.Return, ast.Break, ast.Continue)):
                            bad = True
                            ctx.bad(finding_at(prop, rid, x, f"{ci.node.name}.{name}: `{ast.unparse(x)[:30]}` inside `finally:` swallows whatever exception is propagating - a failed statement no "
                                               "longer aborts the event's transaction"))
            if not bad:
                ctx.ok(rid, fn, f"{ci.node.name}.{name}: no jump out of a finally block")
    if not n:
        raise AnalysisError("no transaction-region methods found")


def rule_isolation(program, ctx, prop=P, rid="C07.isolation"):
    ctx.rule(
        rid,
        "nothing in the SQL backend switches connections to autocommit: no store to `.isolation_level` / `.autocommit` of a DBAPI connection (the connect hook "
        "included) and no isolation_level / AUTOCOMMIT engine or execution option - otherwise `async with self.db.begin()` is no transaction and each statement of an event commits alone",
        floor=1,
    )
    from ..cfg import cfg_of
    m = program.module("nostr_relay.storage.db")
    bad = 0
    for fn in [f for f in ast.walk(m.tree) if isinstance(f, (ast.FunctionDef, ast.AsyncFunctionDef))]:
        stores = [n for n in walk_no_nested(fn) if isinstance(n, ast.Assign) and any(isinstance(t, ast.Attribute) and t.attr in ("isolation_level", "autocommit") for t in n.targets)]
        if not stores:
            continue
        # saved = conn.isolation_level … conn.isolation_level = saved on *every* path to an exit is a faithful restore
        saved = {n.targets[0].id for n in walk_no_nested(fn) if isinstance(n, ast.Assign) and isinstance(n.targets[0], ast.Name) and isinstance(n.value, ast.Attribute) and n.value.attr in ("isolation_level", "autocommit")}
        cfg = cfg_of(fn)
        restore = [x for st in stores if isinstance(st.value, ast.Name) and st.value.id in saved for x in cfg.nodes_of(st)]
        for st in stores:
            if isinstance(st.value, ast.Name) and st.value.id in saved:
                continue
            leak = cfg.find_path(cfg.nodes_of(st), [cfg.exit, cfg.raise_exit], avoid_nodes=set(restore)) if restore else [1]
            if leak:
                bad += 1
                ctx.bad(finding_at(prop, rid, st, f"`{norm(st, 70)}` changes the transaction mode of a pooled connection and a path to the function's exit does not restore the saved mode "
                                   "(a truthiness test skips it for the sqlite3 default ''): the connection stays in autocommit and add_event's transaction is none"))
    for n in ast.walk(m.tree):
        if isinstance(n, ast.Call) and any(k.arg == "isolation_level" for k in n.keywords):
            bad += 1
            ctx.bad(finding_at(prop, rid, n, "an isolation_level option is set on the engine / connection"))
        if isinstance(n, ast.Call) and call_name(n) == "setattr" and len(n.args) >= 2 and isinstance(n.args[1], ast.Constant) and n.args[1].value in ("isolation_level", "autocommit"):
            bad += 1
            ctx.bad(finding_at(prop, rid, n, "setattr(…, 'isolation_level', …)"))
    # one connection per transaction: a pool class that hands the *same* connection to concurrent begin() calls merges their transactions
    for n in ast.walk(m.tree):
        if isinstance(n, ast.Attribute) and n.attr in ("StaticPool", "SingletonThreadPool", "AssertionPool"):
            bad += 1
            ctx.bad(finding_at(prop, rid, n, f"`{ast.unparse(n)}`: every `self.db.begin()` returns the same DBAPI connection, so the (up to num_concurrent_adds) add_event calls in flight "
                               "share one driver-level transaction - a ROLLBACK for one event undoes statements already executed for another, which then commits half applied"))
        if isinstance(n, ast.keyword) and n.arg == "poolclass" and not isinstance(getattr(n, "_parent", None), type(None)):
            bad += 1
            ctx.bad(finding_at(prop, rid, n.value, "the engine's pool class is overridden"))
    sp = program.func("nostr_relay.storage.db:DBStorage._set_sqlite_pragma")
    if not bad:
        ctx.ok(rid, sp, "no transaction-mode switch / shared-connection pool in storage/db.py (connect hook only issues PRAGMAs)")


def rule_ctxmgr(program, ctx, prop=P, rid="C07.ctxmgr"):
    ctx.rule(
        rid,
        "generator-based context managers used inside the write transaction (Index.scanner, MultiIndex.scanner, …) do not catch around their `yield`: an `except` there "
        "receives every exception raised in the *caller's* with-body (contextlib throws it into the generator) and, unless it re-raises, suppresses it - the writer's "
        "clean-up stops half-way and the transaction commits",
        floor=2,
    )
    for m in program.modules.values():
        if m.rel.startswith("<dep>"):
            continue
        for fn in [f for f in ast.walk(m.tree) if isinstance(f, (ast.FunctionDef, ast.AsyncFunctionDef))]:
            if not any(dotted(d).split(".")[-1] in ("contextmanager", "asynccontextmanager") for d in fn.decorator_list):
                continue
            ys = [y for y in walk_no_nested(fn) if isinstance(y, (ast.Yield, ast.YieldFrom))]
            okf = True
            for y in ys:
                for t in [a for a in ancestors(y) if isinstance(a, ast.Try)]:
                    if any(y is z for s2 in t.body for z in ast.walk(s2)):
                        for h in t.handlers:
                            if _handler_swallows(h):
                                okf = False
                                ctx.bad(finding_at(prop, rid, h, f"{qual_of(fn)}: `{norm(h, 50)}` around the yield swallows exceptions raised in the with-body of every caller "
                                                   "(for WriterThread._post_save: a failed txn.delete no longer aborts the write transaction)"))
            if okf and ys:
                ctx.ok(rid, fn, f"{qual_of(fn)}: no swallowing handler around the yield")


def rule_enqueue(program, ctx, prop=P, rid="C07.enqueue"):
    from ..lib import guard_atoms

    ctx.rule(
        rid,
        "LMDB: what is handed to the writer thread does not depend on process-local memory of earlier requests - LMDBStorage.add_event enqueues (\"add\", [event]) for every "
        "admitted non-ephemeral event and LMDBStorage.delete_event enqueues (\"del\", [id]) unconditionally; the only admissible condition is `event.is_ephemeral`. A "
        "remembered-ids set is not rolled back when the writer's transaction aborts, and is never pruned correctly: later deliveries of that event / later deletions "
        "are silently dropped",
        floor=2,
    )
    for q, op in (("nostr_relay.storage.kv:LMDBStorage.add_event", "add"), ("nostr_relay.storage.kv:LMDBStorage.delete_event", "del")):
        fn = program.func(q)
        puts = [c for c in walk_no_nested(fn) if isinstance(c, ast.Call) and call_name(c).endswith("writer_queue.put") and c.args and isinstance(c.args[0], ast.Tuple) and c.args[0].elts
                and isinstance(c.args[0].elts[0], ast.Constant) and c.args[0].elts[0].value == op]
        if not puts:
            ctx.bad(finding_func(prop, rid, fn, f"{qual_of(fn)} no longer enqueues the `{op}` task", text=f"def {fn.name}(...) :: enqueue"))
            continue
        for c in puts:
            atoms = [(e, pol) for e, pol in guard_atoms(c, stop=fn) if not (("is_ephemeral" in ast.unparse(e)) or ("can_do" in ast.unparse(e)))]
            if atoms:
                e, pol = atoms[0]
                ctx.bad(finding_at(prop, rid, c, f"{qual_of(fn)}: the `{op}` task is only enqueued when `{'' if pol else 'not '}{ast.unparse(e)[:60]}`: a decision taken from process-local memory "
                                   "instead of the store - after an aborted write (or a deletion) the event can no longer be stored / deleted although the client is told OK"))
            else:
                ctx.ok(rid, c, f"{qual_of(fn)}: `{op}` enqueued for every (non-ephemeral) request")
        # no early normal return before the enqueue in add_event
        if op == "add":
            from ..cfg import cfg_of
            from ..lib import NORMAL
            cfg = cfg_of(fn)
            pn = {x for c in puts for x in cfg.nodes_of(enclosing_stmt(c))}
            eph = {}
            from ..lib import test_edges
            eph = test_edges(cfg, lambda e, pol: "is_ephemeral" in ast.unparse(e) and pol if isinstance(e, (ast.Attribute, ast.Name, ast.Call)) else False)
            rets = cfg.stmt_nodes(lambda st: isinstance(st, ast.Return), kinds=("stmt",))
            avoid = dict(eph)
            for x in pn:
                avoid[x] = {"n", "t", "f"}
            path = cfg.find_path([cfg.entry], rets, kinds=NORMAL, avoid_edge_kinds=avoid)
            if path:
                where = cfg.ast_of(path[-1])
                ctx.bad(finding_at(prop, rid, where, "LMDBStorage.add_event can return normally (the client is answered) for a non-ephemeral event without having handed it to the writer"))


def rule_overrides(program, ctx, prop=P, rid="C07.overrides"):
    ctx.rule(
        rid,
        "a subclass override of pre_save / post_save / process_tags that delegates to super() forwards every parameter it names explicitly (`changed`, `connection`): "
        "`def post_save(self, event, changed=True, **kwargs): await super().post_save(event, **kwargs)` hands the base class changed=None, which skips process_tags - "
        "no tag rows, no NIP-09 deletion",
        floor=1,
    )
    n = 0
    for ci in program.classes.values():
        if ci.module.rel.startswith("<dep>"):
            continue
        for name in ("pre_save", "post_save", "process_tags"):
            fn = ci.methods.get(name)
            if fn is None:
                continue
            sups = [c for c in ast.walk(fn) if isinstance(c, ast.Call) and isinstance(c.func, ast.Attribute) and c.func.attr == name and "super()" in ast.unparse(c.func.value)]
            if not sups:
                continue
            n += 1
            named = [a.arg for a in fn.args.args[1:]] + [a.arg for a in fn.args.kwonlyargs]
            for c in sups:
                passed = {dotted(a) for a in c.args} | {k.arg for k in c.keywords if k.arg} | {dotted(k.value) for k in c.keywords}
                lost = [p for p in named if p not in passed and p not in ("event",) or (p == "event" and "event" not in passed)]
                if lost:
                    ctx.bad(finding_at(prop, rid, c, f"{ci.node.name}.{name} names `{lost[0]}` in its own signature but does not pass it to super().{name}: the base implementation "
                                       f"sees its default instead (for `changed`: None = nothing to do)"))
                else:
                    ctx.ok(rid, c, f"{ci.node.name}.{name}: all named parameters forwarded to super()")
            # the base implementation runs for every event: no normal return of the override that has not been through super()
            cfg = cfg_of(fn)
            from ..core import enclosing_stmt
            from ..lib import NORMAL
            snodes = {n_: set(NORMAL) for c in sups for n_ in cfg.nodes_of(enclosing_stmt(c))}
            path = cfg.find_path([cfg.entry], [cfg.exit], avoid_nodes=list(snodes), kinds=NORMAL)
            if path:
                last = next((cfg.ast_of(n_) for n_ in reversed(path[:-1]) if cfg.ast_of(n_) is not None), fn)
                ctx.bad(finding_at(prop, rid, last, f"{ci.node.name}.{name} can return without calling super().{name}: for those events the base class' work (tag rows, identity table, "
                                   "NIP-09 deletion, ephemeral/expiration handling) is skipped", path=cfg.describe_path(path)[-4:], text=f"{ci.node.name}.{name} skips super"))
            else:
                ctx.ok(rid, fn, f"{ci.node.name}.{name}: super().{name} on every returning path")
            if name == "pre_save":
                # DBStorage.pre_save has already deleted the versions the event supersedes when it answers True: an override that turns that into
                # False afterwards (skip the insert) commits the deletion without the replacement
                verdicts = set()
                for s_ in walk_no_nested(fn):
                    if isinstance(s_, ast.Assign) and isinstance(s_.targets[0], ast.Name) and any(c is x for c in sups for x in ast.walk(s_.value)):
                        verdicts.add(s_.targets[0].id)
                for r in [r for r in walk_no_nested(fn) if isinstance(r, ast.Return)]:
                    v = r.value
                    direct = v is not None and any(c is x for c in sups for x in ast.walk(v)) and isinstance(strip_await(v), ast.Call)
                    via = isinstance(v, ast.Name) and v.id in verdicts and len([s_ for s_ in stores_of(fn, v.id)]) == 1
                    if direct or via:
                        ctx.ok(rid, r, f"{ci.node.name}.pre_save returns super()'s verdict")
                    else:
                        ctx.bad(finding_at(prop, rid, r, f"{ci.node.name}.pre_save returns `{ast.unparse(v)[:40] if v is not None else None}`, a verdict of its own, after super().pre_save has run: "
                                           "the base implementation deletes the superseded versions before it says True - refusing the insert afterwards leaves the address with no version at all"))
    if not n:
        ctx.floors[rid] = 0
        ctx.info(rid, program.cls("nostr_relay.storage.db:DBStorage").node, "no delegating overrides")


def run(program, ctx):
    from ..lib import rule_awaited

    rule_awaited(program, ctx, P, ANCHORS)
    rule_sqlregion(program, ctx)
    c19.rule_slots(program, ctx, prop=P, rid="C07.slots")
    rule_kvregion(program, ctx)
    rule_owner(program, ctx)
    rule_cascade(program, ctx)
    rule_foreign(program, ctx)
    rule_isolation(program, ctx)
    rule_ctxmgr(program, ctx)
    rule_enqueue(program, ctx)
    rule_overrides(program, ctx)
    rule_finally_return(program, ctx)
    ctx.not_decided += [
        "that SQLite WAL / PostgreSQL / LMDB deliver atomic commit and recovery after kill -9 (trusted engines)",
        "Python-level faults between commit and broadcast",
    ]


DB = "nostr_relay/storage/db.py"
KV = "nostr_relay/storage/kv.py"

MUTANTS = [
    M("c07-finally-return", "nostr_relay/storage/db.py", "            await self.process_tags(connection, event)\n", "            try:\n                await self.process_tags(connection, event)\n            finally:\n                return\n", "C07.finally"),
    M("c07-kind-index-own-store", KV, "class KindIndex(Index):\n    prefix = b\"\\x02\"\n", "class KindIndex(Index):\n    prefix = b\"\\x02\"\n\n    def write(self, event, txn, operation=\"put\"):\n        SIDE.setdefault(event.kind, set()).add(event.id_bytes)\n", "C07.foreign"),
    M("c07-process-tags-own-txn", DB, "            if tags:\n                await conn.execute(\n                    self.tag_insert_query,",
      "            if tags:\n                async with self.db.begin() as conn:\n                  await conn.execute(\n                    self.tag_insert_query,", "C07.sqlregion", canary=True),
    M("c07-tag-insert-swallowed", DB, "                        self.log.info(\"Deleted event %s\", event_id)",
      "                        self.log.info(\"Deleted event %s\", event_id)\n            try:\n                await conn.execute(self.tag_insert_query, [])\n            except Exception:\n                pass", "C07.sqlregion"),
    M("c07-post-save-second-txn", DB, "                        changed = result.rowcount == 1\n                        await self.post_save(event, connection=conn, changed=changed)\n",
      "                        changed = result.rowcount == 1\n                async with self.db.begin() as conn:\n                    if do_save:\n                        await self.post_save(event, connection=conn, changed=changed)\n", "C07.sqlregion"),
    M("c07-post-save-other-conn", DB, "                await connection.execute(\n                    self.EventTable.delete().where(\n                        (self.EventTable.c.pubkey == bytes.fromhex(event.pubkey))\n                        & (self.EventTable.c.kind == event.kind)",
      "                await self.other.execute(\n                    self.EventTable.delete().where(\n                        (self.EventTable.c.pubkey == bytes.fromhex(event.pubkey))\n                        & (self.EventTable.c.kind == event.kind)", "C07.sqlregion"),
    M("c07-kv-handler-inside", KV, "                            for index in self.write_indexes:\n                                index.write(event, txn)\n",
      "                            for index in self.write_indexes:\n                                try:\n                                    index.write(event, txn)\n                                except Exception:\n                                    log.exception(\"index\")\n", "C07.kvregion"),
    M("c07-kv-deferred-delete", KV, "                    self._delete_event(txn, candidate, log)\n                    counter[\"count\"] += 1\n\n        elif",
      "                    self.queue.put((\"del\", [candidate.id]))\n                    counter[\"count\"] += 1\n\n        elif", "C07.kvregion"),
    M("c07-kv-index-own-txn", KV, "        func = getattr(txn, operation)\n", "        txn = self.env.begin(write=True)\n        func = getattr(txn, operation)\n", "C07.kvregion"),
    M("c07-kv-no-catch", KV, "            except Exception:\n                log.exception(\"writer\")\n            finally:", "            finally:", "C07.kvregion"),
    M("c07-txn-delete-in-post-save", KV, "                    self._delete_event(txn, candidate, log)\n                    counter[\"count\"] += 1\n\n        elif",
      "                    txn.delete(b\"\\x00\" + event_id)\n                    counter[\"count\"] += 1\n\n        elif", "C07.owner"),
    M("c07-no-cascade", "nostr_relay/storage/__init__.py", "sa.ForeignKey(EventTable.c.id, ondelete=\"CASCADE\")", "sa.ForeignKey(EventTable.c.id)", "C07.cascade"),
    M("c07-no-fk-pragma", DB, "                PRAGMA foreign_keys = ON;\n", "", "C07.cascade"),
    M("c07-bare-add-slot", DB, "            async with self.add_slot:\n                async with self.db.begin() as conn:", "            await self.add_slot.acquire()\n            if True:\n                async with self.db.begin() as conn:", "C07.slots"),
]

EQUIVS = []

# functions whose syntactic mutants are used for the thorough tier's sensitivity figure (sa/automut.py)
ANCHORS = [
    "nostr_relay.storage.db:DBStorage.add_event",
    "nostr_relay.storage.db:DBStorage.pre_save",
    "nostr_relay.storage.db:DBStorage.post_save",
    "nostr_relay.storage.db:DBStorage.process_tags",
    "nostr_relay.storage.kv:WriterThread.run",
    "nostr_relay.storage.kv:WriterThread._post_save",
    "nostr_relay.storage.kv:WriterThread._delete_event",
    "nostr_relay.storage.kv:Index.write",
]
