"""C16 - configured admission policies are applied to every event, fail-closed.

  C16.gate / C16.chain   same constructs as C03.gate / C03.chain (validator pipeline before any effect)
  C16.verdict            every shipped validator rejects by `raise` on a guard that reads its event field
                         and its configuration source, in the documented direction (frozen slot table)
  C16.handlers           the EVENT branch of the connection handler maps every validator exception to OK,false
  C16.lists              thread-shared allow/deny sets are never observable empty during a refresh
"""
from __future__ import annotations

import ast

from ..cfg import cfg_of
from ..core import (
    AnalysisError,
    call_name,
    dotted,
    finding_at,
    finding_func,
    norm,
    own_calls,
    qual_of,
    walk_no_nested,
)
from ..lib import implied, must_pass, stores_of, strip_await, test_edges
from ..lib import all_calls  # noqa: E402
from ..selftest import E, M
from . import c03

P = "C16"

NEG = {ast.Gt: ast.LtE, ast.GtE: ast.Lt, ast.Lt: ast.GtE, ast.LtE: ast.Gt, ast.In: ast.NotIn,
       ast.NotIn: ast.In, ast.Eq: ast.NotEq, ast.NotEq: ast.Eq, ast.Is: ast.IsNot, ast.IsNot: ast.Is}
MIRROR = {ast.Gt: ast.Lt, ast.GtE: ast.LtE, ast.Lt: ast.Gt, ast.LtE: ast.GtE, ast.Eq: ast.Eq, ast.NotEq: ast.NotEq}

# validator -> mode, [ (ops accepted on the *rejecting* edge, left-mentions, right-mentions, text) ]
# "total": whenever the pattern holds the function cannot return normally.
# "cond":  some raise is reachable, and only through an edge on which the pattern holds.
SLOTS = {
    "nostr_relay.validators:is_not_too_large": ("total", [((ast.Gt, ast.GtE), {"content"}, {"max_event_size"}, "len(content) > max_event_size")]),
    "nostr_relay.validators:is_recent": ("total", [
        ((ast.Gt, ast.GtE), {"created_at", "time"}, {"oldest_event"}, "now - created_at > oldest_event"),
        ((ast.Lt, ast.LtE), {"created_at", "time"}, {"<neg-const>"}, "now - created_at < -skew"),
    ]),
    "nostr_relay.validators:is_certain_kind": ("total", [((ast.NotIn,), {"kind"}, {"valid_kinds"}, "kind not in valid_kinds")]),
    "nostr_relay.validators:is_author_whitelisted": ("total", [((ast.NotIn,), {"pubkey"}, {"pubkey_whitelist"}, "pubkey not in pubkey_whitelist")]),
    "nostr_relay.validators:is_author_blacklisted": ("total", [((ast.In,), {"pubkey"}, {"pubkey_blacklist"}, "pubkey in pubkey_blacklist")]),
    "nostr_relay.validators:is_pow": ("total", [((ast.Lt,), {"id_bytes", "id"}, {"require_pow"}, "leading zero bits < require_pow")]),
    "nostr_relay.validators:is_not_hellthread": ("cond", [((ast.Gt,), {"tags"}, {"hellthread_limit"}, "#p tags > hellthread_limit")]),
    "nostr_relay.validators:is_service_event": ("cond", [((ast.NotEq,), {"pubkey"}, {"service_pubkey"}, "pubkey != service_pubkey")]),
    "nostr_relay.dynamic_lists:is_pubkey_allowed": ("cond", [
        ((ast.NotIn,), {"pubkey"}, {"ALLOWED_PUBKEYS"}, "pubkey not in ALLOWED_PUBKEYS"),
        ((ast.In,), {"pubkey"}, {"DENIED_PUBKEYS"}, "pubkey in DENIED_PUBKEYS"),
    ]),
    "nostr_relay.recipe.homeserver:is_whitelisted_or_tagged": ("cond", [((ast.NotIn,), {"pubkey"}, {"pubkey_whitelist"}, "pubkey not in pubkey_whitelist")]),
}


def _mention_set(e, local_defs, depth=2) -> set:
    out = set()
    for n in ast.walk(e):
        if isinstance(n, ast.Attribute):
            out.add(n.attr)
        elif isinstance(n, ast.Name):
            out.add(n.id)
            if depth and n.id in local_defs:
                for d in local_defs[n.id]:
                    out |= _mention_set(d, local_defs, depth - 1)
        elif isinstance(n, ast.Call):
            out.add(call_name(n).split(".")[-1])
    if isinstance(e, ast.UnaryOp) and isinstance(e.op, ast.USub) and isinstance(e.operand, ast.Constant):
        out.add("<neg-const>")
    if isinstance(e, ast.Constant) and isinstance(e.value, (int, float)) and e.value < 0:
        out.add("<neg-const>")
    return out


def _pattern_pred(ops, left, right, local_defs):
    def pred(expr, pol):
        if not isinstance(expr, ast.Compare) or len(expr.ops) != 1:
            return False
        op = type(expr.ops[0])
        if not pol:
            op = NEG.get(op)
            if op is None:
                return False
        l = _mention_set(expr.left, local_defs)
        r = _mention_set(expr.comparators[0], local_defs)
        if op in ops and (l & left) and (r & right):
            return True
        mop = MIRROR.get(op)
        if mop is not None and mop in ops and (r & left) and (l & right):
            return True
        return False
    return pred


def _negated(pred):
    """literal (expr, pol) satisfies the negated pattern"""
    return lambda expr, pol: pred(expr, not pol)


def rule_verdict(program, ctx):
    rid = ctx.rule(
        "C16.verdict",
        "per shipped validator (frozen slot table): rejection is a `raise` (never `return False`); the guard compares the "
        "event field with the configuration source in the documented direction; for unconditional validators the normal "
        "exit is unreachable on any edge where the rejecting relation holds",
        floor=3,
    )
    for q, (mode, patterns) in SLOTS.items():
        fn = program.func(q)
        cfg = cfg_of(fn)
        local_defs = {}
        for n in walk_no_nested(fn):
            if isinstance(n, ast.Assign):
                for t in n.targets:
                    if isinstance(t, ast.Name):
                        local_defs.setdefault(t.id, []).append(n.value)
                    elif isinstance(t, ast.Tuple):
                        for el in t.elts:
                            if isinstance(el, ast.Name):
                                local_defs.setdefault(el.id, []).append(n.value)
        # counters:  n = 0; for t in event.tags: if …: n += 1   -> n mentions what the loop iterates and tests
        for n in walk_no_nested(fn):
            if isinstance(n, ast.AugAssign) and isinstance(n.target, ast.Name):
                for a in __import__("sa.core", fromlist=["ancestors"]).ancestors(n):
                    if isinstance(a, (ast.For, ast.If)):
                        local_defs.setdefault(n.target.id, []).append(a.iter if isinstance(a, ast.For) else a.test)
                    if a is fn:
                        break
        raises = cfg.stmt_nodes(lambda s: isinstance(s, ast.Raise), kinds=("stmt",))
        for r in walk_no_nested(fn):
            if isinstance(r, ast.Return) and isinstance(r.value, ast.Constant) and r.value.value is False:
                ctx.bad(finding_at(P, rid, r, "validator signals rejection by `return False`: the chain ignores return values, the event is admitted"))
        if not raises:
            ctx.bad(finding_func(P, rid, fn, "validator has no `raise`: it cannot reject anything", text=f"def {fn.name}(...)"))
            continue
        for ops, left, right, text in patterns:
            pred = _pattern_pred(ops, left, right, local_defs)
            holds = test_edges(cfg, pred)
            if not holds:
                ctx.bad(finding_func(P, rid, fn, f"no guard of the form `{text}` (event field vs configuration source, documented direction) found",
                                     text=f"def {fn.name}(...) :: {text}"))
                continue
            if mode == "total":
                # once the rejecting relation holds, the normal exit must be unreachable:
                # cut every edge on which the relation is known *false*; exit must then be unreachable
                safe = test_edges(cfg, _negated(pred))
                path = must_pass(cfg, safe, [cfg.exit])
                if path:
                    ctx.bad(finding_func(P, rid, fn, f"normal exit reachable without `{text}` having been tested false",
                                         text=f"def {fn.name}(...) :: {text}", path=cfg.describe_path(path)))
                    continue
            # some raise is reachable, and only via an edge on which the relation holds
            good = False
            for rn in raises:
                if rn in cfg.reach([cfg.entry]) and not must_pass(cfg, holds, [rn]):
                    good = True
            if good:
                ctx.ok(rid, fn, f"{fn.name}: `{text}` -> raise ({mode})")
            else:
                ctx.bad(finding_func(P, rid, fn, f"no `raise` is controlled by `{text}`", text=f"def {fn.name}(...) :: {text}"))


def rule_handlers(program, ctx, prop=P, rid="C16.handlers"):
    ctx.rule(
        rid,
        "web.start_client: the try around storage.add_event has handlers for StorageError/AuthenticationError and a "
        "catch-all `except Exception`, each assigning result = False; validators raise only Exception subclasses",
        floor=1,
    )
    fn = program.func("nostr_relay.web:start_client")
    tries = []
    for t in ast.walk(fn):
        if isinstance(t, ast.Try) and any(isinstance(c, ast.Call) and call_name(c).endswith(".add_event") for s in t.body for c in ast.walk(s)):
            tries.append(t)
    if not tries:
        ctx.bad(finding_func(prop, rid, fn, "storage.add_event is not called inside a try block", text="def start_client(...)"))
        return
    t = tries[-1]  # ast.walk is breadth-first: the innermost try comes last
    from ..cfg import catches
    catch_all = [h for h in t.handlers if catches(h, "exc") == "all"]
    if not catch_all:
        ctx.bad(finding_at(prop, rid, t.handlers[0] if t.handlers else t, "no catch-all `except Exception` around add_event: a validator raising an unexpected type is not answered OK,false"))
    for h in t.handlers:
        assigns = [s for s in ast.walk(h) if isinstance(s, ast.Assign) and any(isinstance(x, ast.Name) and x.id == "result" for x in s.targets)]
        if assigns and all(isinstance(a.value, ast.Constant) and a.value.value is False for a in assigns):
            ctx.ok(rid, h, f"{norm(h)} -> result = False")
        else:
            ctx.bad(finding_at(prop, rid, h, "handler of a rejected EVENT does not set result = False"))
    # raised types
    for q in SLOTS:
        f = program.func(q)
        for r in walk_no_nested(f):
            if isinstance(r, ast.Raise) and r.exc is not None:
                nm = call_name(r.exc) if isinstance(r.exc, ast.Call) else dotted(r.exc)
                if nm.split(".")[-1] not in ("StorageError", "AuthenticationError", "VerificationError", "ValueError", "TypeError"):
                    ctx.bad(finding_at(prop, rid, r, f"validator raises {nm}, not a known Exception subclass"))


def shared_sets(program):
    """module-level sets of dynamic_lists that validator functions read"""
    m = program.module("nostr_relay.dynamic_lists")
    names = []
    for n in m.tree.body:
        if isinstance(n, ast.Assign) and isinstance(n.value, ast.Call) and call_name(n.value) == "set" and not n.value.args:
            names += [t.id for t in n.targets if isinstance(t, ast.Name)]
    return m, names


EMPTYING = {"clear"}
SAFE_MUT = {"update", "intersection_update", "difference_update", "symmetric_difference_update", "add", "remove", "discard", "pop"}


def rule_lists(program, ctx):
    rid = ctx.rule(
        "C16.lists",
        "the module-global allow/deny sets are read by validators on executor threads; loop-side code may mutate them only "
        "through single non-emptying calls (update, intersection_update, add, remove…) or one rebinding to a non-empty-literal "
        "value: `.clear()` / rebinding to an empty set before a refill opens a window in which an enforced allow list is empty "
        "(= not enforced)",
        floor=3,
    )
    m, shared = shared_sets(program)
    if len(shared) < 2:
        raise AnalysisError("dynamic_lists no longer defines the ALLOWED/DENIED module sets")
    # readers on threads (evidence): validator functions that mention the sets
    for mod in program.modules.values():
        if mod.rel.startswith("<dep>"):
            continue
        imported = set()
        for n in ast.walk(mod.tree):
            if isinstance(n, ast.ImportFrom) and (n.module or "").endswith("dynamic_lists"):
                imported |= {a.asname or a.name for a in n.names if a.name in shared}
        local = set(shared) if mod is m else imported
        if not local:
            continue
        for fn in [f for f in ast.walk(mod.tree) if isinstance(f, (ast.FunctionDef, ast.AsyncFunctionDef))]:
            aliases = set(local)
            # for x, global_set in ((…, ALLOWED), (…, DENIED)):
            for loop in ast.walk(fn):
                if isinstance(loop, ast.For) and isinstance(loop.iter, (ast.Tuple, ast.List)) and isinstance(loop.target, ast.Tuple):
                    for idx, tgt in enumerate(loop.target.elts):
                        if isinstance(tgt, ast.Name) and any(
                            isinstance(row, ast.Tuple) and idx < len(row.elts) and isinstance(row.elts[idx], ast.Name) and row.elts[idx].id in local
                            for row in loop.iter.elts
                        ):
                            aliases.add(tgt.id)
                elif isinstance(loop, ast.For) and isinstance(loop.iter, (ast.Tuple, ast.List)) and isinstance(loop.target, ast.Name):
                    if any(isinstance(e, ast.Name) and e.id in local for e in loop.iter.elts):
                        aliases.add(loop.target.id)
            for c in walk_no_nested(fn):
                if isinstance(c, ast.Call) and isinstance(c.func, ast.Attribute) and isinstance(c.func.value, ast.Name) and c.func.value.id in aliases:
                    meth = c.func.attr
                    if meth in EMPTYING:
                        ctx.bad(finding_at(P, rid, c, f"`{c.func.value.id}.{meth}()` empties a thread-shared list that validators treat as 'not enforced' when empty"))
                    elif meth in SAFE_MUT:
                        ctx.ok(rid, c, f"{c.func.value.id}.{meth}(…) - single non-emptying mutation")
                elif isinstance(c, ast.Assign):
                    for t in c.targets:
                        if isinstance(t, ast.Name) and t.id in local and any(isinstance(g, ast.Global) and t.id in g.names for g in ast.walk(fn)):
                            v = c.value
                            empty = (isinstance(v, ast.Call) and call_name(v) in ("set", "frozenset") and not v.args) or (isinstance(v, (ast.Set, ast.List, ast.Tuple, ast.Dict)) and not getattr(v, "elts", getattr(v, "keys", [])))
                            if empty:
                                ctx.bad(finding_at(P, rid, c, f"global `{t.id}` is re-bound to an empty container before being refilled"))
                            else:
                                ctx.ok(rid, c, f"global {t.id} published by a single rebinding")
                elif isinstance(c, ast.AugAssign) and isinstance(c.target, ast.Name) and c.target.id in aliases:
                    ctx.ok(rid, c, f"{c.target.id} {type(c.op).__name__}= … - single in-place mutation")
    # fail-open emptiness test exists (documenting why emptiness matters)
    fn = program.func("nostr_relay.dynamic_lists:is_pubkey_allowed")
    if any(isinstance(n, ast.BoolOp) and isinstance(n.values[0], ast.Name) and n.values[0].id in shared for n in ast.walk(fn)):
        ctx.info(rid, fn, "is_pubkey_allowed treats an empty list as not enforced (hence the no-empty-window rule)")


def rule_builder(program, ctx, prop=P, rid="C16.builder"):
    from ..lib import guard_atoms

    ctx.rule(
        rid,
        "the dynamic allow/deny sets are per-process globals, so every worker process builds them: in web.start_mainprocess_tasks the `await ListBuilder().start()` is "
        "conditioned on Config.dynamic_lists only - not nested under the `is_main_process` election (a multiprocessing.Event shared by pre-forked workers), which lets "
        "exactly one worker enforce the lists while the others treat their empty sets as 'not enforced'",
        floor=1,
    )
    fn = program.func("nostr_relay.web:start_mainprocess_tasks")
    calls = [c for c in walk_no_nested(fn) if isinstance(c, ast.Call) and isinstance(c.func, ast.Attribute) and c.func.attr == "start" and "ListBuilder" in ast.unparse(c.func.value)]
    if not calls:
        ctx.bad(finding_func(prop, rid, fn, "start_mainprocess_tasks no longer starts the ListBuilder", text="def start_mainprocess_tasks(...) :: ListBuilder"))
        return
    for c in calls:
        atoms = guard_atoms(c, stop=fn)
        extra = [(e, pol) for e, pol in atoms if "dynamic_lists" not in ast.unparse(e)]
        if extra:
            e, pol = extra[0]
            ctx.bad(finding_at(prop, rid, c, f"the list builder is started only when `{'' if pol else 'not '}{ast.unparse(e)[:60]}`: workers for which that is false never load the dynamic lists "
                               "and admit every pubkey"))
        elif not isinstance(getattr(c, "_parent", None), ast.Await):
            ctx.bad(finding_at(prop, rid, c, "ListBuilder().start() is not awaited"))
        else:
            ctx.ok(rid, c, "ListBuilder started in every worker when dynamic_lists is configured")


def rule_hastag(program, ctx, prop=P, rid="C16.hastag"):
    ctx.rule(
        rid,
        "Event.has_tag returns a pair (found_any_tag_of_that_name, matching_value): every use in the package unpacks it, indexes it, or requires both with all(…) - "
        "`any(event.has_tag(…))` or the pair's own truthiness accepts an event that merely carries *some* tag of that name (a stranger who p-tags anybody passes the "
        "home-server whitelist)",
        floor=2,
    )
    n = 0
    for m, c in all_calls(program):
        if isinstance(c.func, ast.Attribute) and c.func.attr == "has_tag":
            par = getattr(c, "_parent", None)
            n += 1
            okuse = False
            if isinstance(par, ast.Assign) and isinstance(par.targets[0], (ast.Tuple, ast.List)) and len(par.targets[0].elts) == 2:
                okuse = True
            elif isinstance(par, ast.Subscript):
                okuse = True
            elif isinstance(par, ast.Call) and call_name(par) == "all":
                okuse = True
            elif isinstance(par, ast.Assign) and isinstance(par.targets[0], ast.Name):
                okuse = True  # bound to a name: uses of the name are index / unpack in this code base (checked below)
                nm = par.targets[0].id
                f = getattr(par, "_func", None)
                for u in (ast.walk(f) if f is not None else []):
                    if isinstance(u, ast.Name) and u.id == nm and isinstance(u.ctx, ast.Load):
                        up = getattr(u, "_parent", None)
                        if isinstance(up, (ast.If, ast.BoolOp, ast.UnaryOp)) or (isinstance(up, ast.Call) and call_name(up) in ("any", "bool")):
                            okuse = False
            # unpacked as (found, match): a decision taken from `found` alone accepts any event that merely carries a tag of that name
            if okuse and isinstance(par, ast.Assign) and isinstance(par.targets[0], (ast.Tuple, ast.List)) and len(par.targets[0].elts) == 2 and all(isinstance(t, ast.Name) for t in par.targets[0].elts):
                first, second = par.targets[0].elts[0].id, par.targets[0].elts[1].id
                f = getattr(par, "_func", None)
                for u in (ast.walk(f) if f is not None else []):
                    if isinstance(u, ast.Name) and u.id == first and isinstance(u.ctx, ast.Load):
                        top = u
                        while getattr(top, "_parent", None) is not None and isinstance(top._parent, ast.expr):
                            top = top._parent
                        if not any(isinstance(x, ast.Name) and x.id == second for x in ast.walk(top)) and not (isinstance(getattr(top, "_parent", None), ast.Expr) and "log" in ast.unparse(top)):
                            okuse = False
                            ctx.bad(finding_at(prop, rid, u, f"{qual_of(c)}: `{first}` (has_tag's first result: *some* tag of that name exists) decides on its own in `{ast.unparse(top)[:60]}`; the "
                                               f"matching value is `{second}` - every event that carries such a tag from anybody passes"))
                            break
                if not okuse:
                    continue
            if okuse:
                ctx.ok(rid, c, f"{qual_of(c)}: has_tag pair used by unpack/index/all")
            else:
                ctx.bad(finding_at(prop, rid, c, f"{qual_of(c)}: the (found, match) pair of has_tag is used as `{norm(par, 60) if par is not None else '?'}`: truthy as soon as the event has any tag of that "
                                   "name, whatever its value - the check no longer depends on the configured list"))
    if not n:
        raise AnalysisError("no has_tag use found")


def rule_readonly_filters(program, ctx, prop=P, rid="C16.filters"):
    ctx.rule(
        rid,
        "configured list queries are read-only: NostrQuery.model_validate(obj) does not change `obj` beyond (re)writing its derived `tags` member (no pop/del/item store on any other key) - the ListBuilder "
        "hands the *same* configured filter dicts to run_single_query on every refresh; a parser that consumes the '#x' keys strips the tag restriction from the second "
        "refresh on, and the allow list fills with pubkeys tagged by unrelated events",
        floor=1,
    )
    fn = program.func("nostr_relay.storage.base:NostrQuery.model_validate")
    p = fn.args.args[1].arg if len(fn.args.args) > 1 else "obj"
    bad = []

    def only_tags(key):
        # the derived `tags` member is (re)computed from the '#x' keys on every call: writing it is idempotent
        return isinstance(key, ast.Constant) and key.value == "tags"

    for n in walk_no_nested(fn):
        if isinstance(n, ast.Call) and isinstance(n.func, ast.Attribute) and dotted(n.func.value) == p and n.func.attr in ("pop", "popitem", "clear", "update", "setdefault", "__setitem__", "__delitem__"):
            if not (n.func.attr in ("pop", "setdefault", "__setitem__", "__delitem__") and n.args and only_tags(n.args[0])):
                bad.append(n)
        if isinstance(n, ast.Delete) and any(isinstance(t, ast.Subscript) and dotted(t.value) == p and not only_tags(t.slice) for t in n.targets):
            bad.append(n)
        if isinstance(n, (ast.Assign, ast.AugAssign)) and any(isinstance(t, ast.Subscript) and dotted(t.value) == p and not only_tags(t.slice) for t in (n.targets if isinstance(n, ast.Assign) else [n.target])):
            bad.append(n)
    if bad:
        ctx.bad(finding_at(prop, rid, bad[0], f"model_validate mutates the filter object it is given (`{norm(bad[0], 50)}`): a filter dict that is reused (dynamic_lists queries, internal callers) loses "
                           "its '#x' conditions after the first use"))
    else:
        ctx.ok(rid, fn, "model_validate leaves its argument untouched")


def rule_listqueries(program, ctx, prop=P, rid="C16.listquery"):
    from ..lib import guard_atoms

    ctx.rule(
        rid,
        "the dynamic lists are built from *all* matching events and from well-formed keys only: the SQL query builder caps a filter's limit by the caller's default_limit "
        "alone (run_single_query passes 600000 - a second cap by Config.max_limit truncates the list queries to the newest max_limit reports); ListBuilder.initial "
        "holds the optional service key / whitelist only when they are set (a None element makes run_once raise before the lists are published - the sets stay "
        "empty, i.e. not enforced)",
        floor=2,
    )
    bq = program.func("nostr_relay.storage.db:Subscription.build_query")
    for st in stores_of(bq, "limit"):
        if isinstance(st, ast.Assign) and isinstance(st.value, ast.Call) and call_name(st.value) == "min":
            args = {ast.unparse(a) for a in st.value.args}
            extra = {a for a in args if a not in ("self.default_limit", "limit") and not a.endswith(".limit")}
            if extra:
                ctx.bad(finding_at(prop, rid, st, f"the stored query's limit is additionally capped by `{sorted(extra)[0][:50]}`: internal queries (dynamic allow/deny lists, run_single_query with "
                                   "default_limit=600000) are truncated to the client cap - pubkeys reported only in older events drop off the deny list"))
            else:
                ctx.ok(rid, st, f"limit = {ast.unparse(st.value)[:60]}")
    init = program.func("nostr_relay.dynamic_lists:ListBuilder.__init__")
    n = 0
    for x in walk_no_nested(init):
        src = None
        if isinstance(x, ast.Call) and isinstance(x.func, ast.Attribute) and x.func.attr in ("append", "extend", "add", "update") and "initial" in ast.unparse(x.func.value) and x.args:
            src = x
            optional = [a for a in ast.walk(x.args[0]) if isinstance(a, ast.Attribute) and dotted(a) in ("Config.service_pubkey", "Config.pubkey_whitelist")]
        elif isinstance(x, ast.Assign) and any("initial" in ast.unparse(t) for t in x.targets) and isinstance(x.value, (ast.List, ast.Tuple, ast.Set, ast.BinOp)):
            src = x
            optional = [a for a in ast.walk(x.value) if isinstance(a, ast.Attribute) and dotted(a) in ("Config.service_pubkey", "Config.pubkey_whitelist")]
        else:
            continue
        for a in optional:
            n += 1
            nm = dotted(a)
            guarded = any(nm in ast.unparse(e) and pol for e, pol in guard_atoms(a, stop=init))
            # `*(Config.pubkey_whitelist or ())` guards the iterable, not an element
            par = getattr(a, "_parent", None)
            inline_or = isinstance(par, ast.BoolOp) and isinstance(par.op, ast.Or) and par.values[0] is a and isinstance(getattr(par, "_parent", None), (ast.Starred, ast.Call))
            if guarded or inline_or:
                ctx.ok(rid, a, f"{nm} joins the preconfigured keys only when set")
            else:
                ctx.bad(finding_at(prop, rid, src, f"`{nm}` is put into ListBuilder.initial without a test that it is set: with no service key configured the element is None, "
                                   "bytes.fromhex(None) raises in run_once before the allow/deny sets are published, Periodic swallows it - both lists stay empty (= not enforced)"))
    if not n:
        ctx.info(rid, init, "ListBuilder.initial no longer reads the optional keys")


def run(program, ctx):
    from ..lib import rule_awaited

    rule_awaited(program, ctx, P, ANCHORS)
    c03.rule_gate(program, ctx, prop=P, rid="C16.gate")
    c03.rule_chain(program, ctx, prop=P, rid="C16.chain")
    rule_verdict(program, ctx)
    rule_handlers(program, ctx)
    rule_lists(program, ctx)
    rule_builder(program, ctx)
    rule_hastag(program, ctx)
    rule_readonly_filters(program, ctx)
    rule_listqueries(program, ctx)
    from . import c02

    # the list builder takes the end of the row stream as 'that is all'
    c02.rule_rows(program, ctx, prop=P, rid="C16.rows")
    from . import c04

    # the static black/white lists are compared as strings with event.pubkey: they rely on admission accepting only the canonical lower-case spelling
    c04.rule_canonical(program, ctx, prop=P, rid="C16.canonical")
    ctx.not_decided += [
        "each validator's numeric bound (content length, age, PoW bits, tag counts) at and around the limit",
        "contents of the dynamic lists as a function of the configured queries",
        "interleavings of a refresh with validations beyond the no-empty-window rule",
    ]


VAL = "nostr_relay/validators.py"
DL = "nostr_relay/dynamic_lists.py"
KV = "nostr_relay/storage/kv.py"

MUTANTS = [
    M("c16-delegation-found-decides", "nostr_relay/storage/base.py", "                if match:\n                    matched.add(True)", "                if has_delegation:\n                    matched.add(True)", "C16.hastag"),
    M("c16-service-key-unguarded", "nostr_relay/dynamic_lists.py", "        if Config.service_pubkey:\n            self.initial.append(Config.service_pubkey)", "        self.initial.append(Config.service_pubkey)", "C16.listquery"),
    M("c16-list-query-capped", "nostr_relay/storage/db.py", "                limit = min(filter_obj.limit, self.default_limit)", "                limit = min(filter_obj.limit, self.default_limit, Config.max_limit)", "C16.listquery"),
    M("c16-clear-then-update", "nostr_relay/dynamic_lists.py", "                global_set.update(local_set)\n                global_set.intersection_update(local_set)\n", "                global_set.clear()\n                global_set.update(local_set)\n", "C16.lists"),
    M("c16-rebind-empty", "nostr_relay/dynamic_lists.py", "        self.log.info(\"Refreshing global lists\")\n", "        self.log.info(\"Refreshing global lists\")\n        global ALLOWED_PUBKEYS\n        ALLOWED_PUBKEYS = set()\n", "C16.lists"),
    M("c16-size-return-false", VAL, "        raise StorageError(\"invalid: 280 characters should be enough for anybody\")", "        return False", "C16.verdict", canary=True),
    M("c16-size-flip", VAL, "len(event.content) > config.max_event_size", "len(event.content) < config.max_event_size", "C16.verdict"),
    M("c16-size-unused-config", VAL, "len(event.content) > config.max_event_size", "len(event.content) > 4096 * 1024", "C16.verdict"),
    M("c16-recent-future-dropped", VAL, "    elif (time() - event.created_at) < -3600:\n        raise StorageError(f\"invalid: {event.created_at} is in the future\")\n", "", "C16.verdict"),
    M("c16-kind-in", VAL, "event.kind not in config.valid_kinds", "event.kind in config.valid_kinds", "C16.verdict"),
    M("c16-blacklist-notin", VAL, "event.pubkey in config.pubkey_blacklist", "event.pubkey not in config.pubkey_blacklist", "C16.verdict"),
    M("c16-pow-gt", VAL, "found_bits < config.require_pow", "found_bits > config.require_pow", "C16.verdict"),
    M("c16-hellthread-no-raise", VAL, "            raise StorageError(\n                f\"rejected: too many 'p' tags", "            print(\n                f\"rejected: too many 'p' tags", "C16.verdict"),
    M("c16-allowed-early-return", DL, "    if ALLOWED_PUBKEYS and bytes.fromhex(event.pubkey) not in ALLOWED_PUBKEYS:\n        raise", "    if ALLOWED_PUBKEYS and bytes.fromhex(event.pubkey) not in ALLOWED_PUBKEYS:\n        return False\n        raise", "C16.verdict"),
    M("c16-gate-kv", KV, "        await self.validate_event(event, Config)\n", "", "C16.gate"),
    M("c16-chain-first-only", VAL, "            for func in validators:\n                func(event, config)\n", "            for func in validators:\n                func(event, config)\n                return\n", "C16.chain"),
    M("c16-handlers-no-catchall", "nostr_relay/web.py", "                    except Exception as e:\n                        log.error(str(e))\n                        result = False\n                        reason = str(e)\n                        eventid = \"\"\n", "", "C16.handlers"),
]

EQUIVS = [
    E("c16-eq-size-mirrored", VAL, "len(event.content) > config.max_event_size", "config.max_event_size < len(event.content)"),
    E("c16-eq-kind-positive", VAL, "    if event.kind not in config.valid_kinds:\n        raise StorageError(f\"invalid: kind={event.kind} not allowed\")",
      "    if event.kind in config.valid_kinds:\n        return\n    raise StorageError(f\"invalid: kind={event.kind} not allowed\")"),
]

# functions whose syntactic mutants are used for the thorough tier's sensitivity figure (sa/automut.py)
ANCHORS = [
    "nostr_relay.validators:is_not_too_large",
    "nostr_relay.validators:is_recent",
    "nostr_relay.validators:is_certain_kind",
    "nostr_relay.validators:is_author_whitelisted",
    "nostr_relay.validators:is_author_blacklisted",
    "nostr_relay.validators:is_pow",
    "nostr_relay.validators:is_not_hellthread",
    "nostr_relay.validators:is_service_event",
    "nostr_relay.validators:get_validator",
    "nostr_relay.dynamic_lists:is_pubkey_allowed",
    "nostr_relay.dynamic_lists:ListBuilder.run_once",
]
