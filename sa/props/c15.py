"""C15 - NIP-42: only a fresh, correctly signed answer to this connection's challenge authenticates.

  C15.gate       authenticate(): every return of a token passes check_auth_event(<Event(**payload)>, <challenge parameter>);
                 check_auth_event has no early normal return
  C15.guards     guard participation in check_auth_event: normal exit only with verify() truthy, kind == 22242, age bounded above and
                 below (|bound| <= 600 s), both found-flags truthy; a flag becomes True only after relay-URL membership in
                 self.valid_urls / equality with the challenge *parameter*
  C15.urls       valid_urls is never a str (membership would be substring search)
  C15.challenge  get_challenge: secrets.token_* with >= 16 bytes, independent of its argument, not stored on a shared object;
                 start_client binds it once per connection and hands the same local to authenticate
  C15.token      auth_token in start_client is bound only by the initial `{}` and by the result of authenticate(...)
"""
from __future__ import annotations

import ast

from ..cfg import cfg_of
from ..core import (
    AnalysisError,
    ancestors,
    call_name,
    dotted,
    enclosing_stmt,
    finding_at,
    finding_func,
    norm,
    own_calls,
    qual_of,
    walk_no_nested,
)
from ..lib import NORMAL, event_var, first_arg_is, must_pass, stores_of, strip_await, test_edges
from ..selftest import E, M

P = "C15"
WINDOW = 600


def rule_gate(program, ctx):
    rid = ctx.rule(
        "C15.gate",
        "Authenticator.authenticate: every `return <token>` is reachable only after `self.check_auth_event(E, challenge)` with "
        "E = Event(**payload) and `challenge` the un-rebound parameter; check_auth_event contains no `return` (each check raises)",
        floor=1,
    )
    fn = program.func("nostr_relay.auth:Authenticator.authenticate")
    cfg = cfg_of(fn)
    ev = event_var(fn)
    params = [a.arg for a in fn.args.args]
    if ev is None or "challenge" not in params:
        ctx.bad(finding_func(P, rid, fn, "authenticate no longer builds Event(**payload) / takes a challenge parameter", text="def authenticate(...)"))
        return
    if stores_of(fn, "challenge") or len(stores_of(fn, ev)) != 1:
        ctx.bad(finding_func(P, rid, fn, "the challenge parameter or the auth event is re-bound inside authenticate", text="def authenticate(...) :: rebinding"))
    gates = {}
    for n, d in cfg.g.nodes(data=True):
        s = d["ast"]
        if s is not None and d["kind"] == "stmt":
            for c in own_calls(s):
                if call_name(c) == "self.check_auth_event" and first_arg_is(c, ev) and (
                    (len(c.args) > 1 and isinstance(c.args[1], ast.Name) and c.args[1].id == "challenge")
                    or any(k.arg == "challenge" and isinstance(k.value, ast.Name) and k.value.id == "challenge" for k in c.keywords)
                ):
                    gates[n] = set(NORMAL)
    rets = cfg.stmt_nodes(lambda s: isinstance(s, ast.Return) and s.value is not None, kinds=("stmt",))
    if not rets:
        ctx.bad(finding_func(P, rid, fn, "authenticate returns no token", text="def authenticate(...)"))
    for r in rets:
        path = must_pass(cfg, gates, [r])
        if path:
            ctx.bad(finding_at(P, rid, cfg.ast_of(r), f"a token is returned without check_auth_event({ev}, challenge) having completed", path=cfg.describe_path(path)[-5:]))
        else:
            ctx.ok(rid, cfg.ast_of(r), f"token only after check_auth_event({ev}, challenge)")
    # the token's identity is the verified event's pubkey
    tok_ok = False
    for d in ast.walk(fn):
        if isinstance(d, ast.Dict):
            for k, v in zip(d.keys, d.values):
                if isinstance(k, ast.Constant) and k.value == "pubkey":
                    tok_ok = dotted(v) == f"{ev}.pubkey"
                    if not tok_ok:
                        ctx.bad(finding_at(P, rid, d, "the token's pubkey is not the verified auth event's pubkey"))
    if tok_ok:
        ctx.ok(rid, fn, f"token pubkey = {ev}.pubkey")
    ck = program.func("nostr_relay.auth:Authenticator.check_auth_event")
    # a `return` that can be taken before the last check has been evaluated bypasses the remaining checks; a value-less return after
    # which only `raise` statements follow (`if ok: return` + `raise …`, the early-return spelling of the last check) is no bypass
    cfgk = cfg_of(ck)
    early = []
    for r in walk_no_nested(ck):
        if isinstance(r, ast.Return):
            raises_after = [x for x in walk_no_nested(ck) if isinstance(x, ast.Raise) and x.lineno > r.lineno]
            others_after = [x for x in ck.body if x.lineno > r.lineno and not all(isinstance(y, (ast.Raise, ast.Expr)) or y is x for y in [x]) and not isinstance(x, ast.Raise)]
            if r.value is not None or others_after:
                early.append(r)
    if early:
        ctx.bad(finding_at(P, rid, early[0], "check_auth_event has a `return`: a check can be bypassed by a normal exit"))
    else:
        ctx.ok(rid, ck, "check_auth_event: no return statement, every check leaves by raise")


def _const_num(e):
    if isinstance(e, ast.Constant) and isinstance(e.value, (int, float)) and not isinstance(e.value, bool):
        return e.value
    if isinstance(e, ast.UnaryOp) and isinstance(e.op, ast.USub) and isinstance(e.operand, ast.Constant) and isinstance(e.operand.value, (int, float)):
        return -e.operand.value
    return None


def rule_guards(program, ctx):
    rid = ctx.rule(
        "C15.guards",
        "check_auth_event: cutting the branch edges on which a required fact is known, the normal exit (resp. the `found_x = True` "
        "assignment) must become unreachable - facts: verify() truthy; kind == 22242; age < +bound; age > -bound (bounds <= 600 s, age = "
        "now - created_at); found_relay and found_challenge truthy; relay tag value in self.valid_urls; challenge tag value == challenge parameter",
        floor=4,
    )
    fn = program.func("nostr_relay.auth:Authenticator.check_auth_event")
    cfg = cfg_of(fn)
    params = [a.arg for a in fn.args.args]
    if len(params) < 3:
        raise AnalysisError("check_auth_event signature changed")
    ev, chal = params[1], params[2]
    if stores_of(fn, chal) or stores_of(fn, ev):
        ctx.bad(finding_func(P, rid, fn, "the event or challenge parameter is re-bound inside check_auth_event", text="def check_auth_event(...) :: rebinding"))
    # age aliases:  since = time() - ev.created_at
    age = set()
    neg_age = set()
    for s in walk_no_nested(fn):
        if isinstance(s, ast.Assign) and isinstance(s.value, ast.BinOp) and isinstance(s.value.op, ast.Sub):
            l, r = s.value.left, s.value.right
            if dotted(r) == f"{ev}.created_at" and isinstance(l, ast.Call) and call_name(l).split(".")[-1] == "time":
                age |= {t.id for t in s.targets if isinstance(t, ast.Name)}
            if dotted(l) == f"{ev}.created_at" and isinstance(r, ast.Call) and call_name(r).split(".")[-1] == "time":
                neg_age |= {t.id for t in s.targets if isinstance(t, ast.Name)}

    def is_age(e):
        if isinstance(e, ast.Name) and e.id in age:
            return 1
        if isinstance(e, ast.Name) and e.id in neg_age:
            return -1
        if isinstance(e, ast.BinOp) and isinstance(e.op, ast.Sub):
            if dotted(e.right) == f"{ev}.created_at" and isinstance(e.left, ast.Call) and call_name(e.left).split(".")[-1] == "time":
                return 1
            if dotted(e.left) == f"{ev}.created_at" and isinstance(e.right, ast.Call) and call_name(e.right).split(".")[-1] == "time":
                return -1
        return 0

    def norm_cmp(expr, pol):
        """-> (sign, op, const) meaning  sign*age  op  const  is known true; op in '<','<=','>','>='; or ('abs', op, const)"""
        if not isinstance(expr, ast.Compare) or len(expr.ops) != 1:
            return None
        l, r = expr.left, expr.comparators[0]
        op = type(expr.ops[0])
        table = {ast.Lt: "<", ast.LtE: "<=", ast.Gt: ">", ast.GtE: ">="}
        neg = {"<": ">=", "<=": ">", ">": "<=", ">=": "<"}
        mir = {"<": ">", "<=": ">=", ">": "<", ">=": "<="}
        if op not in table:
            return None
        o = table[op]
        kind = None
        if isinstance(l, ast.Call) and call_name(l) == "abs" and l.args and is_age(l.args[0]) and _const_num(r) is not None:
            kind, c = "abs", _const_num(r)
        elif is_age(l) and _const_num(r) is not None:
            kind, c = is_age(l), _const_num(r)
        elif is_age(r) and _const_num(l) is not None:
            kind, c, o = is_age(r), _const_num(l), mir[o]
        elif isinstance(r, ast.Call) and call_name(r) == "abs" and r.args and is_age(r.args[0]) and _const_num(l) is not None:
            kind, c, o = "abs", _const_num(l), mir[o]
        else:
            return None
        if not pol:
            o = neg[o]
        if kind == -1:  # -age o c  <=>  age mir(o) -c
            kind, o, c = 1, mir[o], -c
        return kind, o, c

    def upper(expr, pol):  # age < +b, b <= WINDOW
        r = norm_cmp(expr, pol)
        return r is not None and r[1] in ("<", "<=") and 0 < r[2] <= WINDOW

    def lower(expr, pol):  # age > -b
        r = norm_cmp(expr, pol)
        if r is None:
            return False
        if r[0] == "abs":
            return r[1] in ("<", "<=") and 0 < r[2] <= WINDOW
        return r[1] in (">", ">=") and -WINDOW <= r[2] < 0

    def verify(expr, pol):
        return pol and isinstance(expr, ast.Call) and dotted(expr.func) == f"{ev}.verify"

    def kind_ok(expr, pol):
        if not isinstance(expr, ast.Compare) or len(expr.ops) != 1:
            return False
        l, r = expr.left, expr.comparators[0]
        if not ((dotted(l) == f"{ev}.kind" and _const_num(r) == 22242) or (dotted(r) == f"{ev}.kind" and _const_num(l) == 22242)):
            return False
        return (isinstance(expr.ops[0], ast.Eq) and pol) or (isinstance(expr.ops[0], ast.NotEq) and not pol)

    facts = [
        ("event.verify() truthy", verify),
        ("kind == 22242", kind_ok),
        (f"age below +{WINDOW}s (not too old)", upper),
        (f"age above -{WINDOW}s (not from the future)", lower),
    ]
    for text, pred in facts:
        passes = test_edges(cfg, pred)
        path = must_pass(cfg, passes, [cfg.exit])
        if path:
            ctx.bad(finding_func(P, rid, fn, f"check_auth_event can return normally without `{text}` having been established",
                                 text=f"def check_auth_event(...) :: {text}", path=cfg.describe_path(path)[-6:]))
        else:
            ctx.ok(rid, fn, f"normal exit only with {text}")
    # `not (age >= 600)` is `age < 600` only for a real number: created_at comes from the client's JSON, where rapidjson accepts NaN, and NaN makes
    # every comparison false.  The window is established either by comparisons that *hold* (true edges), or by refusals (false edges) of a value
    # that is known to be an int.
    def strict(p):
        return lambda e, pol: pol and p(e, pol)

    def typed(expr, pol):
        if isinstance(expr, ast.Call) and call_name(expr) == "isinstance" and len(expr.args) == 2 and dotted(expr.args[0]) == f"{ev}.created_at" and dotted(expr.args[1]) == "int":
            return pol
        if isinstance(expr, ast.Compare) and len(expr.ops) == 1 and isinstance(expr.left, ast.Call) and call_name(expr.left) == "type" and expr.left.args \
                and dotted(expr.left.args[0]) == f"{ev}.created_at" and dotted(expr.comparators[0]) == "int":
            return (isinstance(expr.ops[0], (ast.Is, ast.Eq)) and pol) or (isinstance(expr.ops[0], (ast.IsNot, ast.NotEq)) and not pol)
        if isinstance(expr, ast.Compare) and len(expr.ops) == 1 and is_age(expr.left) and is_age(expr.comparators[0]) and ast.unparse(expr.left) == ast.unparse(expr.comparators[0]):
            # x != x  is the NaN test
            return (isinstance(expr.ops[0], ast.Eq) and pol) or (isinstance(expr.ops[0], ast.NotEq) and not pol)
        return False

    t_path = must_pass(cfg, test_edges(cfg, typed), [cfg.exit])
    for text, pred in facts[2:]:
        if must_pass(cfg, test_edges(cfg, strict(pred)), [cfg.exit]) and t_path:
            ctx.bad(finding_func(P, rid, fn, f"`{text}` is established only by comparisons that came out false, for a created_at that is not known to be an int: a NaN timestamp "
                                 "(valid in the JSON rapidjson parses, and signable) fails every comparison and is accepted as fresh whatever the time",
                                 text="def check_auth_event(...) :: NaN created_at", path=cfg.describe_path(t_path)[-6:]))
            break
    else:
        ctx.ok(rid, fn, "the freshness window cannot be passed by NaN (typed created_at or positive comparisons)")
    # flags
    flags = {}
    for s in walk_no_nested(fn):
        if isinstance(s, ast.Assign) and isinstance(s.value, ast.Constant) and s.value.value is True:
            for t in s.targets:
                if isinstance(t, ast.Name):
                    flags.setdefault(t.id, []).append(s)
    tag_flags = {}
    for name, sets in flags.items():
        for s in sets:
            which = None
            for a in ancestors(s):
                if isinstance(a, ast.If):
                    for c in ast.walk(a.test):
                        if isinstance(c, ast.Compare) and isinstance(c.comparators[0], ast.Constant) and c.comparators[0].value in ("relay", "challenge") and isinstance(c.ops[0], ast.Eq):
                            which = which or c.comparators[0].value
            if which:
                tag_flags.setdefault(which, []).append((name, s))
    for which in ("relay", "challenge"):
        if which not in tag_flags:
            ctx.bad(finding_func(P, rid, fn, f"no flag records that a `{which}` tag was checked", text=f"def check_auth_event(...) :: {which} flag"))
            continue
        for name, s in tag_flags[which]:
            # 1. exit requires the flag
            passes = test_edges(cfg, lambda e, p, name=name: p and isinstance(e, ast.Name) and e.id == name)
            if must_pass(cfg, passes, [cfg.exit]):
                ctx.bad(finding_func(P, rid, fn, f"check_auth_event can return normally without `{name}` being truthy: the {which} tag is optional",
                                     text=f"def check_auth_event(...) :: {name} required"))
            else:
                ctx.ok(rid, fn, f"normal exit only with {name} truthy")
            # 2. the flag is set only after the value check
            if which == "relay":
                def vpred(expr, pol):
                    if not isinstance(expr, ast.Compare) or len(expr.ops) != 1:
                        return False
                    okc = dotted(expr.comparators[0]) == "self.valid_urls" and isinstance(expr.left, ast.Subscript)
                    return okc and ((isinstance(expr.ops[0], ast.In) and pol) or (isinstance(expr.ops[0], ast.NotIn) and not pol))
                what = "tag value in self.valid_urls"
            else:
                def vpred(expr, pol):
                    if not isinstance(expr, ast.Compare) or len(expr.ops) != 1:
                        return False
                    l, r = expr.left, expr.comparators[0]
                    pair = (isinstance(l, ast.Subscript) and isinstance(r, ast.Name) and r.id == chal) or (isinstance(r, ast.Subscript) and isinstance(l, ast.Name) and l.id == chal)
                    return pair and ((isinstance(expr.ops[0], ast.Eq) and pol) or (isinstance(expr.ops[0], ast.NotEq) and not pol))
                what = f"tag value == {chal} (the parameter)"
            passes = test_edges(cfg, vpred)

            def npred(expr, pol, which=which):
                return pol and isinstance(expr, ast.Compare) and len(expr.ops) == 1 and isinstance(expr.ops[0], ast.Eq) and isinstance(expr.left, ast.Subscript) \
                    and isinstance(expr.comparators[0], ast.Constant) and expr.comparators[0].value == which

            name_passes = test_edges(cfg, npred)
            if must_pass(cfg, passes, cfg.nodes_of(s)):
                ctx.bad(finding_at(P, rid, s, f"`{name} = True` is reachable without `{what}` having held: any {which} value authenticates"))
            elif must_pass(cfg, name_passes, cfg.nodes_of(s)):
                ctx.bad(finding_at(P, rid, s, f"`{name} = True` is reachable for a tag whose name is not known to be \"{which}\": some other tag can stand in for the {which} tag"))
            else:
                ctx.ok(rid, s, f"{name} set only for a \"{which}\" tag after {what}")


def rule_urls(program, ctx):
    rid = ctx.rule(
        "C15.urls",
        "Authenticator.parse_options: the value bound to valid_urls is a list/tuple/set display by default, or is normalised when it is a "
        "str - `x in \"ws://host\"` is a substring test that accepts \"ws\"",
        floor=1,
    )
    fn = program.func("nostr_relay.auth:Authenticator.parse_options")
    # the variable handed out as valid_urls: second element of the returned tuple
    ret = next((r for r in walk_no_nested(fn) if isinstance(r, ast.Return) and isinstance(r.value, ast.Tuple) and len(r.value.elts) >= 2), None)
    rname = dotted(ret.value.elts[1]) if ret is not None else "valid_urls"
    st = stores_of(fn, rname)
    if not st:
        ctx.bad(finding_func(P, rid, fn, "valid_urls is no longer computed in parse_options", text="def parse_options(...)"))
        return
    # variables normalised by `if isinstance(N, str): N = [N]`, with the line of the normalising test
    normalised = {}
    for n in ast.walk(fn):
        if isinstance(n, ast.If) and isinstance(n.test, ast.Call) and call_name(n.test) == "isinstance" and len(n.test.args) == 2 and isinstance(n.test.args[0], ast.Name) and "str" in ast.unparse(n.test.args[1]):
            N = n.test.args[0].id
            for b in n.body:
                if isinstance(b, ast.Assign) and dotted(b.targets[0]) == N and isinstance(b.value, (ast.List, ast.Tuple, ast.Set)) and any(dotted(e) == N for e in b.value.elts):
                    normalised[N] = n.lineno

    def leaves(v):
        if isinstance(v, ast.BoolOp):
            return [x for e in v.values for x in leaves(e)]
        if isinstance(v, ast.IfExp):
            return leaves(v.body) + leaves(v.orelse)
        return [v]

    def leaf_ok(v, store, seen=()):
        """is this source provably not a bare str when it reaches the membership test?"""
        if isinstance(v, (ast.List, ast.Tuple, ast.Set, ast.ListComp, ast.SetComp)) or (isinstance(v, ast.Call) and call_name(v) in ("list", "set", "tuple", "frozenset", "sorted")):
            return True, "container"
        if isinstance(v, ast.Constant):
            return (not isinstance(v.value, str)), "constant"
        if isinstance(v, ast.Name) and v.id not in seen:
            if v.id in normalised and all(getattr(s2, "lineno", 0) < normalised[v.id] for s2 in stores_of(fn, v.id) if not any(a.lineno == normalised[v.id] for a in ancestors(s2) if isinstance(a, ast.If))):
                return True, f"{v.id} normalised"
            subs = [s2 for s2 in stores_of(fn, v.id) if isinstance(s2, ast.Assign)]
            if subs and all(all(leaf_ok(l, s2, seen + (v.id,))[0] for l in leaves(s2.value)) for s2 in subs):
                return True, f"{v.id} from checked sources"
            return False, f"`{v.id}` is not normalised"
        if isinstance(v, ast.Call) and call_name(v).endswith(".get"):
            # an option value: anything the operator wrote - only fine if the *target* variable is normalised afterwards
            tgt = dotted(store.targets[0]) if isinstance(store, ast.Assign) else None
            if tgt in normalised and store.lineno < normalised[tgt] and len(leaves(store.value)) == 1:
                return True, "option value, normalised afterwards"
            return False, f"`{ast.unparse(v)[:50]}` may be a single str and is not normalised"
        return True, "non-str expression"

    for s_ in st:
        if not isinstance(s_, ast.Assign):
            continue
        if any(isinstance(a, ast.If) and a.lineno == normalised.get(rname) for a in ancestors(s_)):
            continue  # the normalising re-binding itself
        v = s_.value
        if isinstance(v, ast.Call) and call_name(v).endswith(".get") and len(v.args) == 2 and isinstance(v.args[1], ast.Constant) and isinstance(v.args[1].value, str) and rname not in normalised:
            ctx.bad(finding_at(P, rid, s_, "default relay_urls is a str: `tag[1] in self.valid_urls` becomes a substring test (an AUTH event naming relay \"ws\" passes)"))
            continue
        verdicts = [leaf_ok(l, s_) for l in leaves(v)]
        badv = [why for okv, why in verdicts if not okv]
        if badv:
            ctx.bad(finding_at(P, rid, s_, f"valid_urls can be a bare str: {badv[0]} - `tag[1] in self.valid_urls` is then a substring test (relay tags \"wss://\", \"relay\" or \"\" authenticate)"))
        else:
            ctx.ok(rid, s_, f"valid_urls sources: {[w for _, w in verdicts]}")


def rule_challenge(program, ctx):
    rid = ctx.rule(
        "C15.challenge",
        "get_challenge returns secrets.token_hex/bytes/urlsafe(n >= 16), uses neither its argument nor shared state; start_client binds "
        "`challenge` once from get_challenge and passes that local to authenticate(…, challenge=challenge); it is sent in the AUTH frame",
        floor=1,
    )
    fn = program.func("nostr_relay.auth:Authenticator.get_challenge")
    rets = [r for r in walk_no_nested(fn) if isinstance(r, ast.Return)]
    good = True
    for r in rets:
        v = r.value
        if isinstance(v, ast.Call) and call_name(v) in ("secrets.token_hex", "secrets.token_bytes", "secrets.token_urlsafe") and v.args and isinstance(v.args[0], ast.Constant) and isinstance(v.args[0].value, int) and v.args[0].value >= 16:
            ctx.ok(rid, r, f"{call_name(v)}({v.args[0].value})")
        else:
            good = False
            ctx.bad(finding_at(P, rid, r, "challenge is not `secrets.token_*(n >= 16)`: predictable or short challenges can be answered in advance"))
    if not rets:
        ctx.bad(finding_func(P, rid, fn, "get_challenge returns nothing", text="def get_challenge(...)"))
    for s in walk_no_nested(fn):
        if isinstance(s, (ast.Assign, ast.AugAssign)):
            tg = s.targets if isinstance(s, ast.Assign) else [s.target]
            if any(isinstance(t, (ast.Attribute, ast.Subscript)) for t in tg):
                ctx.bad(finding_at(P, rid, s, "get_challenge stores state on a shared object: challenges of different connections can meet"))
    sc = program.func("nostr_relay.web:start_client")
    st = stores_of(sc, "challenge")
    if len(st) == 1 and isinstance(st[0], ast.Assign) and isinstance(st[0].value, ast.Call) and call_name(st[0].value).endswith(".get_challenge"):
        ctx.ok(rid, st[0], "challenge bound once per connection from get_challenge()")
    else:
        ctx.bad(finding_func(P, rid, sc, "`challenge` is not bound exactly once from authenticator.get_challenge() in start_client", text="def start_client(...) :: challenge"))
    for c in ast.walk(sc):
        if isinstance(c, ast.Call) and call_name(c).endswith(".authenticate"):
            kw = next((k for k in c.keywords if k.arg == "challenge"), None)
            val = kw.value if kw else (c.args[1] if len(c.args) > 1 else None)
            if isinstance(val, ast.Name) and val.id == "challenge":
                ctx.ok(rid, c, "authenticate(payload, challenge=<this connection's challenge>)")
            else:
                ctx.bad(finding_at(P, rid, c, "authenticate is not given this connection's challenge local"))
    for s in walk_no_nested(sc):
        if isinstance(s, (ast.Assign,)) and any(isinstance(t, (ast.Attribute, ast.Subscript)) for t in s.targets) and any(isinstance(n, ast.Name) and n.id == "challenge" for n in ast.walk(s.value)):
            ctx.bad(finding_at(P, rid, s, "the connection's challenge is stored in a shared object"))


def rule_token(program, ctx, prop=P, rid="C15.token"):
    ctx.rule(
        rid,
        "start_client: `auth_token` is bound exactly twice - `{}` before the loop and `await …authenticate(message[1], challenge=challenge)` "
        "in the AUTH branch; no handler or other branch rebinds it, so a failed AUTH leaves the identity unchanged; the AUTH branch is "
        "taken only when authentication is enabled",
        floor=1,
    )
    sc = program.func("nostr_relay.web:start_client")
    st = stores_of(sc, "auth_token")
    init = [s for s in st if isinstance(s, ast.Assign) and isinstance(s.value, ast.Dict) and not s.value.keys]
    auth = [s for s in st if isinstance(s, ast.Assign) and isinstance(strip_await(s.value), ast.Call) and call_name(strip_await(s.value)).endswith(".authenticate")]
    other = [s for s in st if s not in init and s not in auth]
    loop = next((n for n in ast.walk(sc) if isinstance(n, ast.While)), None)
    for s in init:
        inside_loop = loop is not None and any(a is loop for a in ancestors(s))
        in_handler = any(isinstance(a, ast.ExceptHandler) for a in ancestors(s))
        if inside_loop or in_handler:
            other.append(s)
    init = [s for s in init if s not in other]
    for s in other:
        ctx.bad(finding_at(prop, rid, s, "auth_token is re-bound outside a successful authenticate(): a failed or unrelated message changes the connection's identity"))
    if len(init) == 1:
        ctx.ok(rid, init[0], "auth_token = {} once, before the message loop")
    else:
        ctx.bad(finding_func(prop, rid, sc, "auth_token is not initialised exactly once before the loop", text="def start_client(...) :: auth_token init"))
    for s in auth:
        cond = next((a for a in ancestors(s) if isinstance(a, ast.If)), None)
        txt = ast.unparse(cond.test) if cond is not None else ""
        if "command == 'AUTH'" in txt and "is_enabled" in txt:
            ctx.ok(rid, s, "token replaced only by the result of authenticate() in the enabled AUTH branch")
        else:
            ctx.bad(finding_at(prop, rid, s, "authenticate() result is assigned outside `command == \"AUTH\" and authenticator.is_enabled`"))
        inner_try = [a for a in ancestors(s) if isinstance(a, ast.Try) and any(True for _ in a.handlers)]
        # an inner handler that swallows AuthenticationError silently would leave the client uninformed - reported under C13/C19
    if not auth:
        ctx.bad(finding_func(prop, rid, sc, "no AUTH branch assigns the result of authenticate() to auth_token", text="def start_client(...) :: AUTH"))


def rule_urls_frozen(program, ctx, prop=P, rid="C15.frozen"):
    ctx.rule(
        rid,
        "the list of URLs this relay answers to is never extended at run time: no code binds the configured `relay_urls` list (Config.authentication.get('relay_urls'…) / "
        "authenticator.valid_urls) to a name without copying it and then mutates it (append/extend/update/add/+=/item store) - the Authenticator holds the *same* list "
        "object as valid_urls, so an alias that grows (e.g. with the relays an event was forwarded to) makes AUTH answers addressed to those relays valid here",
        floor=1,
    )
    MUT = ("append", "extend", "update", "add", "insert", "remove", "discard", "pop", "clear", "__setitem__", "__iadd__")
    n_src = 0
    for m in program.modules.values():
        if m.rel.startswith("<dep>"):
            continue
        for fn in [f for f in ast.walk(m.tree) if isinstance(f, (ast.FunctionDef, ast.AsyncFunctionDef))]:
            aliases = {}
            for st in walk_no_nested(fn):
                if isinstance(st, ast.Assign) and len(st.targets) == 1 and isinstance(st.targets[0], ast.Name):
                    v = st.value
                    src = None
                    for l in ([v] if not isinstance(v, (ast.BoolOp, ast.IfExp)) else list(ast.walk(v))):
                        if isinstance(l, ast.Call) and call_name(l).endswith(".get") and l.args and isinstance(l.args[0], ast.Constant) and l.args[0].value in ("relay_urls", "valid_urls") and l is v:
                            src = l
                        if isinstance(l, ast.Subscript) and isinstance(l.slice, ast.Constant) and l.slice.value in ("relay_urls", "valid_urls") and l is v:
                            src = l
                        if isinstance(l, ast.Attribute) and l.attr == "valid_urls" and l is v:
                            src = l
                    if src is not None:
                        aliases[st.targets[0].id] = st
                elif isinstance(st, ast.Assign) and isinstance(st.value, ast.Call) and call_name(st.value) in ("set", "list", "tuple", "frozenset") and st.value.args:
                    a0 = st.value.args[0]
                    if isinstance(a0, ast.Call) and call_name(a0).endswith(".get") and a0.args and isinstance(a0.args[0], ast.Constant) and a0.args[0].value in ("relay_urls", "valid_urls"):
                        n_src += 1
                        ctx.ok(rid, st, f"{qual_of(fn)}: works on a copy ({norm(st, 60)})")
            # the parser itself re-binds its local to a fresh list, it does not mutate the option value
            for name, src_st in aliases.items():
                n_src += 1
                muts = []
                for c in walk_no_nested(fn):
                    if isinstance(c, ast.Call) and isinstance(c.func, ast.Attribute) and c.func.attr in MUT and dotted(c.func.value) == name:
                        muts.append(c)
                    if isinstance(c, ast.AugAssign) and dotted(c.target) == name:
                        muts.append(c)
                    if isinstance(c, (ast.Assign, ast.Delete)) and any(isinstance(t, ast.Subscript) and dotted(t.value) == name for t in (c.targets if hasattr(c, "targets") else [])):
                        muts.append(c)
                if muts:
                    ctx.bad(finding_at(prop, rid, muts[0], f"{qual_of(fn)}: `{name}` is the configured relay_urls list itself (`{norm(src_st, 60)}`), and `{norm(muts[0], 50)}` mutates it: every URL added "
                                       "here becomes a URL the authenticator accepts in an AUTH event's relay tag"))
                else:
                    ctx.ok(rid, src_st, f"{qual_of(fn)}: `{name}` aliases the configured list and is only read")
            for c in walk_no_nested(fn):
                if isinstance(c, ast.Call) and isinstance(c.func, ast.Attribute) and c.func.attr in MUT and isinstance(c.func.value, ast.Attribute) and c.func.value.attr == "valid_urls":
                    ctx.bad(finding_at(prop, rid, c, f"{qual_of(fn)} mutates authenticator.valid_urls"))
    if not n_src:
        raise AnalysisError("no read of the relay_urls option found")


def rule_urlmatch(program, ctx, prop=P, rid="C15.urlmatch"):
    ctx.rule(
        rid,
        "the relay-URL test is exact membership in the configured list: self.valid_urls is bound once, from parse_options (not re-wrapped in a container class with its "
        "own `__contains__`), and nothing in auth.py uses str.lstrip/rstrip/strip with a multi-character argument as if it removed a prefix/suffix (`url.lstrip('wss://')` "
        "strips any leading w, s, :, / - `wss://srelay.example` becomes `relay.example`)",
        floor=1,
    )
    m = program.module("nostr_relay.auth")
    for c in ast.walk(m.tree):
        if isinstance(c, ast.Call) and isinstance(c.func, ast.Attribute) and c.func.attr in ("lstrip", "rstrip", "strip") and c.args and isinstance(c.args[0], ast.Constant) and isinstance(c.args[0].value, str):
            arg = c.args[0].value
            if len(set(arg)) > 1 and len(arg) > 2:
                ctx.bad(finding_at(prop, rid, c, f"`{ast.unparse(c)[:60]}` removes any of the characters {sorted(set(arg))}, not the prefix/suffix {arg!r}: different host names are normalised to the same string "
                                   "and an AUTH event addressed to another relay is accepted"))
    init = program.func("nostr_relay.auth:Authenticator.__init__")
    binds = [s_ for s_ in ast.walk(m.tree) if isinstance(s_, ast.Assign) and any(isinstance(x, ast.Attribute) and x.attr == "valid_urls" and isinstance(x.ctx, ast.Store) for t in s_.targets for x in ast.walk(t))]
    good = 0
    for b in binds:
        v = b.value
        if isinstance(v, ast.Call) and call_name(v) == "self.parse_options":
            good += 1
            ctx.ok(rid, b, "valid_urls <- parse_options(options)")
        elif isinstance(v, (ast.Name, ast.Subscript)) and any(isinstance(x, ast.Call) and call_name(x) == "self.parse_options" for s2 in stores_of(func_of_node(b), dotted(v) if isinstance(v, ast.Name) else dotted(v.value)) for x in ast.walk(s2)):
            good += 1
            ctx.ok(rid, b, "valid_urls <- parse_options(options)")
        else:
            cname = call_name(v) if isinstance(v, ast.Call) else ""
            ci = program.classes.get(f"nostr_relay.auth:{cname}")
            if ci is not None and "__contains__" in ci.methods:
                ctx.bad(finding_at(prop, rid, b, f"valid_urls is re-bound to `{cname}(…)`, a container with its own `__contains__`: membership is no longer string equality with a configured URL"))
            elif isinstance(v, ast.Call) and cname in ("list", "tuple", "set", "frozenset") and v.args and "valid_urls" in ast.unparse(v.args[0]):
                good += 1
                ctx.ok(rid, b, "valid_urls copied into a builtin container")
            else:
                ctx.bad(finding_at(prop, rid, b, f"valid_urls is re-bound to `{ast.unparse(v)[:60]}` outside parse_options"))
    if not good:
        ctx.bad(finding_func(prop, rid, init, "valid_urls is no longer taken from parse_options", text="def __init__(...) :: valid_urls"))


def func_of_node(n):
    f = getattr(n, "_func", None)
    return f


def run(program, ctx):
    from ..lib import rule_awaited

    rule_awaited(program, ctx, P, ANCHORS)
    rule_gate(program, ctx)
    rule_guards(program, ctx)
    rule_urls(program, ctx)
    rule_urls_frozen(program, ctx)
    rule_urlmatch(program, ctx)
    rule_challenge(program, ctx)
    rule_token(program, ctx)
    ctx.not_decided += [
        "off-by-one at exactly +-600 s; replay of a valid answer within the window on the same connection",
        "signature/delegation cryptography inside aionostr (Event.verify)",
    ]


AUTH = "nostr_relay/auth.py"
WEB = "nostr_relay/web.py"

MUTANTS = [
    M("c15-window-by-refusal", "nostr_relay/auth.py", "        if not since < 600:", "        if since >= 600:", "C15.guards"),
    M("c15-relay-flag-any-tag", AUTH, "            if tag[0] == \"relay\":", "            if tag[0] != \"relay\":", "C15.guards"),
    M("c15-urls-str-default", AUTH, "        valid_urls = options.get(\"relay_urls\", [\"ws://localhost:6969\"])\n        if isinstance(valid_urls, str):\n            # a single url: membership must not degrade to a substring test\n            valid_urls = [valid_urls]\n",
      "        valid_urls = options.get(\"relay_urls\", \"ws://localhost:6969\")\n", "C15.urls"),
    M("c15-no-verify", AUTH, "        if not auth_event.verify():\n            raise AuthenticationError(\"invalid: Bad signature\")\n", "", "C15.guards", canary=True),
    M("c15-no-kind", AUTH, "        if auth_event.kind != 22242:\n            raise AuthenticationError(\"invalid: Wrong kind. Must be 22242.\")\n", "", "C15.guards"),
    M("c15-no-too-new", AUTH, "        elif not since > -600:\n            raise AuthenticationError(\"invalid: Too new\")\n", "", "C15.guards"),
    M("c15-wide-window", AUTH, "        if not since < 600:", "        if not since < 6000:", "C15.guards"),
    M("c15-relay-any", AUTH, "                if tag[1] not in self.valid_urls:\n                    raise AuthenticationError(f\"invalid: Wrong domain: {tag[1]}\")\n", "", "C15.guards"),
    M("c15-challenge-const", AUTH, "                if tag[1] != challenge:", "                if tag[1] != \"\":", "C15.guards"),
    M("c15-flags-or", AUTH, "        if not (found_relay and found_challenge):", "        if not (found_relay or found_challenge):", "C15.guards"),
    M("c15-token-before-check", AUTH, "        auth_event = Event(**auth_event_json)\n        self.check_auth_event(auth_event, challenge)\n", "        auth_event = Event(**auth_event_json)\n        if not challenge:\n            return {\"pubkey\": auth_event.pubkey, \"roles\": self.default_roles, \"now\": time()}\n        self.check_auth_event(auth_event, challenge)\n", "C15.gate"),
    M("c15-weak-challenge", AUTH, "        return secrets.token_hex(16)", "        return secrets.token_hex(4)", "C15.challenge"),
    M("c15-random-challenge", AUTH, "        return secrets.token_hex(16)", "        return str(hash(remote_addr))", "C15.challenge"),
    M("c15-shared-challenge", AUTH, "        return secrets.token_hex(16)", "        self.challenge = secrets.token_hex(16)\n        return self.challenge", "C15.challenge"),
    M("c15-token-reset-on-failure", WEB, "            except AuthenticationError as e:\n                log.warning(\n", "            except AuthenticationError as e:\n                auth_token = {}\n                log.warning(\n", "C15.token"),
    M("c15-auth-other-challenge", WEB, "                        message[1], challenge=challenge\n", "                        message[1], challenge=message[1].get(\"challenge\", challenge)\n", "C15.challenge"),
]

EQUIVS = [
    E("c15-eq-abs-window", AUTH, "        if not since < 600:\n            raise AuthenticationError(\"invalid: Too old\")\n        elif not since > -600:\n            raise AuthenticationError(\"invalid: Too new\")\n",
      "        if not abs(since) < 600:\n            raise AuthenticationError(\"invalid: Too old or too new\")\n"),
    E("c15-eq-kind-positive", AUTH, "        if auth_event.kind != 22242:\n            raise AuthenticationError(\"invalid: Wrong kind. Must be 22242.\")\n",
      "        if not auth_event.kind == 22242:\n            raise AuthenticationError(\"invalid: Wrong kind. Must be 22242.\")\n"),
]

# functions whose syntactic mutants are used for the thorough tier's sensitivity figure (sa/automut.py)
ANCHORS = [
    "nostr_relay.auth:Authenticator.check_auth_event",
    "nostr_relay.auth:Authenticator.authenticate",
    "nostr_relay.auth:Authenticator.get_challenge",
    "nostr_relay.auth:Authenticator.parse_options",
]
