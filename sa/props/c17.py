"""C17 - garbage collection removes expired and ephemeral events and nothing else (necessary conditions).

  C17.range    the ephemeral kind range is the same half-open interval [20000, 30000) at its three sites (aionostr Event.is_ephemeral,
               SQL GC statement, LMDB GC walk)
  C17.sources  SQL: the DELETE's WHERE has exactly two disjuncts (kind range; tags.name = 'expiration' AND value-vs-now); LMDB: ids enter the
               deletion list only inside the two bounded range walks and are deleted through storage.delete_event
  C17.order    ordering domain of the expiration comparison: tag values are TEXT / byte strings; an ordered comparison with the text of `now` is
               lexicographic and needs an equal-length (or digits-only + cast) guard; a bare CAST treats malformed values as 0
  C17.bypass   LMDB: ephemeral events are not enqueued for storage but are broadcast
  C17.driver   the collector is started only by start_garbage_collector, swallowing exceptions per pass
"""
from __future__ import annotations

import ast
import re

from ..cfg import cfg_of
from ..core import (
    AnalysisError,
    ancestors,
    call_name,
    dotted,
    enclosing_stmt,
    finding_at,
    finding_func,
    norm,
    own_calls,
    qual_of,
    walk_no_nested,
)
from ..lib import NORMAL, all_calls, must_pass, stores_of, test_edges
from ..selftest import E, M

P = "C17"
LO, HI = 20000, 30000


def gc_sql_text(program):
    ci = program.cls("nostr_relay.storage.db:QueryGarbageCollector")
    for s in ci.node.body:
        if isinstance(s, ast.Assign) and dotted(s.targets[0]) == "query" and isinstance(s.value, ast.Constant):
            return s, s.value.value
    raise AnalysisError("QueryGarbageCollector.query not found")


def rule_range(program, ctx):
    rid = ctx.rule(
        "C17.range",
        "kind-range table: Event.is_ephemeral = kind >= 20000 and kind < 30000; SQL GC text `kind >= 20000 and kind < 30000`; LMDB GC walks the "
        "kind index from to_key(20000) and stops at a key above to_key(29999|30000)",
        floor=1,
    )
    ev = program.module("aionostr.event")
    fn = next((f for f in ast.walk(ev.tree) if isinstance(f, ast.FunctionDef) and f.name == "is_ephemeral"), None)
    consts = sorted(k.value for k in ast.walk(fn) if isinstance(k, ast.Constant) and isinstance(k.value, int)) if fn else []
    ops = sorted(type(o).__name__ for c in ast.walk(fn) for o in (c.ops if isinstance(c, ast.Compare) else [])) if fn else []
    if consts == [LO, HI] and ops == ["GtE", "Lt"]:
        ctx.ok(rid, fn, "aionostr Event.is_ephemeral: [20000, 30000)")
    else:
        ctx.bad(finding_func(P, rid, program.func("aionostr.event:Event.verify"), f"aionostr Event.is_ephemeral is not [20000, 30000): {consts} {ops}", text="is_ephemeral"))
    node, text = gc_sql_text(program)
    m = re.search(r"kind\s*(>=|>)\s*(\d+)\s+and\s+kind\s*(<=|<)\s*(\d+)", text, re.I)
    if m:
        lo = int(m.group(2)) + (1 if m.group(1) == ">" else 0)
        hi = int(m.group(4)) + (1 if m.group(3) == "<=" else 0)
        if (lo, hi) == (LO, HI):
            ctx.ok(rid, node, "SQL GC: kind >= 20000 and kind < 30000")
        else:
            ctx.bad(finding_at(P, rid, node, f"SQL GC deletes kinds [{lo}, {hi}) but ephemeral kinds are [20000, 30000): regular or replaceable events are collected, or ephemeral ones are kept"))
    else:
        ctx.bad(finding_at(P, rid, node, "SQL GC statement has no `kind >= a and kind < b` range"))
    kc = program.func("nostr_relay.storage.kv:KVGarbageCollector.collect")
    from ..lib import expand_aliases

    # every call INDEXES['kinds'].to_key(<const>) that can be reached through named temporaries / helper arguments
    consts = []
    for c in ast.walk(kc):
        if isinstance(c, ast.Call):
            ec = expand_aliases(kc, c)
            if isinstance(ec, ast.Call) and ast.unparse(ec.func) == "INDEXES['kinds'].to_key" and ec.args and isinstance(ec.args[0], ast.Constant):
                consts.append(ec.args[0].value)
    consts = sorted(set(consts))
    if consts and consts[0] == LO and consts[-1] in (HI - 1, HI) and len(consts) == 2:
        ctx.ok(rid, kc, f"LMDB GC: kind walk from to_key({LO}) to to_key({consts[-1]})")
    else:
        ctx.bad(finding_func(P, rid, kc, f"LMDB GC walks the kind index over {consts}: not the ephemeral range [20000, 30000)", text="def collect(...) :: kind range"))


def _top_level_split(expr: str, word: str) -> list:
    parts, depth, cur = [], 0, ""
    toks = re.split(r"(\(|\)|\s+)", expr)
    for t in toks:
        if t == "(":
            depth += 1
        elif t == ")":
            depth -= 1
        if depth == 0 and t.upper() == word:
            parts.append(cur)
            cur = ""
        else:
            cur += t
    parts.append(cur)
    return [p.strip() for p in parts if p.strip()]


def rule_sources(program, ctx):
    rid = ctx.rule(
        "C17.sources",
        "deletion sources: SQL - `DELETE FROM events WHERE events.id IN (SELECT … WHERE <d1> OR <d2>)` with exactly two disjuncts, d1 mentioning only "
        "kind, d2 = tags.name = 'expiration' AND tags.value <cmp> now; LMDB - `to_del.append` only inside `for key in cursor.iternext` loops that "
        "`break` on `key > end`, end keys not padded; deletion via storage.delete_event",
        floor=4,
    )
    node, text = gc_sql_text(program)
    m = re.search(r"WHERE\s+(.*)\)\s*$", text.strip(), re.S | re.I)
    inner = re.search(r"SELECT\s+events\.id\s+FROM\s+events.*?WHERE\s+(.*)\)\s*$", text.strip(), re.S | re.I)
    if not inner:
        ctx.bad(finding_at(P, rid, node, "SQL GC statement no longer has the form DELETE … WHERE events.id IN (SELECT events.id … WHERE …)"))
    else:
        disj = _top_level_split(inner.group(1), "OR")
        if len(disj) != 2:
            ctx.bad(finding_at(P, rid, node, f"the SQL GC selects rows by {len(disj)} alternative conditions (must be exactly the ephemeral range and the expiration test): {disj[2:] or disj}"))
        else:
            d1, d2 = disj
            ids1 = set(re.findall(r"[a-z_][a-z_\.]*", re.sub(r"'[^']*'", "", d1.lower()))) - {"and", "or", "not"}
            if ids1 <= {"kind", "events.kind"}:
                ctx.ok(rid, node, f"SQL GC disjunct 1: {d1}")
            else:
                ctx.bad(finding_at(P, rid, node, f"first GC condition mentions {sorted(ids1)}: not a pure kind range"))
            if re.search(r"tags\.name\s*=\s*'expiration'", d2) and re.search(r"\bAND\b", d2, re.I) and "tags.value" in d2 and "%NOW%" in d2 and not re.search(r"\bOR\b", d2, re.I):
                ctx.ok(rid, node, f"SQL GC disjunct 2: {' '.join(d2.split())}")
            else:
                ctx.bad(finding_at(P, rid, node, f"second GC condition `{' '.join(d2.split())}` is not `tags.name = 'expiration' AND <tags.value vs %NOW%>`: events without an expired expiration tag are collected"))
    # %NOW% substituted by the current integer time
    qc = program.func("nostr_relay.storage.db:QueryGarbageCollector.collect")
    rep = next((c for c in ast.walk(qc) if isinstance(c, ast.Call) and isinstance(c.func, ast.Attribute) and c.func.attr == "replace" and c.args and isinstance(c.args[0], ast.Constant) and c.args[0].value == "%NOW%"), None)
    from ..lib import expand_aliases
    if rep is not None and ast.unparse(expand_aliases(qc, rep.args[1])) in ("str(int(time()))",):
        ctx.ok(rid, rep, "%NOW% <- str(int(time()))")
    else:
        ctx.bad(finding_func(P, rid, qc, "the GC statement's %NOW% is not replaced by str(int(time()))", text="def collect(...) :: now"))
    kc = program.func("nostr_relay.storage.kv:KVGarbageCollector.collect")
    gcc = program.cls("nostr_relay.storage.kv:KVGarbageCollector")

    def walks_in(fn):
        return [l for l in walk_no_nested(fn) if isinstance(l, ast.For) and "iternext" in ast.unparse(l.iter)]

    helpers = {name: f for name, f in gcc.methods.items() if f is not kc and walks_in(f)}
    inline = walks_in(kc)
    helper_calls = [c for c in walk_no_nested(kc) if isinstance(c, ast.Call) and isinstance(c.func, ast.Attribute) and dotted(c.func.value) in ("self", "KVGarbageCollector") and c.func.attr in helpers]
    if len(inline) + len(helper_calls) != 2:
        raise AnalysisError(f"KVGarbageCollector.collect: expected two range walks (kind range, expiration range), found {len(inline)} inline + {len(helper_calls)} helper calls")
    for c in ast.walk(kc):
        if isinstance(c, ast.Call) and isinstance(c.func, ast.Attribute) and c.func.attr in ("append", "add", "extend") and dotted(c.func.value) == "to_del":
            from_helper = c.func.attr == "extend" and c.args and c.args[0] in helper_calls
            if any(a in inline for a in ancestors(c)) or from_helper:
                ctx.ok(rid, c, "to_del filled from a bounded range walk")
            else:
                ctx.bad(finding_at(P, rid, c, "an id enters the GC's deletion list outside the two range walks"))
    for fn in [kc] + list(helpers.values()):
        for l in walks_in(fn):
            brk = [n for n in l.body if isinstance(n, ast.If) and any(isinstance(b, ast.Break) or type(b).__name__ == "RegionExit" for b in n.body)]
            first = l.body[0] if l.body else None
            good = brk and brk[0] is first and isinstance(brk[0].test, ast.Compare) and isinstance(brk[0].test.ops[0], (ast.Gt, ast.GtE)) and isinstance(l.target, ast.Name) and dotted(brk[0].test.left) == l.target.id
            if not good:
                ctx.bad(finding_at(P, rid, l, "a GC range walk has no leading `if key > end: break`: it runs into the neighbouring index / unexpired values"))
                continue
            ctx.ok(rid, brk[0], f"{qual_of(l)}: range walk stops at `{ast.unparse(brk[0].test)}` before collecting")
            cmp_ = brk[0].test.comparators[0]
            if not isinstance(cmp_, ast.Name):
                ecmp = expand_aliases(fn, cmp_)
                if isinstance(ecmp, ast.BinOp) and isinstance(ecmp.op, ast.Add):
                    ctx.bad(finding_at(P, rid, brk[0], f"the range walk's end key is padded (`{ast.unparse(cmp_)[:50]}`): the walk becomes inclusive of every key that merely starts with the end value"))
                continue
            bound = cmp_.id
            for s2 in walk_no_nested(fn):
                padded = (isinstance(s2, ast.AugAssign) and dotted(s2.target) == bound) or (
                    isinstance(s2, ast.Assign) and any(dotted(t) == bound for t in s2.targets) and isinstance(s2.value, ast.BinOp) and isinstance(s2.value.op, ast.Add))
                if padded:
                    ctx.bad(finding_at(P, rid, s2, f"the range walk's end key `{bound}` is padded (`{norm(s2, 50)}`): the walk becomes inclusive of every key that merely starts with the end value - "
                                       "for the expiration walk that collects events expiring exactly now or whose (longer) expiration starts with the digits of now"))
    for s in walk_no_nested(kc):
        if isinstance(s, ast.Assign) and isinstance(s.targets[0], ast.Name) and s.targets[0].id in ("start", "end"):
            v = expand_aliases(kc, s.value)
            if not (isinstance(v, ast.Call) and ast.unparse(v.func).endswith(".to_key")):
                ctx.bad(finding_at(P, rid, s, f"GC range bound `{s.targets[0].id}` is `{ast.unparse(v)[:60]}`, not a plain to_key(...): a padded end key also collects values that merely start with "
                                   "the digits of now (an expiration far in the future) or equal now"))
    exp_calls = set()
    for c in ast.walk(kc):
        if isinstance(c, ast.Call):
            ec = expand_aliases(kc, c)
            if isinstance(ec, ast.Call) and ast.unparse(ec.func) == "INDEXES['tags'].to_key" and "'expiration'" in ast.unparse(ec):
                exp_calls.add(ast.unparse(ec))
    want = {"INDEXES['tags'].to_key(('expiration', '0'))", "INDEXES['tags'].to_key(('expiration', str(int(time()))))"}
    if exp_calls == want:
        ctx.ok(rid, kc, "expiration walk: from ('expiration','0') to ('expiration', str(int(time())))")
    else:
        ctx.bad(finding_func(P, rid, kc, f"LMDB expiration walk bounds are {sorted(exp_calls)}", text="def collect(...) :: expiration bounds"))
    if any(isinstance(c, ast.Call) and call_name(c) == "self.storage.delete_event" for c in ast.walk(kc)):
        ctx.ok(rid, kc, "collected ids are deleted through storage.delete_event (writer thread, all indexes)")
    else:
        ctx.bad(finding_func(P, rid, kc, "collected ids are not deleted through storage.delete_event", text="def collect(...) :: delete"))


def rule_order(program, ctx):
    rid = ctx.rule(
        "C17.order",
        "ordering domain: tags.value is TEXT and LMDB tag keys are byte strings; `value < '<now>'` is lexicographic, which equals numeric order only "
        "for equal digit counts. Accepted: an equal-length guard next to the text comparison, or CAST together with a digits-only guard; rejected: bare "
        "text comparison (10-digit vs 11-digit values compare wrongly) and bare CAST (malformed values become 0 = expired)",
        floor=1,
    )
    node, text = gc_sql_text(program)
    d2 = text[text.lower().find("tags.name"):]
    cast = re.search(r"CAST\s*\(\s*tags\.value", d2, re.I)
    digits = re.search(r"(GLOB|~|REGEXP|SIMILAR)", d2, re.I)
    length = re.search(r"length\s*\(\s*tags\.value\s*\)", d2, re.I)
    if cast and not digits:
        ctx.bad(finding_at(P, rid, node, "the SQL GC compares CAST(tags.value AS INTEGER) with now without a digits-only guard: a malformed expiration (\"never\", an ISO date) "
                           "casts to 0 and the event is collected although it has no well-formed expired timestamp", text="cast"))
    elif not cast and not length:
        ctx.bad(finding_at(P, rid, node, "the SQL GC compares the TEXT column tags.value with the text of now: the comparison is lexicographic, so '10000000000' (year 2286) < '17…' is "
                           "collected now while '999999999' (2001) never is", label="SQL expiration compared as text"))
    else:
        ctx.ok(rid, node, "SQL expiration comparison is numeric with a well-formedness guard / equal-length text")
    kc = program.func("nostr_relay.storage.kv:KVGarbageCollector.collect")
    from ..lib import expand_aliases
    lex = [s for s in walk_no_nested(kc) if isinstance(s, ast.Assign) and "('expiration', str(int(time())))" in ast.unparse(s.value)]
    guard = any(isinstance(n, ast.Call) and call_name(n) in ("len", "int") and "key" in ast.unparse(n) for l in walk_no_nested(kc) if isinstance(l, ast.For) for n in ast.walk(l))
    if lex and not guard:
        ctx.bad(finding_at(P, rid, lex[0], "the LMDB GC bounds the expiration walk by the byte string of now: keys are ordered lexicographically, so an 11-digit expiration sorts before a "
                           "10-digit now and is collected, a 9-digit one never is", label="LMDB expiration bound compared lexicographically"))
    else:
        ctx.ok(rid, kc, "LMDB expiration walk compares decoded numbers / equal-length values")


def rule_bypass(program, ctx):
    rid = ctx.rule(
        "C17.bypass",
        "LMDBStorage.add_event: `writer_queue.put((\"add\", …))` only on the edge where `event.is_ephemeral` is false; the broadcast (post_save) on every "
        "validated path (ephemeral events are delivered live, never stored)",
        floor=1,
    )
    fn = program.func("nostr_relay.storage.kv:LMDBStorage.add_event")
    cfg = cfg_of(fn)
    passes = test_edges(cfg, lambda e, p: dotted(e) == "event.is_ephemeral" and not p)
    enq = cfg.stmt_nodes(lambda s: any(call_name(c).endswith("writer_queue.put") for c in own_calls(s)), kinds=("stmt",))
    for e in enq:
        if must_pass(cfg, passes, [e]):
            ctx.bad(finding_at(P, rid, cfg.ast_of(e), "ephemeral events are enqueued for storage on LMDB: they become queryable until a GC pass"))
        else:
            ctx.ok(rid, cfg.ast_of(e), "enqueue only if not event.is_ephemeral")
    # no other function of the LMDB backend hands events to the writer (e.g. an override that parks ephemeral events for the other workers)
    kvm = program.module("nostr_relay.storage.kv")
    for c in ast.walk(kvm.tree):
        if isinstance(c, ast.Call) and call_name(c).endswith("writer_queue.put") and c.args and isinstance(c.args[0], ast.Tuple) and c.args[0].elts and getattr(c.args[0].elts[0], "value", None) == "add":
            q = qual_of(c)
            if q != "LMDBStorage.add_event":
                from ..lib import guard_atoms
                f2 = next((a for a in ancestors(c) if isinstance(a, (ast.FunctionDef, ast.AsyncFunctionDef))), None)
                atoms = guard_atoms(c, stop=f2) if f2 is not None else []
                if not any("is_ephemeral" in ast.unparse(e) and not pol for e, pol in atoms):
                    ctx.bad(finding_at(P, rid, c, f"{q} enqueues events for storage without excluding ephemeral kinds: they are written to LMDB (kind 29999 is beyond the collector's end key and is never removed)"))
    ps = cfg.stmt_nodes(lambda s: any(call_name(c) == "self.post_save" for c in own_calls(s)), kinds=("stmt",))
    eph_only = test_edges(cfg, lambda e, p: dotted(e) == "event.is_ephemeral")
    for p_ in ps:
        guards = [a for a in ancestors(cfg.ast_of(p_)) if isinstance(a, ast.If) and "is_ephemeral" in ast.unparse(a.test)]
        if guards:
            ctx.bad(finding_at(P, rid, cfg.ast_of(p_), "the broadcast depends on is_ephemeral: ephemeral (or only non-ephemeral) events are not delivered live"))
        else:
            ctx.ok(rid, cfg.ast_of(p_), "broadcast independent of is_ephemeral")


def rule_driver(program, ctx):
    rid = ctx.rule(
        "C17.driver",
        "start_garbage_collector is called only from BaseStorage.start_garbage_collector <- web.start_mainprocess_tasks (main process only); "
        "BaseGarbageCollector passes swallow_exceptions=True to Periodic; collect() runs inside the storage's transaction",
        floor=2,
    )
    callers = []
    for m, c in all_calls(program):
        if call_name(c).endswith("start_garbage_collector"):
            callers.append((qual_of(c), c))
    for q, c in callers:
        if q in ("BaseStorage.start_garbage_collector", "start_mainprocess_tasks"):
            ctx.ok(rid, c, f"GC started from {q}")
        else:
            ctx.bad(finding_at(P, rid, c, f"the garbage collector is started from {q}: more than one collector / in worker processes"))
    init = program.func("nostr_relay.storage.base:BaseGarbageCollector.__init__")
    if any(isinstance(c, ast.Call) and "super().__init__" in ast.unparse(c.func) and any(k.arg == "swallow_exceptions" and isinstance(k.value, ast.Constant) and k.value.value is True for k in c.keywords) for c in ast.walk(init)):
        ctx.ok(rid, init, "Periodic(..., swallow_exceptions=True): a failing pass does not end the collector")
    else:
        ctx.bad(finding_func(P, rid, init, "the collector no longer swallows exceptions per pass: one failure ends garbage collection for good", text="def __init__(...) :: swallow"))
    # defaults first, keyword options last: KVGarbageCollector passes async_transaction=False through kwargs
    sets = [s for s in init.body if isinstance(s, ast.Assign) and dotted(s.targets[0]) == "self.async_transaction"]
    loop = next((l for l in init.body if isinstance(l, ast.For) and "kwargs" in ast.unparse(l.iter) and any(isinstance(c, ast.Call) and call_name(c) == "setattr" for c in ast.walk(l))), None)
    if sets and loop is not None and all(init.body.index(s) < init.body.index(loop) for s in sets):
        ctx.ok(rid, loop, "keyword options are applied after the defaults (async_transaction=False of the LMDB collector survives)")
    else:
        ctx.bad(finding_func(P, rid, init, "BaseGarbageCollector.__init__ applies its defaults after the keyword options: the LMDB collector's async_transaction=False is overwritten, "
                             "run_once enters `async with` on an LMDB transaction, raises TypeError (swallowed) and nothing is ever collected", text="def __init__(...) :: option order"))
    kinit = program.func("nostr_relay.storage.kv:KVGarbageCollector.__init__")
    if any(isinstance(c, ast.Call) and any(k.arg == "async_transaction" and isinstance(k.value, ast.Constant) and k.value.value is False for k in c.keywords) for c in ast.walk(kinit)):
        ctx.ok(rid, kinit, "KVGarbageCollector passes async_transaction=False")
    else:
        ctx.bad(finding_func(P, rid, kinit, "KVGarbageCollector no longer selects the synchronous transaction form", text="def __init__(...) :: async_transaction"))
    ro = program.func("nostr_relay.storage.base:BaseGarbageCollector.run_once")
    if sum(1 for w in ast.walk(ro) if isinstance(w, (ast.With, ast.AsyncWith)) and "self.storage.db.begin()" in ast.unparse(w.items[0].context_expr)) >= 1:
        ctx.ok(rid, ro, "collect() runs inside storage.db.begin()")
    else:
        ctx.bad(finding_func(P, rid, ro, "collect() no longer runs inside the storage's transaction", text="def run_once(...)"))


def rule_index(program, ctx):
    rid = ctx.rule(
        "C17.index",
        "the collectors find expiring events only through the tag index: DBStorage.process_tags and TagIndex.convert iterate the whole `event.tags` (no slice, cap or "
        "early exit) and index every tag named 'expiration'",
        floor=2,
    )
    for q in ("nostr_relay.storage.db:DBStorage.process_tags", "nostr_relay.storage.kv:TagIndex.convert"):
        fn = program.func(q)
        loops = [l for l in walk_no_nested(fn) if isinstance(l, ast.For) and "tags" in ast.unparse(l.iter) and "event" in ast.unparse(l.iter)]
        idx = [l for l in loops if "expiration" in ast.unparse(l)]
        if not idx:
            ctx.bad(finding_func(P, rid, fn, f"{fn.name} no longer indexes 'expiration' tags", text=f"def {fn.name}(...) :: expiration"))
            continue
        l = idx[0]
        if ast.unparse(l.iter) != "event.tags":
            ctx.bad(finding_at(P, rid, l, f"{fn.name} indexes only `{ast.unparse(l.iter)}`, not every tag: an expiration tag outside that range gets no index entry and the event is never collected"))
        elif any(isinstance(b, (ast.Break, ast.Return)) for b in ast.walk(l)):
            ctx.bad(finding_at(P, rid, l, f"{fn.name} can stop indexing before the last tag"))
        else:
            ctx.ok(rid, l, f"{fn.name}: every tag of event.tags is considered, 'expiration' included")


def rule_complete(program, ctx):
    rid = ctx.rule(
        "C17.complete",
        "LMDB collector completeness (every ephemeral / expired event is removed): each range walk is entered when the range start exists (never only when "
        "`cursor.set_range(start)` is false); inside a walk every key that does not take the `break` reaches a statement that collects `key[-32:].hex()`; "
        "every collected id is handed to `await self.storage.delete_event(id)` in a loop over the whole list that is not skipped when the list is non-empty",
        floor=2,
    )
    from ..lib import expand_aliases, must_pass, test_edges, NORMAL
    kc = program.func("nostr_relay.storage.kv:KVGarbageCollector.collect")
    gcc = program.cls("nostr_relay.storage.kv:KVGarbageCollector")
    fns = [kc] + [f for name, f in gcc.methods.items() if f is not kc and any(isinstance(l, ast.For) and "iternext" in ast.unparse(l.iter) for l in walk_no_nested(f))]
    for fn in fns:
        cfg = cfg_of(fn)

        def neg_range(expr, pol):
            return isinstance(expr, ast.Call) and call_name(expr).endswith(".set_range") and not pol

        neg = test_edges(cfg, neg_range)
        for l in [l for l in walk_no_nested(fn) if isinstance(l, ast.For) and "iternext" in ast.unparse(l.iter)]:
            if not isinstance(l.target, ast.Name):
                continue
            key = l.target.id
            heads = [n for n in cfg.nodes_of(l) if cfg.kind_of(n) == "loop"]
            if not heads:
                continue
            if not must_pass(cfg, neg, heads, kinds=NORMAL):
                ctx.bad(finding_at(P, rid, l, "the range walk is entered only when cursor.set_range(start) found nothing: the range is never collected"))
                continue
            inside = {id(x) for x in ast.walk(l)}
            want = f"{key}[-32:].hex()"

            # names bound to the id inside the walk: v = key[-32:].hex(), the only store to v in the loop
            id_assigns = {}
            for st in ast.walk(l):
                if isinstance(st, ast.Assign) and len(st.targets) == 1 and isinstance(st.targets[0], ast.Name):
                    id_assigns.setdefault(st.targets[0].id, []).append(st)
            id_names = {v: sts[0] for v, sts in id_assigns.items() if len(sts) == 1 and ast.unparse(sts[0].value) == want}

            def is_id(e):
                if ast.unparse(expand_aliases(fn, e)) == want:
                    return True
                return isinstance(e, ast.Name) and e.id in id_names

            def collects(st):
                if id(st) not in inside or isinstance(st, (ast.For, ast.While, ast.If, ast.Try, ast.With)):
                    return False
                for c in ast.walk(st):
                    if isinstance(c, ast.Call) and isinstance(c.func, ast.Attribute) and c.func.attr in ("append", "add") and c.args and is_id(c.args[0]):
                        return True
                    if isinstance(c, ast.Yield) and c.value is not None and is_id(c.value):
                        return True
                return False

            coll = cfg.stmt_nodes(collects, kinds=("stmt",))
            brk = cfg.stmt_nodes(lambda st: (isinstance(st, ast.Break) or type(st).__name__ == "RegionExit") and id(st) in inside, kinds=("stmt",))
            if not coll:
                ctx.bad(finding_at(P, rid, l, f"the range walk collects nothing of the form `{want}` (the event id is the last 32 bytes of the index key)"))
                continue
            bad_path = []
            for h in heads:
                starts = list(cfg.succ(h, {"t"}))
                bad_path = cfg.find_path(starts, [h], avoid_nodes=set(coll) | set(brk), kinds=NORMAL)
                if bad_path:
                    break
            if not bad_path:
                for cn in coll:
                    for c in ast.walk(cfg.ast_of(cn)):
                        if isinstance(c, ast.Call) and isinstance(c.func, ast.Attribute) and c.func.attr in ("append", "add") and c.args and isinstance(c.args[0], ast.Name) and c.args[0].id in id_names:
                            an = cfg.nodes_of(id_names[c.args[0].id])
                            for h in heads:
                                stale = cfg.find_path(list(cfg.succ(h, {"t"})), [cn], avoid_nodes=set(an), kinds=NORMAL)
                                if stale:
                                    bad_path = stale
            if bad_path:
                ctx.bad(finding_at(P, rid, l, "a key inside the range can pass through the walk without being collected: " + " -> ".join(cfg.describe_path(bad_path)[:5])))
            else:
                ctx.ok(rid, l, f"{qual_of(l)}: every in-range key is collected as `{want}`")
    # deletion of the whole list
    cfg = cfg_of(kc)
    dels = [c for c in walk_no_nested(kc) if isinstance(c, ast.Call) and call_name(c) == "self.storage.delete_event"]
    good = False
    for c in dels:
        loop = next((a for a in ancestors(c) if isinstance(a, (ast.For, ast.AsyncFor))), None)
        awaited = isinstance(getattr(c, "_parent", None), ast.Await)
        if loop is None or not isinstance(loop.target, ast.Name) or not c.args or dotted(c.args[0]) != loop.target.id or not awaited:
            continue
        src = ast.unparse(loop.iter)
        if src not in ("to_del", "set(to_del)", "list(to_del)", "sorted(to_del)", "sorted(set(to_del))"):
            ctx.bad(finding_at(P, rid, loop, f"the deletion loop iterates `{src}`, not the whole collected list"))
            good = None
            continue
        if any(isinstance(b, (ast.Break, ast.Return)) for b in ast.walk(loop)):
            ctx.bad(finding_at(P, rid, loop, "the deletion loop can stop before the last collected id"))
            good = None
            continue

        def neg_list(expr, pol):
            if isinstance(expr, ast.Name) and expr.id == "to_del":
                return not pol
            if isinstance(expr, ast.Call) and call_name(expr) == "len" and expr.args and dotted(expr.args[0]) == "to_del":
                return not pol
            if isinstance(expr, ast.Compare) and len(expr.ops) == 1 and "to_del" in ast.unparse(expr.left) and isinstance(expr.comparators[0], ast.Constant) and expr.comparators[0].value == 0:
                return (isinstance(expr.ops[0], ast.Gt) and not pol) or (isinstance(expr.ops[0], ast.Eq) and pol)
            return False

        heads = [n for n in cfg.nodes_of(loop) if cfg.kind_of(n) == "loop"]
        if heads and not must_pass(cfg, test_edges(cfg, neg_list), heads, kinds=NORMAL):
            ctx.bad(finding_at(P, rid, loop, "the deletion loop runs only when the collected list is empty"))
            good = None
            continue
        if good is False:
            good = True
            ctx.ok(rid, loop, "every collected id is awaited through storage.delete_event")
    if good is False:
        ctx.bad(finding_func(P, rid, kc, "collect() no longer awaits storage.delete_event(id) for each id of the collected list", text="def collect(...) :: delete loop"))


def rule_tagrows_kept(program, ctx, prop=P, rid="C17.tagrows"):
    ctx.rule(
        rid,
        "the collector finds an expiring event through its ('expiration', value) row in `tags` and nowhere else, so tag rows disappear only together with their event "
        "(ON DELETE CASCADE): no statement in the package deletes from `tags` directly - a maintenance command that empties the table and re-indexes *some* events leaves "
        "the others with their NIP-40 tag in events.tags but invisible to every later pass",
        floor=1,
    )
    n = 0
    for m in program.modules.values():
        if not m.name.startswith("nostr_relay") or ".alembic." in m.name:
            continue
        for c in ast.walk(m.tree):
            hit = None
            if isinstance(c, ast.Call) and isinstance(c.func, ast.Attribute) and c.func.attr == "delete" and ("TagTable" in ast.unparse(c.func.value) or "'tags'" in ast.unparse(c.func.value) or '"tags"' in ast.unparse(c.func.value)):
                hit = c
            if isinstance(c, ast.Call) and call_name(c).split(".")[-1] == "delete" and c.args and ("TagTable" in ast.unparse(c.args[0]) or "tags" in ast.unparse(c.args[0]).lower().split("event")[0]) and "Event" not in ast.unparse(c.args[0]):
                hit = c
            if isinstance(c, ast.Constant) and isinstance(c.value, str) and re.search(r"DELETE\s+FROM\s+tags\b", c.value, re.I):
                hit = c
            if hit is not None:
                n += 1
                fn_ = next((a for a in ancestors(hit) if isinstance(a, (ast.FunctionDef, ast.AsyncFunctionDef))), None)
                ctx.bad(finding_at(prop, rid, hit, f"{m.name.split('.')[-1]}.{fn_.name if fn_ else '<module>'} deletes rows of `tags` directly: events whose expiration row is gone are never "
                                   "collected again"))
    if not n:
        ctx.ok(rid, program.module("nostr_relay.storage.db").tree, "tag rows are only removed by the cascade of their event")


def rule_gc_statement(program, ctx, prop=P, rid="C17.statement"):
    ctx.rule(
        rid,
        "one pass removes everything that is collectable: QueryGarbageCollector.collect executes its single DELETE once with only %NOW% substituted - no LIMIT / batch "
        "placeholder (a row limit inside the sub-select counts joined tag rows, not events: the 'short batch = done' loop stops with expired events left), no loop around "
        "the execute; and DBStorage.pre_save never answers for an ephemeral event by itself (returning None skips the insert *and* the broadcast: the event is neither "
        "delivered nor - where the collector is off - is that a reason not to deliver it)",
        floor=2,
    )
    qc = program.func("nostr_relay.storage.db:QueryGarbageCollector.collect")
    reps = [c for c in ast.walk(qc) if isinstance(c, ast.Call) and isinstance(c.func, ast.Attribute) and c.func.attr == "replace" and c.args and isinstance(c.args[0], ast.Constant)]
    for c in reps:
        if c.args[0].value == "%NOW%":
            ctx.ok(rid, c, "%NOW% substituted")
        else:
            ctx.bad(finding_at(prop, rid, c, f"the GC statement gets a second substitution `{c.args[0].value}`: the audited statement deletes every collectable event in one pass"))
    ci = program.cls("nostr_relay.storage.db:QueryGarbageCollector")
    for st in ci.node.body:
        if isinstance(st, ast.Assign) and any(isinstance(t, ast.Name) and t.id == "query" for t in st.targets):
            txt = " ".join(str(k.value) for k in ast.walk(st.value) if isinstance(k, ast.Constant) and isinstance(k.value, str))
            if re.search(r"\bLIMIT\b|%LIMIT%", txt, re.I):
                ctx.bad(finding_at(prop, rid, st, "the GC statement carries a LIMIT: rows of the events-tags join are limited, not events - collectable events survive the pass"))
            else:
                ctx.ok(rid, st, "GC statement without LIMIT")
    execs = [c for c in ast.walk(qc) if isinstance(c, ast.Call) and isinstance(c.func, ast.Attribute) and c.func.attr == "execute"]
    for c in execs:
        if any(isinstance(a, (ast.While, ast.For, ast.AsyncFor)) for a in ancestors(c) if any(a is y for y in ast.walk(qc))):
            ctx.bad(finding_at(prop, rid, c, "the GC statement is executed in a loop with its own stop condition: a pass can end with collectable events left"))
        else:
            ctx.ok(rid, c, "executed once per pass")
    ps = program.func("nostr_relay.storage.db:DBStorage.pre_save")
    for r in [r for r in walk_no_nested(ps) if isinstance(r, ast.Return)]:
        from ..lib import guard_atoms
        for e, pol in guard_atoms(r, stop=ps):
            if any(isinstance(x, ast.Attribute) and x.attr == "is_ephemeral" for x in ast.walk(e)) and (r.value is None or (isinstance(r.value, ast.Constant) and not r.value.value)):
                ctx.bad(finding_at(prop, rid, r, "pre_save refuses an ephemeral event (returns a falsy verdict under a test of `is_ephemeral`): add_event then skips the insert and the "
                                   "broadcast - ephemeral events must be delivered to the subscriptions open at that moment, whatever the collector's configuration"))


def run(program, ctx):
    from ..lib import rule_awaited

    rule_awaited(program, ctx, P, ANCHORS)
    rule_index(program, ctx)
    rule_range(program, ctx)
    rule_sources(program, ctx)
    rule_complete(program, ctx)
    rule_order(program, ctx)
    rule_bypass(program, ctx)
    rule_driver(program, ctx)
    from . import c01, c07

    # 'together with all their index entries': the SQL collector deletes event rows only - the tag rows go through ON DELETE CASCADE, which needs the per-connection pragma
    c07.rule_cascade(program, ctx, prop=P, rid="C17.cascade")
    c01.rule_tagindex(program, ctx, prop=P, rid="C17.tagindex")
    c07.rule_enqueue(program, ctx, prop=P, rid="C17.enqueue")
    from . import c08

    c08.rule_deletes(program, ctx, prop=P, rid="C17.deletes")
    # a storage subclass (recipe) must not keep ephemeral / expiring events away from the base class' post_save bookkeeping
    c07.rule_overrides(program, ctx, prop=P, rid="C17.overrides")
    rule_gc_statement(program, ctx)
    rule_tagrows_kept(program, ctx)
    # the collector finds expiring events through their tag rows: process_tags failures must abort the insert, not be swallowed
    c07.rule_sqlregion(program, ctx, prop=P, rid="C17.txn")
    ctx.note("informational: the LMDB GC's end key to_key(29999) is a strict prefix of every kind-29999 key, so `key > end` stops before them; moot today because "
             "ephemeral events are never written to LMDB (C17.bypass)")
    ctx.not_decided += [
        "the frame condition as behaviour (LEFT JOIN semantics, range scans over real keys)",
        "clock handling and events whose expiration equals the pass time",
    ]


DB = "nostr_relay/storage/db.py"
KV = "nostr_relay/storage/kv.py"

MUTANTS = [
    M("c17-cli-prunes-tags", "nostr_relay/cli.py", "            async for event in storage.run_single_query(query):", "            await cursor.execute(storage.TagTable.delete())\n            async for event in storage.run_single_query(query):", "C17.tagrows"),
    M("c17-gc-in-loop", "nostr_relay/storage/db.py", "        return max(0, result.rowcount)", "        while result.rowcount > 100:\n            result = await conn.execute(sa.text(self.query.replace(\"%NOW%\", str(int(time())))))\n        return max(0, result.rowcount)", "C17.statement"),
    M("c17-recipe-skips-super", "nostr_relay/recipe/homeserver.py", "    async def post_save(self, event, **kwargs):\n        await super().post_save(event, **kwargs)", "    async def post_save(self, event, **kwargs):\n        if event.kind == 22242:\n            return\n        await super().post_save(event, **kwargs)", "C17.overrides"),
    M("c17-sql-index-capped", DB, "            tags = set()\n            for tag in event.tags:\n                if tag[0] in (\"delegation\", \"expiration\"):", "            tags = set()\n            for tag in event.tags[:32]:\n                if tag[0] in (\"delegation\", \"expiration\"):", "C17.index"),
    M("c17-kv-index-no-expiration", KV, "                len(tag[0]) == 1 or tag[0] in (\"expiration\", \"delegation\")", "                len(tag[0]) == 1 or tag[0] in (\"delegation\",)", "C17.index"),
    M("c17-sql-index-break", DB, "                elif len(tag[0]) == 1:\n                    tags.add((tag[0], tag[1] if len(tag) > 1 else \"\"))\n", "                elif len(tag[0]) == 1:\n                    tags.add((tag[0], tag[1] if len(tag) > 1 else \"\"))\n                if len(tags) >= 64:\n                    break\n", "C17.index"),
    M("c17-sql-range-40000", DB, "(kind >= 20000 and kind < 30000)", "(kind >= 20000 and kind < 40000)", "C17.range", canary=True),
    M("c17-kv-start-30000", KV, "start = INDEXES[\"kinds\"].to_key(20000)", "start = INDEXES[\"kinds\"].to_key(10000)", "C17.range"),
    M("c17-sql-third-disjunct", DB, "                (tags.name = 'expiration' AND tags.value < '%NOW%')\n", "                (tags.name = 'expiration' AND tags.value < '%NOW%')\n            OR\n                (kind = 4 AND created_at < %NOW% - 86400)\n", "C17.sources"),
    M("c17-sql-expiration-or", DB, "(tags.name = 'expiration' AND tags.value < '%NOW%')", "(tags.name = 'expiration' OR tags.value < '%NOW%')", "C17.sources"),
    M("c17-kv-append-outside", KV, "        cursor.close()\n        if to_del:", "        to_del.extend(getattr(self, \"extra_ids\", []))\n        cursor.close()\n        if to_del:", "C17.sources"),
    M("c17-kv-no-break", KV, "                if key > end:\n                    break\n", "", "C17.sources", count=2),
    M("c17-kv-end-padded", KV, "        end = INDEXES[\"tags\"].to_key((\"expiration\", str(int(time()))))", "        end = INDEXES[\"tags\"].to_key((\"expiration\", str(int(time())))) + b\"\\xff\"", "C17.sources"),
    M("c17-sql-bare-cast", DB, "tags.value < '%NOW%'", "CAST(tags.value AS INTEGER) < %NOW%", "C17.order"),
    M("c17-kv-ephemeral-stored", KV, "        if not event.is_ephemeral:\n            self.writer_queue.put((\"add\", [event]))", "        self.writer_queue.put((\"add\", [event]))", "C17.bypass"),
    M("c17-no-swallow", "nostr_relay/storage/base.py", "super().__init__(self.collect_interval, swallow_exceptions=True)", "super().__init__(self.collect_interval)", "C17.driver"),
]
EQUIVS = []

# functions whose syntactic mutants are used for the thorough tier's sensitivity figure (sa/automut.py)
ANCHORS = [
    "nostr_relay.storage.db:QueryGarbageCollector.collect",
    "nostr_relay.storage.kv:KVGarbageCollector.collect",
    "nostr_relay.storage.kv:LMDBStorage.add_event",
]
