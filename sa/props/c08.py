"""C08 - only an event's author can delete it (NIP-09).

  C08.sql     every DELETE on the events table in the closure of DBStorage.add_event carries, and-ed into its WHERE, a comparison of
              the row's pubkey with the incoming event's pubkey - or deletes exactly the ids read from a SELECT that carries it;
              the kind-5 site also pins the id to an element of the event's own "e" tags
  C08.kv      the kind-5 branch of WriterThread._post_save deletes only ids yielded by a scan of INDEXES["authors"] for
              [event.pubkey] that are members of the set built from the event's own "e" tags; one malformed reference must not cancel
              the other deletions
  C08.reach   delete_event (no author check) and _delete_event are called only from their fixed owner set - never from the
              connection handler's call graph
"""
from __future__ import annotations

import ast
import re

from ..cfg import cfg_of
from ..core import (
    AnalysisError,
    ancestors,
    call_name,
    dotted,
    enclosing_stmt,
    finding_at,
    finding_func,
    norm,
    own_calls,
    qual_of,
    walk_no_nested,
)
from ..lib import all_calls, func_of, must_pass, stores_of, strip_await, test_edges
from ..selftest import E, M

P = "C08"


def _conjuncts(e) -> list:
    """operands of a `&` chain (SQLAlchemy and_)"""
    if isinstance(e, ast.BinOp) and isinstance(e.op, ast.BitAnd):
        return _conjuncts(e.left) + _conjuncts(e.right)
    if isinstance(e, ast.Call) and call_name(e) in ("sa.and_", "and_"):
        out = []
        for a in e.args:
            out += _conjuncts(a)
        return out
    return [e]


def _where_of(call: ast.Call):
    """for `<something>.where(X)` chains return all X; else []"""
    out = []
    c = call
    while isinstance(c, ast.Call) and isinstance(c.func, ast.Attribute):
        if c.func.attr == "where":
            out += list(c.args)
        c = c.func.value
    return out


def _is_delete_events(expr) -> bool:
    txt = ast.unparse(expr)
    return ("EventTable.delete()" in txt or "sa.delete(self.EventTable)" in txt or "delete(self.EventTable)" in txt)


def _pubkey_conj(conj, ev="event") -> bool:
    for c in conj:
        if isinstance(c, ast.Compare) and len(c.ops) == 1 and isinstance(c.ops[0], ast.Eq):
            l, r = ast.unparse(c.left), ast.unparse(c.comparators[0])
            if l.endswith(".c.pubkey") and f"{ev}.pubkey" in r:
                return True
            if r.endswith(".c.pubkey") and f"{ev}.pubkey" in l:
                return True
    return False


def rule_sql(program, ctx):
    rid = ctx.rule(
        "C08.sql",
        "DELETE sites on the events table in DBStorage.pre_save / post_save / process_tags: WHERE is a `&`-conjunction containing "
        "`c.pubkey == bytes.fromhex(event.pubkey)`; or `c.id == <id>` with <id> taken from the rows of a SELECT whose WHERE contains that "
        "conjunct; `|` anywhere in a delete's WHERE is rejected; the kind-5 delete also has `c.id == bytes.fromhex(<e-tag value>)`",
        floor=1,
    )
    for q in ("pre_save", "post_save", "process_tags"):
        fn = program.func(f"nostr_relay.storage.db:DBStorage.{q}")
        # expression-valued assignments: name -> expr
        exprs = {}
        for s in walk_no_nested(fn):
            if isinstance(s, ast.Assign) and isinstance(s.targets[0], ast.Name):
                exprs.setdefault(s.targets[0].id, []).append(s.value)
        sites = []
        for c in walk_no_nested(fn):
            if isinstance(c, ast.Call) and call_name(c).endswith(".execute") and c.args:
                a = c.args[0]
                cands = [a]
                if isinstance(a, ast.Name):
                    cands = exprs.get(a.id, [])
                for e in cands:
                    if _is_delete_events(e):
                        sites.append((c, e))
        for c, e in sites:
            from ..lib import expand_aliases
            wh = []
            for sub in ast.walk(e):
                if isinstance(sub, ast.Call) and isinstance(sub.func, ast.Attribute) and sub.func.attr == "where":
                    wh += [expand_aliases(fn, a) for a in sub.args]
            if not wh:
                ctx.bad(finding_at(P, rid, c, "DELETE on events without a WHERE clause"))
                continue
            if any(isinstance(n, ast.BinOp) and isinstance(n.op, ast.BitOr) for w in wh for n in ast.walk(w)) or any(isinstance(n, ast.Call) and call_name(n) in ("sa.or_", "or_") for w in wh for n in ast.walk(w)):
                ctx.bad(finding_at(P, rid, c, "the DELETE's WHERE contains a disjunction: rows of other authors / unreferenced rows can match"))
                continue
            conj = []
            for w in wh:
                conj += _conjuncts(w)
            if _pubkey_conj(conj):
                extra = ""
                if q == "process_tags":
                    # id pinned to an e-tag value of this event
                    pinned = False
                    for cj in conj:
                        if isinstance(cj, ast.Compare) and ast.unparse(cj.left).endswith(".c.id") and isinstance(cj.ops[0], ast.Eq):
                            idsrc = cj.comparators[0]
                            # (aliases are already expanded) the id is <loop variable>[1] of a loop over event.tags guarded by an 'e' test
                            for sub_ in ast.walk(idsrc):
                                if isinstance(sub_, ast.Subscript) and isinstance(sub_.value, ast.Name) and isinstance(sub_.slice, ast.Constant) and sub_.slice.value == 1:
                                    tv = sub_.value.id
                                    loop = next((a for a in ancestors(c) if isinstance(a, ast.For) and isinstance(a.target, ast.Name) and a.target.id == tv), None)
                                    if loop is None or ast.unparse(loop.iter) != "event.tags":
                                        continue
                                    body_txt = ast.unparse(loop)
                                    guarded = any(isinstance(a, ast.If) and "'e'" in ast.unparse(expand_aliases(fn, a.test)) for a in ancestors(c) if any(x is loop for x in ancestors(a))) \
                                        or any(isinstance(n_, ast.If) and "'e'" in ast.unparse(expand_aliases(fn, n_.test)) and any(isinstance(b_, ast.Continue) for b_ in n_.body) for n_ in loop.body)
                                    if guarded:
                                        pinned = True
                    if not pinned:
                        ctx.bad(finding_at(P, rid, c, "the kind-5 DELETE is not pinned to `id == <value of one of this event's \"e\" tags>`: it removes events the deletion does not reference"))
                        continue
                    kind_guard = any(isinstance(a, ast.If) and "EventKind.DELETE" in ast.unparse(a.test) or (isinstance(a, ast.If) and "kind == 5" in ast.unparse(a.test)) for a in ancestors(c))
                    if not kind_guard:
                        ctx.bad(finding_at(P, rid, c, "the e-tag DELETE is not restricted to kind-5 events"))
                        continue
                    extra = " and id == own e-tag, kind 5 only"
                ctx.ok(rid, c, f"DBStorage.{q}: DELETE … WHERE pubkey == event.pubkey{extra}")
                continue
            # delete by id read from an author-constrained SELECT
            okid = False

            def derives(e, seen=(), bound=()):
                """the value of e is (part of) a row of `result`, or a collection of such parts - by any chain of local assignments,
                loop / comprehension targets, attribute or item access and row-wrapping calls (map, list, sorted, NT._make, .first()…)"""
                if isinstance(e, ast.Constant) and e.value is None:
                    return True
                if isinstance(e, ast.Name):
                    if e.id == "result" or e.id in bound:
                        return True
                    if e.id in seen:
                        return True
                    binds = stores_of(fn, e.id)
                    if not binds:
                        return False
                    seen2 = seen + (e.id,)
                    for d in binds:
                        if isinstance(d, (ast.For, ast.AsyncFor)):
                            if not derives(d.iter, seen2, bound):
                                return False
                        elif isinstance(d, ast.Assign):
                            if isinstance(d.value, (ast.List, ast.Set)) and not d.value.elts:
                                continue
                            if isinstance(d.value, ast.Call) and call_name(d.value) in ("list", "set") and not d.value.args:
                                continue
                            if not derives(d.value, seen2, bound):
                                return False
                        else:
                            return False
                    # a list that is filled by append/add: every element derives
                    for cc in walk_no_nested(fn):
                        if isinstance(cc, ast.Call) and isinstance(cc.func, ast.Attribute) and dotted(cc.func.value) == e.id:
                            if cc.func.attr in ("append", "add") and cc.args and not derives(cc.args[0], seen2, bound):
                                return False
                            if cc.func.attr in ("extend", "update") and cc.args and not derives(cc.args[0], seen2, bound):
                                return False
                            if cc.func.attr == "insert":
                                return False
                    return True
                if isinstance(e, (ast.Subscript, ast.Attribute)):
                    return derives(e.value, seen, bound)
                if isinstance(e, ast.Starred):
                    return derives(e.value, seen, bound)
                if isinstance(e, (ast.ListComp, ast.SetComp, ast.GeneratorExp)):
                    b2 = bound
                    for g in e.generators:
                        if not derives(g.iter, seen, b2):
                            return False
                        b2 = b2 + tuple(n.id for n in ast.walk(g.target) if isinstance(n, ast.Name))
                    return derives(e.elt, seen, b2)
                if isinstance(e, ast.Call):
                    nm = call_name(e)
                    if nm in ("map",) and len(e.args) == 2:
                        return derives(e.args[1], seen, bound)
                    if nm in ("list", "tuple", "sorted", "iter", "reversed", "set") and e.args:
                        return derives(e.args[0], seen, bound)
                    if nm.endswith("._make") and e.args:
                        return derives(e.args[0], seen, bound)
                    if isinstance(e.func, ast.Attribute) and e.func.attr in ("first", "fetchall", "all", "fetchone", "scalars", "mappings") and not e.args:
                        return derives(e.func.value, seen, bound)
                    if e.args and all(isinstance(a, ast.Starred) for a in e.args) and isinstance(e.func, ast.Name) and e.func.id[:1].isupper():
                        return all(derives(a, seen, bound) for a in e.args)
                    return False
                return False

            def from_rows(name, seen=()):
                return derives(ast.Name(id=name, ctx=ast.Load()))

            def elems_from_rows(lname, seen):
                return derives(ast.Name(id=lname, ctx=ast.Load()))

            for cj in conj:
                idvar = None
                if isinstance(cj, ast.Compare) and ast.unparse(cj.left).endswith(".c.id") and isinstance(cj.ops[0], ast.Eq) and isinstance(cj.comparators[0], ast.Name):
                    idvar = ("scalar", cj.comparators[0].id)
                if isinstance(cj, ast.Call) and ast.unparse(cj.func).endswith(".c.id.in_") and cj.args and isinstance(cj.args[0], ast.Name):
                    idvar = ("list", cj.args[0].id)
                if idvar is None:
                    continue
                rows_ok = from_rows(idvar[1]) if idvar[0] == "scalar" else elems_from_rows(idvar[1], ())
                # `result` comes from executing a select with the pubkey conjunct
                sel_ok = False
                for d in stores_of(fn, "result"):
                    if isinstance(d, ast.Assign) and isinstance(strip_await(d.value), ast.Call) and call_name(strip_await(d.value)).endswith(".execute"):
                        arg = strip_await(d.value).args[0]
                        for e2 in (exprs.get(arg.id, []) if isinstance(arg, ast.Name) else [arg]):
                            w2 = []
                            for sub in ast.walk(e2):
                                if isinstance(sub, ast.Call) and isinstance(sub.func, ast.Attribute) and sub.func.attr == "where":
                                    w2 += list(sub.args)
                            cj2 = []
                            for w in w2:
                                cj2 += _conjuncts(w)
                            if "select" in ast.unparse(e2) and _pubkey_conj(cj2) and not any(isinstance(n, ast.BinOp) and isinstance(n.op, ast.BitOr) for w in w2 for n in ast.walk(w)):
                                sel_ok = True
                okid = rows_ok and sel_ok and len(conj) == 1
            if okid:
                ctx.ok(rid, c, f"DBStorage.{q}: DELETE by id read from a SELECT … WHERE pubkey == event.pubkey")
            else:
                ctx.bad(finding_at(P, rid, c, f"DBStorage.{q}: a DELETE on events is not constrained to the incoming event's author (no `pubkey == event.pubkey` conjunct and the id "
                                   "does not come from an author-constrained SELECT): events of other authors can be removed"))
        if q != "post_save" and not sites:
            ctx.bad(finding_func(P, rid, fn, f"no DELETE found in {q}", text=f"def {q}(...)"))


def rule_kv(program, ctx):
    rid = ctx.rule(
        "C08.kv",
        "WriterThread._post_save, kind-5 branch: `_delete_event` sits inside `for id in <scanner>` where the scanner is "
        "INDEXES[\"authors\"].scanner(txn, [event.pubkey], …), under `if id in ids`, ids built from tag[1] of the event's own 'e' tags; a "
        "malformed reference is skipped individually (the id set is not emptied by a handler)",
        floor=1,
    )
    fn = program.func("nostr_relay.storage.kv:WriterThread._post_save")
    branch = None
    for n in ast.walk(fn):
        if isinstance(n, ast.If) and ("EventKind.DELETE" in ast.unparse(n.test) or "kind == 5" in ast.unparse(n.test)):
            branch = n
    if branch is None:
        ctx.bad(finding_func(P, rid, fn, "no kind-5 branch in the LMDB writer: deletions are never applied", text="def _post_save(...) :: kind 5"))
        return
    body = ast.Module(body=branch.body, type_ignores=[])
    dels = [c for c in ast.walk(body) if isinstance(c, ast.Call) and call_name(c) == "self._delete_event"]
    if not dels:
        ctx.bad(finding_at(P, rid, branch, "the kind-5 branch deletes nothing"))
    idset = None
    for d in dels:
        loop = next((a for a in ancestors(d) if isinstance(a, ast.For)), None)
        wth = next((a for a in ancestors(d) if isinstance(a, ast.With)), None)
        scan_ok = False
        if wth is not None:
            for it in wth.items:
                ce = it.context_expr
                if isinstance(ce, ast.Call) and ast.unparse(ce.func) == "INDEXES['authors'].scanner" and len(ce.args) >= 2 and ast.unparse(ce.args[1]) == "[event.pubkey]" and isinstance(it.optional_vars, ast.Name) and loop is not None and dotted(loop.iter) == it.optional_vars.id:
                    scan_ok = True
        if not scan_ok:
            ctx.bad(finding_at(P, rid, d, "the deletion candidates do not come from a scan of the deleter's own author index (INDEXES['authors'], [event.pubkey]): events of other authors can be removed"))
            continue
        ctx.ok(rid, d, "candidates = INDEXES['authors'].scanner(txn, [event.pubkey], …)")
        cfgk = cfg_of(fn)
        lv = loop.target.id if isinstance(loop.target, ast.Name) else None
        found_sets = []

        def member(expr, pol, lv=lv):
            if isinstance(expr, ast.Compare) and len(expr.ops) == 1 and dotted(expr.left) == lv and isinstance(expr.comparators[0], ast.Name):
                if (isinstance(expr.ops[0], ast.In) and pol) or (isinstance(expr.ops[0], ast.NotIn) and not pol):
                    found_sets.append(expr.comparators[0].id)
                    return True
            return False

        passes = test_edges(cfgk, member)
        dn = cfgk.nodes_of(enclosing_stmt(d))
        if not passes or must_pass(cfgk, passes, dn):
            ctx.bad(finding_at(P, rid, d, "the scan result is deleted without `id in <referenced ids>`: every older event of the author is removed, referenced or not"))
            continue
        idset = found_sets[0]
        ctx.ok(rid, d, f"guarded by membership of the scanned id in `{idset}`")
    if idset:
        srcs = [s for s in ast.walk(body) if isinstance(s, ast.Assign) and any(isinstance(t, ast.Name) and t.id == idset for t in s.targets)]
        srcs += [c for c in ast.walk(body) if isinstance(c, ast.Call) and isinstance(c.func, ast.Attribute) and c.func.attr in ("add", "append") and dotted(c.func.value) == idset]
        good = False
        from ..lib import expand_aliases, guard_atoms
        for s in srcs:
            txt = ast.unparse(expand_aliases(fn, s) if isinstance(s, ast.Call) else s)
            if "event.tags" in txt and "'e'" in txt and "[1]" in txt:
                good = True
            elif isinstance(s, ast.Call) and "[1]" in txt:
                loop = next((a for a in ancestors(s) if isinstance(a, ast.For) and ast.unparse(a.iter) == "event.tags" and isinstance(a.target, ast.Name)), None)
                if loop is not None and f"{loop.target.id}[1]" in txt and any("'e'" in ast.unparse(e) and pol for e, pol in guard_atoms(s, stop=loop)):
                    good = True
        if good:
            ctx.ok(rid, srcs[0], f"`{idset}` is built from tag[1] of this event's 'e' tags")
        else:
            ctx.bad(finding_at(P, rid, branch, f"`{idset}` is not built from the deletion event's own 'e' tags", text="id set"))
        # all-or-nothing handlers
        for s in srcs:
            if isinstance(s, ast.Assign) and isinstance(s.value, (ast.List, ast.Tuple, ast.Set)) and not s.value.elts or (isinstance(s, ast.Assign) and isinstance(s.value, ast.Call) and call_name(s.value) == "set" and not s.value.args and any(isinstance(a, ast.ExceptHandler) for a in ancestors(s))):
                h = next((a for a in ancestors(s) if isinstance(a, ast.ExceptHandler)), None)
                if h is not None:
                    ctx.bad(finding_at(P, rid, h, f"one malformed 'e' reference empties the whole id set (`{norm(h)}` → `{norm(s)}`): the deletion event is stored and served, "
                                       "but none of the author's correctly referenced older events is removed"))


def rule_reach(program, ctx):
    rid = ctx.rule(
        "C08.reach",
        "who-may-call: `.delete_event(` (deletes by bare id, no author check) only from the garbage collector, cli purge, FOAF refresh and "
        "set_identified_pubkey; `_delete_event(` only from WriterThread.run/_post_save; EventTable deletes only in the add_event closure, "
        "delete_event and the GC",
        floor=4,
    )
    owners = {
        "delete_event": {"KVGarbageCollector.collect", "purge", "FOAFBuilder.save", "BaseStorage.set_identified_pubkey"},
        "_delete_event": {"WriterThread.run", "WriterThread._post_save"},
    }
    for m, c in all_calls(program):
        if isinstance(c.func, ast.Attribute) and c.func.attr in owners:
            q = qual_of(c)
            if q in owners[c.func.attr]:
                ctx.ok(rid, c, f"{c.func.attr} called from owner {q}")
            else:
                ctx.bad(finding_at(P, rid, c, f"`{c.func.attr}` (no author check) is called from {q}, outside its owner set {sorted(owners[c.func.attr])}"))
    for m, c in all_calls(program):
        if m.name == "nostr_relay.storage.db" and isinstance(c.func, ast.Attribute) and c.func.attr == "execute" and c.args and _is_delete_events(c.args[0] if not isinstance(c.args[0], ast.Name) else ast.Constant(value="")):
            q = qual_of(c)
            if q not in ("DBStorage.pre_save", "DBStorage.post_save", "DBStorage.process_tags", "DBStorage.delete_event") and not (q.split(".")[-1].startswith("_") and f"nostr_relay.storage.db:{q}" not in __import__("sa.normalize", fromlist=["known_funcs"]).known_funcs()):  # new private helpers are inlined into their (audited) callers
                ctx.bad(finding_at(P, rid, c, f"events are deleted from {q}, outside the audited delete sites"))


def rule_served(program, ctx, prop=P, rid="C08.served"):
    ctx.rule(
        rid,
        "ViewEventResource.on_get: the event that is served was read from storage.get_event(event_id) during this request (every binding of the served "
        "variable is that await) - a process-local cache keeps serving an event after its author's deletion was accepted",
        floor=1,
    )
    fn = program.func("nostr_relay.web:ViewEventResource.on_get")
    served = None
    for s in walk_no_nested(fn):
        if isinstance(s, ast.Assign) and any(dotted(t) in ("resp.media", "resp.text", "resp.data") for t in s.targets):
            names = [n.id for n in ast.walk(s.value) if isinstance(n, ast.Name) and n.id not in ("resp", "req", "self")]
            served = (s, names[0] if names else None)
    if served is None or served[1] is None:
        ctx.bad(finding_func(prop, rid, fn, "/e/<id> no longer publishes an event read in this request", text="def on_get(...) :: served"))
        return
    st, var = served
    binds = stores_of(fn, var)
    okb = bool(binds)
    for b in binds:
        v = strip_await(b.value) if isinstance(b, ast.Assign) else None
        if not (isinstance(v, ast.Call) and call_name(v) == "self.storage.get_event" and v.args and dotted(v.args[0]) == "event_id"):
            okb = False
            ctx.bad(finding_at(prop, rid, b, f"the served event can come from `{norm(b, 60)}` instead of storage.get_event(event_id): a stale copy outlives the event's deletion"))
    if okb:
        ctx.ok(rid, st, f"served `{var}` is always `await self.storage.get_event(event_id)` of this request")
    ci = program.cls("nostr_relay.web:ViewEventResource")
    for s in ci.node.body:
        if isinstance(s, ast.Assign) and isinstance(s.value, (ast.Dict, ast.Call)) and "cache" in ast.unparse(s).lower():
            ctx.bad(finding_at(prop, rid, s, "ViewEventResource keeps a class-level cache of events"))


def rule_until(program, ctx, prop=P, rid="C08.until"):
    from ..lib import expand_aliases

    ctx.rule(
        rid,
        "sibling agreement on the scanner's upper bound: Index.scanner treats `until` as inclusive (it skips keys only when ts > until) and the kind-5 branch of "
        "WriterThread._post_save scans the author index with until = event.created_at - 1 (everything strictly older than the deletion request). An exclusive scanner "
        "with the same call leaves the referenced event that is exactly one second older in place",
        floor=2,
    )
    sc = program.func("nostr_relay.storage.kv:Index.scanner")
    ops = []
    # the parameter and every local that holds its byte rendering (`until = until.to_bytes(4, 'big')`, under whatever name)
    names = {"until"}
    for _ in range(2):
        for s_ in ast.walk(sc):
            if isinstance(s_, ast.Assign) and isinstance(s_.value, ast.Call) and isinstance(s_.value.func, ast.Attribute) and s_.value.func.attr == "to_bytes" \
                    and dotted(s_.value.func.value) in names:
                names |= {t.id for t in s_.targets if isinstance(t, ast.Name)}
    for c in ast.walk(sc):
        if isinstance(c, ast.Compare) and len(c.ops) == 1 and dotted(c.comparators[0]) in names and isinstance(c.left, ast.Name):
            ops.append(c)
    if not ops:
        ctx.bad(finding_func(prop, rid, sc, "Index.scanner no longer compares key timestamps with `until`", text="def scanner(...) :: until"))
        return
    inclusive = all(isinstance(c.ops[0], ast.Gt) for c in ops)
    exclusive = all(isinstance(c.ops[0], ast.GtE) for c in ops)
    for c in ops:
        ctx.ok(rid, c, f"scanner skips when `{ast.unparse(c)}`") if inclusive or exclusive else ctx.bad(finding_at(prop, rid, c, "mixed until comparisons in the scanner"))
    ps = program.func("nostr_relay.storage.kv:WriterThread._post_save")
    n = 0
    for w in ast.walk(ps):
        if isinstance(w, ast.Call) and call_name(w).endswith(".scanner") and "authors" in ast.unparse(w.func) and "authorkinds" not in ast.unparse(w.func):
            n += 1
            u = next((k.value for k in w.keywords if k.arg == "until"), None)
            us = ast.unparse(expand_aliases(ps, u)) if u is not None else None
            good = (inclusive and us in ("event.created_at - 1", "event.created_at")) or (exclusive and us in ("event.created_at", "event.created_at + 1"))
            if good:
                ctx.ok(rid, w, f"deletion scan until={us} with an {'inclusive' if inclusive else 'exclusive'} scanner")
            else:
                ctx.bad(finding_at(prop, rid, w, f"the deletion scan passes until={us} to a scanner whose upper bound is {'inclusive' if inclusive else 'exclusive'}: referenced events of the "
                                   "author created one second before the deletion request are not visited and survive it"))
    if not n:
        ctx.bad(finding_func(prop, rid, ps, "the kind-5 branch no longer scans the author index", text="def _post_save(...) :: scan"))


def rule_whole_event(program, ctx, prop=P, rid="C08.whole"):
    ctx.rule(
        rid,
        "a deletion request is carried out in full: DBStorage.post_save hands process_tags the very event it was given (parameter not re-bound, no trimmed copy) - "
        "process_tags is also where the kind-5 DELETEs are issued, so an 'index only the first N tags' cap silently ignores the e tags after position N",
        floor=1,
    )
    ps = program.func("nostr_relay.storage.db:DBStorage.post_save")
    ev = ps.args.args[1].arg
    reb = [s_ for s_ in stores_of(ps, ev)]
    for s_ in reb:
        ctx.bad(finding_at(prop, rid, s_, f"post_save re-binds `{ev}` (`{ast.unparse(s_)[:50]}`): process_tags then works on another object than the accepted event"))
    calls = [c for c in ast.walk(ps) if isinstance(c, ast.Call) and call_name(c).endswith("process_tags")]
    for c in calls:
        if len(c.args) >= 2 and dotted(c.args[1]) == ev and not reb:
            ctx.ok(rid, c, f"process_tags(connection, {ev})")
        elif len(c.args) < 2 or dotted(c.args[1]) != ev:
            ctx.bad(finding_at(prop, rid, c, f"process_tags is given `{ast.unparse(c.args[1])[:40] if len(c.args) > 1 else ''}`, not the accepted event"))
    if not calls:
        ctx.bad(finding_func(prop, rid, ps, "post_save no longer calls process_tags", text="def post_save(...) :: process_tags"))


def rule_deletes(program, ctx, prop=P, rid="C08.deletes"):
    ctx.rule(
        rid,
        "who-may-delete (SQL): rows of `events` are deleted only by pre_save / post_save / process_tags / delete_event (author-checked or explicit), and by the garbage "
        "collector's single audited statement (kind range / expiration). A second GC statement - e.g. 'late deletions' joined on the e tags of stored kind-5 events - is a "
        "new deletion path; an unqualified column in its sub-select silently drops the author check",
        floor=3,
    )
    m = program.module("nostr_relay.storage.db")
    owners = {"DBStorage.pre_save", "DBStorage.post_save", "DBStorage.process_tags", "DBStorage.delete_event"}
    for c in ast.walk(m.tree):
        if isinstance(c, ast.Call) and _is_delete_events(c):
            q = qual_of(c)
            if q in owners:
                ctx.ok(rid, c, f"events DELETE in {q}")
            else:
                ctx.bad(finding_at(prop, rid, c, f"{q} deletes rows of `events` outside the audited deletion paths"))
    gcc = program.cls("nostr_relay.storage.db:QueryGarbageCollector")
    texts = [(n, n.value) for n in ast.walk(gcc.node) if isinstance(n, ast.Constant) and isinstance(n.value, str) and re.search(r"DELETE\s+FROM\s+events", n.value, re.I)]
    if len(texts) == 1:
        ctx.ok(rid, texts[0][0], "the collector has one DELETE statement")
    else:
        for n, _ in texts[1:]:
            ctx.bad(finding_at(prop, rid, n, "the garbage collector carries a second DELETE FROM events statement: a deletion path that is not the kind-range / expiration sweep "
                               "(and not the author-checked NIP-09 path of process_tags)"))
        if not texts:
            raise AnalysisError("GC statement not found")
    col = gcc.methods.get("collect")
    ex = [c for c in ast.walk(col) if isinstance(c, ast.Call) and call_name(c).endswith(".execute")] if col is not None else []
    if len(ex) == 1:
        ctx.ok(rid, ex[0], "collect() executes one statement")
    elif col is not None:
        ctx.bad(finding_at(prop, rid, ex[1] if len(ex) > 1 else col, f"QueryGarbageCollector.collect executes {len(ex)} statements"))


def run(program, ctx):
    from ..lib import rule_awaited

    rule_awaited(program, ctx, P, ANCHORS)
    rule_served(program, ctx)
    rule_sql(program, ctx)
    rule_kv(program, ctx)
    rule_reach(program, ctx)
    rule_until(program, ctx)
    rule_deletes(program, ctx)
    from . import c07

    c07.rule_sqlregion(program, ctx, prop=P, rid="C08.txn")
    c07.rule_overrides(program, ctx, prop=P, rid="C08.overrides")
    rule_whole_event(program, ctx)
    # the deletion and its DELETEs are one transaction only while the driver opens transactions at all
    c07.rule_isolation(program, ctx, prop=P, rid="C08.isolation")
    from . import c10

    # the kind-5 branch decides authorship by scanning the authors index: that index must list an event under its signer only
    c10.rule_injective(program, ctx, prop=P, rid="C08.index")
    ctx.not_decided += [
        "that the author-index scan yields only that author's keys (scanner byte arithmetic)",
        "completeness: that all referenced older events of the author are removed (beyond the no-all-or-nothing rule)",
    ]


DB = "nostr_relay/storage/db.py"
KV = "nostr_relay/storage/kv.py"

MUTANTS = [
    M("c08-process-tags-gets-copy", "nostr_relay/storage/db.py", "            await self.process_tags(connection, event)\n", "            await self.process_tags(connection, __import__(\"copy\").copy(event))\n", "C08.whole"),
    M("c08-served-cache", "nostr_relay/web.py", "        try:\n            event = await self.storage.get_event(event_id)\n        except ValueError:",
      "        try:\n            event = self._seen.get(event_id) if hasattr(self, \"_seen\") else None\n            if event is None:\n                event = await self.storage.get_event(event_id)\n        except ValueError:", "C08.served"),
    M("c08-served-other-id", "nostr_relay/web.py", "            event = await self.storage.get_event(event_id)\n        except ValueError:", "            event = await self.storage.get_event(event_id.strip().lower()[:64])\n        except ValueError:", "C08.served"),
    M("c08-kv-all-or-nothing", KV, "            ids = set()\n            for tag in event.tags:\n                if tag[0] == \"e\" and len(tag) > 1:\n                    try:\n                        ids.add(bytes_from_hex(tag[1]))\n                    except (ValueError, TypeError):\n                        # not an event id: skip this reference only\n                        pass\n",
      "            try:\n                ids = set(\n                    (bytes_from_hex(tag[1]) for tag in event.tags if tag[0] == \"e\")\n                )\n            except (IndexError, ValueError):\n                ids = []\n", "C08.kv"),
    M("c08-kv-any-tag", KV, "                if tag[0] == \"e\" and len(tag) > 1:\n                    try:\n                        ids.add", "                if len(tag) > 1:\n                    try:\n                        ids.add", "C08.kv"),
    M("c08-sql-no-pubkey", DB, "                        query = sa.delete(self.EventTable).where(\n                            (self.EventTable.c.pubkey == bytes.fromhex(event.pubkey))\n                            & (self.EventTable.c.id == bytes.fromhex(event_id))\n                        )",
      "                        query = sa.delete(self.EventTable).where(\n                            (self.EventTable.c.id == bytes.fromhex(event_id))\n                        )", "C08.sql", canary=True),
    M("c08-sql-or", DB, "                            (self.EventTable.c.pubkey == bytes.fromhex(event.pubkey))\n                            & (self.EventTable.c.id == bytes.fromhex(event_id))",
      "                            (self.EventTable.c.pubkey == bytes.fromhex(event.pubkey))\n                            | (self.EventTable.c.id == bytes.fromhex(event_id))", "C08.sql"),
    M("c08-sql-metadata-no-pubkey", DB, "                        (self.EventTable.c.pubkey == bytes.fromhex(event.pubkey))\n                        & (self.EventTable.c.kind == event.kind)\n                        & (self.EventTable.c.created_at < event.created_at)\n                    )\n                )\n            await self.process_tags",
      "                        (self.EventTable.c.kind == event.kind)\n                        & (self.EventTable.c.created_at < event.created_at)\n                    )\n                )\n            await self.process_tags", "C08.sql"),
    M("c08-sql-select-no-pubkey", DB, "                (self.EventTable.c.pubkey == bytes.fromhex(event.pubkey))\n                & (self.EventTable.c.kind == event.kind)\n                & (self.EventTable.c.created_at < event.created_at)\n            )\n            result = await conn.execute(query)",
      "                (self.EventTable.c.kind == event.kind)\n                & (self.EventTable.c.created_at < event.created_at)\n            )\n            result = await conn.execute(query)", "C08.sql"),
    M("c08-kv-ids-index", KV, "            with INDEXES[\"authors\"].scanner(\n                txn,\n                [event.pubkey],\n                until=event.created_at - 1,", "            with INDEXES[\"ids\"].scanner(\n                txn,\n                [i.hex() for i in ids],\n                until=event.created_at - 1,", "C08.kv"),
    M("c08-kv-no-membership", KV, "                    if event_id in ids:\n                        candidate = decode_event(get_event_data(txn, event_id))\n                        if candidate:\n                            self._delete_event(txn, candidate, log)\n                            counter[\"count\"] += 1",
      "                    candidate = decode_event(get_event_data(txn, event_id))\n                    if candidate:\n                        self._delete_event(txn, candidate, log)\n                        counter[\"count\"] += 1", "C08.kv"),
    M("c08-web-delete", "nostr_relay/web.py", "                elif command == \"CLOSE\":\n                    sub_id = str(message[1])\n                    await storage.unsubscribe(client_id, sub_id)",
      "                elif command == \"CLOSE\":\n                    sub_id = str(message[1])\n                    await storage.unsubscribe(client_id, sub_id)\n                    await storage.delete_event(sub_id)", "C08.reach"),
]
EQUIVS = []

# functions whose syntactic mutants are used for the thorough tier's sensitivity figure (sa/automut.py)
ANCHORS = [
    "nostr_relay.storage.db:DBStorage.process_tags",
    "nostr_relay.storage.db:DBStorage.pre_save",
    "nostr_relay.storage.db:DBStorage.post_save",
    "nostr_relay.storage.kv:WriterThread._post_save",
]
