"""C09 - replaceable events: newest kept, older superseded, everything else untouched (necessary conditions).

  C09.classes  both backends' supersede logic covers all four kind classes (0, 3, 10000-19999, 30000-39999); the range constants
               behind the predicates are read from aionostr
  C09.frame    every supersede delete is constrained to the same author, the same kind and strictly older created_at; the new event's own
               record is never a candidate
  C09.all      all older versions are superseded: no first()/break/LIMIT picks a single victim
  C09.dvalue   for 30000-39999 a candidate is deleted only if its d value equals the new event's; d values are compared by equality on
               normalised values (absent, bare and empty are one value) - no substring / str-as-container / LIKE
"""
from __future__ import annotations

import ast

from ..cfg import cfg_of
from ..core import (
    AnalysisError,
    ancestors,
    call_name,
    dotted,
    enclosing_stmt,
    finding_at,
    finding_func,
    norm,
    own_calls,
    qual_of,
    walk_no_nested,
)
from ..lib import NORMAL, must_pass, stores_of, strip_await, test_edges
from ..selftest import E, M
from .c08 import _conjuncts

P = "C09"
CLASSES = ("SET_METADATA", "CONTACTS", "is_replaceable", "is_paramaterized_replaceable")


def rule_classes(program, ctx):
    rid = ctx.rule(
        "C09.classes",
        "kind-class coverage: SQL (pre_save + post_save together) and LMDB (_post_save) each reference EventKind.SET_METADATA, "
        "EventKind.CONTACTS, is_replaceable and is_paramaterized_replaceable; aionostr defines the ranges [10000,20000) and [30000,40000)",
        floor=2,
    )
    sql = [program.func("nostr_relay.storage.db:DBStorage.pre_save"), program.func("nostr_relay.storage.db:DBStorage.post_save")]
    kv = [program.func("nostr_relay.storage.kv:WriterThread._post_save")]
    for name, fns in (("SQL", sql), ("LMDB", kv)):
        txt = " ".join(ast.unparse(f) for f in fns)
        missing = [c for c in CLASSES if c not in txt]
        if missing:
            ctx.bad(finding_func(P, rid, fns[0], f"{name} backend's supersede logic does not cover {missing}: older versions of those kinds accumulate", text=f"{name} :: {','.join(missing)}"))
        else:
            ctx.ok(rid, fns[0], f"{name}: all four replaceable classes handled")
    ev = program.module("aionostr.event")
    ranges = {}
    for fn in ast.walk(ev.tree):
        if isinstance(fn, ast.FunctionDef) and fn.name in ("is_replaceable", "is_paramaterized_replaceable", "is_ephemeral"):
            consts = sorted(k.value for k in ast.walk(fn) if isinstance(k, ast.Constant) and isinstance(k.value, int))
            ops = [type(o).__name__ for c in ast.walk(fn) if isinstance(c, ast.Compare) for o in c.ops]
            ranges[fn.name] = (consts, sorted(ops))
    want = {"is_replaceable": ([10000, 20000], ["GtE", "Lt"]), "is_paramaterized_replaceable": ([30000, 40000], ["GtE", "Lt"])}
    for k, v in want.items():
        if ranges.get(k) == v:
            ctx.ok(rid, ev.tree, f"aionostr {k}: [{v[0][0]}, {v[0][1]})")
        else:
            ctx.bad(finding_func(P, rid, program.func("aionostr.event:Event.verify"), f"aionostr Event.{k} is no longer the half-open range {v[0]}: got {ranges.get(k)}", text=k))


def _where_conj(expr, fn=None):
    from ..lib import expand_aliases, func_of

    fn = fn or func_of(expr)
    out = []
    if fn is not None:
        expr = expand_aliases(fn, expr)
    for sub in ast.walk(expr):
        if isinstance(sub, ast.Call) and isinstance(sub.func, ast.Attribute) and sub.func.attr == "where":
            for a in sub.args:
                out += _conjuncts(expand_aliases(fn, a) if fn is not None else a)
    return out


def _has(conj, col, rhs_contains, ops):
    for c in conj:
        if isinstance(c, ast.Compare) and len(c.ops) == 1 and isinstance(c.ops[0], ops):
            if ast.unparse(c.left).endswith(f".c.{col}") and rhs_contains in ast.unparse(c.comparators[0]):
                return True
    return False


def rule_frame_sql(program, ctx):
    rid = ctx.rule(
        "C09.frame",
        "frame conjuncts: the SQL candidate SELECT (pre_save) and the metadata DELETE (post_save) carry pubkey == event.pubkey & kind == event.kind & "
        "created_at < event.created_at; the LMDB scan is INDEXES['authorkinds'] over [(event.pubkey, event.kind)] with until=event.created_at and "
        "skips the new event's own id",
        floor=3,
    )
    ps = program.func("nostr_relay.storage.db:DBStorage.pre_save")
    sel = [s.value for s in walk_no_nested(ps) if isinstance(s, ast.Assign) and "where" in ast.unparse(s.value) and ("select" in ast.unparse(s.value) or (isinstance(s.targets[0], ast.Name) and s.targets[0].id in ast.unparse(s.value)))]
    if not sel:
        ctx.bad(finding_func(P, rid, ps, "pre_save no longer selects the older versions to supersede", text="def pre_save(...) :: select"))
    else:
        cj = []
        for e in sel:
            cj += _where_conj(e, ps)
        need = [("pubkey", "event.pubkey", (ast.Eq,)), ("kind", "event.kind", (ast.Eq,)), ("created_at", "event.created_at", (ast.Lt,))]
        miss = [n[0] for n in need if not _has(cj, *n)]
        disj = any(isinstance(n, ast.BinOp) and isinstance(n.op, ast.BitOr) for e in sel for n in ast.walk(e))
        extra = [c for c in cj if not any(_has([c], *n) for n in need)]
        if miss or disj:
            ctx.bad(finding_at(P, rid, sel[0], f"the candidate SELECT lacks {'a conjunctive ' if disj else ''}constraint on {miss or 'all three'}: events of another author/kind, or newer ones, can be superseded", text="select"))
        elif extra:
            ctx.bad(finding_at(P, rid, sel[-1], f"the candidate SELECT is narrowed by an extra condition `{ast.unparse(extra[0])[:70]}`: older versions that fail it are never candidates and stay "
                               "stored next to the newer version (the d value is compared in Python on the rows' own tags)", text="extra conjunct"))
        else:
            ctx.ok(rid, sel[0], "pre_save SELECT: exactly same pubkey & same kind & older")
    po = program.func("nostr_relay.storage.db:DBStorage.post_save")
    dels = [c.args[0] for c in walk_no_nested(po) if isinstance(c, ast.Call) and call_name(c).endswith(".execute") and c.args and "delete" in ast.unparse(c.args[0])]
    for e in dels:
        cj = _where_conj(e, po)
        need = [("pubkey", "event.pubkey", (ast.Eq,)), ("kind", "event.kind", (ast.Eq,)), ("created_at", "event.created_at", (ast.Lt,))]
        miss = [n[0] for n in need if not _has(cj, *n)]
        if miss:
            ctx.bad(finding_at(P, rid, e, f"the metadata DELETE lacks a constraint on {miss}", text="delete"))
        else:
            ctx.ok(rid, e, "post_save DELETE: same pubkey & same kind & older")
        guard = next((a for a in ancestors(e) if isinstance(a, ast.If) and "kind" in ast.unparse(a.test)), None)
        if guard is None or not ("SET_METADATA" in ast.unparse(guard.test) and "CONTACTS" in ast.unparse(guard.test)):
            ctx.bad(finding_at(P, rid, e, "the metadata DELETE is not restricted to kinds 0 and 3: regular events are removed", text="kinds"))
    if not dels:
        ctx.bad(finding_func(P, rid, po, "post_save no longer clears older kind-0/3 events", text="def post_save(...) :: delete"))
    # pre_save deletes exactly ids that came out of that SELECT
    for c in walk_no_nested(ps):
        if isinstance(c, ast.Call) and call_name(c).endswith(".execute") and c.args and "delete" in ast.unparse(c.args[0]):
            cj = _where_conj(c.args[0], ps)
            okid = False
            for x in cj:
                if isinstance(x, ast.Compare) and ast.unparse(x.left).endswith(".c.id") and isinstance(x.ops[0], ast.Eq) and isinstance(x.comparators[0], ast.Name):
                    okid = True
                if isinstance(x, ast.Call) and ast.unparse(x.func).endswith(".c.id.in_"):
                    okid = True
            if okid and len(cj) == 1:
                ctx.ok(rid, c, "pre_save DELETE by id of a selected candidate")
            else:
                ctx.bad(finding_at(P, rid, c, "pre_save deletes by something other than the id of a selected candidate"))
    # guard: only replaceable kinds
    top = next((n for n in ps.body if isinstance(n, ast.If)), None)
    if top is not None and "is_replaceable" in ast.unparse(top.test) and "is_paramaterized_replaceable" in ast.unparse(top.test):
        ctx.ok(rid, top, "pre_save acts on replaceable kinds only")
    else:
        ctx.bad(finding_func(P, rid, ps, "pre_save's supersede logic is not restricted to replaceable kinds", text="def pre_save(...) :: guard"))


def _in_replaceable_body(node) -> bool:
    """inside the *body* (not the elif/else) of an `if … is_replaceable …` statement"""
    prev = node
    for a in ancestors(node):
        if isinstance(a, ast.If) and "is_replaceable" in ast.unparse(a.test):
            if any(prev is s for s in a.body):
                return True
        prev = a
    return False


def rule_frame_kv(program, ctx):
    rid = "C09.frame"
    fn = program.func("nostr_relay.storage.kv:WriterThread._post_save")
    dels = [c for c in walk_no_nested(fn) if isinstance(c, ast.Call) and call_name(c) == "self._delete_event"]
    repl = [d for d in dels if _in_replaceable_body(d)]
    if not repl:
        ctx.bad(finding_func(P, rid, fn, "LMDB: no supersede deletion for replaceable kinds", text="def _post_save(...) :: supersede"))
    for d in repl:
        wth = next((a for a in ancestors(d) if isinstance(a, ast.With)), None)
        loop = next((a for a in ancestors(d) if isinstance(a, ast.For)), None)
        good = False
        if wth is not None and loop is not None:
            for it in wth.items:
                ce = it.context_expr
                if isinstance(ce, ast.Call) and ast.unparse(ce.func) == "INDEXES['authorkinds'].scanner" and len(ce.args) >= 2 and ast.unparse(ce.args[1]) == "[(event.pubkey, event.kind)]":
                    until = next((k.value for k in ce.keywords if k.arg == "until"), None)
                    if until is not None and ast.unparse(until) in ("event.created_at", "event.created_at - 1"):
                        good = True
        if good:
            ctx.ok(rid, d, "LMDB: candidates = authorkinds[(event.pubkey, event.kind)] until event.created_at")
        else:
            ctx.bad(finding_at(P, rid, d, "LMDB: supersede candidates are not the (same author, same kind, not newer) scan of INDEXES['authorkinds']"))
            continue
        # own id skipped
        # whatever the branch shape (early `continue`, nested if, conjunct): the deletion is guarded by `<scanned id> != <own id>`
        from ..lib import guard_atoms
        own = [s for s in walk_no_nested(fn) if isinstance(s, ast.Assign) and isinstance(s.targets[0], ast.Name) and ast.unparse(s.value) == "event.id_bytes"]
        own_names = {s.targets[0].id for s in own} | {"event.id_bytes"}
        lv = loop.target.id if isinstance(loop.target, ast.Name) else None
        skip = []
        for e, pol in guard_atoms(d, stop=loop):
            if isinstance(e, ast.Compare) and len(e.ops) == 1 and {dotted(e.left), dotted(e.comparators[0])} & own_names and lv in (dotted(e.left), dotted(e.comparators[0])):
                if (isinstance(e.ops[0], ast.NotEq) and pol) or (isinstance(e.ops[0], ast.Eq) and not pol):
                    skip.append(e)
        if skip and (own or "event.id_bytes" in ast.unparse(skip[0])):
            ctx.ok(rid, skip[0], "the new event's own record is skipped")
        else:
            ctx.bad(finding_at(P, rid, loop, "the scan (until = own created_at) includes the new event itself and it is not skipped: the event just written is deleted again", text="own id"))
        # all candidates: no unconditional break/return in the loop
        stops = [n for n in ast.walk(loop) if isinstance(n, (ast.Break, ast.Return))]
        rid2 = "C09.all"
        if stops:
            ctx.bad(finding_at(P, rid2, stops[0], "LMDB: the supersede loop stops after a deletion: with several older versions stored (out-of-order arrival) only one is removed"))
        else:
            ctx.ok(rid2, loop, "LMDB: every older candidate is deleted (no break)")


def rule_all_sql(program, ctx):
    rid = ctx.rule(
        "C09.all",
        "all victims: SQL pre_save must not take `.first()`/`.fetchone()`/LIMIT 1 of the candidates nor `break` out of the candidate loop; LMDB "
        "loop has no break/return",
        floor=1,
    )
    ps = program.func("nostr_relay.storage.db:DBStorage.pre_save")
    bad = False
    for c in walk_no_nested(ps):
        if isinstance(c, ast.Call) and isinstance(c.func, ast.Attribute) and c.func.attr in ("first", "fetchone", "scalar", "one", "one_or_none", "limit") and "result" in ast.unparse(c.func.value) or (isinstance(c, ast.Call) and isinstance(c.func, ast.Attribute) and c.func.attr == "limit"):
            bad = True
            ctx.bad(finding_at(P, rid, c, f"pre_save takes `.{c.func.attr}()` of the older versions: after an out-of-order arrival (created_at 10, 5, then 20) only one of the "
                               "older versions is superseded, the other stays stored next to the newest"))
    for l in walk_no_nested(ps):
        if isinstance(l, ast.For) and "result" in ast.unparse(l.iter):
            for b in ast.walk(l):
                if isinstance(b, ast.Break):
                    bad = True
                    ctx.bad(finding_at(P, rid, b, "pre_save breaks out of the candidate loop after the first match: other older versions with the same d value stay stored"))
    if not bad:
        ctx.ok(rid, ps, "SQL: every selected older version is deleted")


def rule_dvalue(program, ctx):
    rid = ctx.rule(
        "C09.dvalue",
        "d-value discipline: (a) string-as-container: has_tag(\"d\", X) / `in` with X provably a str is a substring test; (b) LMDB: the delete of "
        "a candidate is reachable only on edges where the event is not parameterized-replaceable (its d variable is None, assigned only in "
        "that else branch) or `d(candidate) == d(event)` held; (c) SQL: a candidate is marked for deletion only after `tag[1] == d_tag` or the "
        "empty-value test; no LIKE/startswith on d values",
        floor=2,
    )
    fn = program.func("nostr_relay.storage.kv:WriterThread._post_save")
    # (a)
    for c in ast.walk(fn):
        if isinstance(c, ast.Call) and isinstance(c.func, ast.Attribute) and c.func.attr == "has_tag" and len(c.args) >= 2:
            a1 = c.args[1]
            if not isinstance(a1, (ast.List, ast.Tuple, ast.Set, ast.ListComp, ast.SetComp)):
                ctx.bad(finding_at(P, rid, c, f"has_tag(\"d\", {ast.unparse(a1)}): the second argument is a container of acceptable values; a str makes `tag[1] in matches` a substring "
                                   "test - a new event with d=\"abc\" deletes the author's d=\"a\" and d=\"ab\" versions"))
    for sub in ast.walk(fn):
        if isinstance(sub, ast.Call) and isinstance(sub.func, ast.Attribute) and sub.func.attr in ("startswith", "endswith", "find") and "d_" in ast.unparse(sub):
            ctx.bad(finding_at(P, rid, sub, "d values compared by prefix/substring"))
    # (b)
    cfg = cfg_of(fn)
    dvar = None
    for s in walk_no_nested(fn):
        if isinstance(s, ast.Assign) and isinstance(s.value, ast.Constant) and s.value.value is None and isinstance(s.targets[0], ast.Name) and s.targets[0].id.startswith("d"):
            dvar = s.targets[0].id
        # conditional-expression spelling: d_tag = get_d_value(event) if event.is_paramaterized_replaceable else None
        if isinstance(s, ast.Assign) and isinstance(s.value, ast.IfExp) and isinstance(s.targets[0], ast.Name) and s.targets[0].id.startswith("d") \
                and any(isinstance(b, ast.Constant) and b.value is None for b in (s.value.body, s.value.orelse)):
            dvar = s.targets[0].id
    if dvar is None:
        ctx.bad(finding_func(P, rid, fn, "LMDB: the new event's d value is not tracked", text="def _post_save(...) :: d variable"))
        return
    none_sites_ok = True
    for s in stores_of(fn, dvar):
        if isinstance(s, ast.Assign) and isinstance(s.value, ast.IfExp):
            ie = s.value
            none_in_else = isinstance(ie.orelse, ast.Constant) and ie.orelse.value is None
            none_in_body = isinstance(ie.body, ast.Constant) and ie.body.value is None
            tt = ast.unparse(ie.test)
            okc = ("is_paramaterized_replaceable" in tt) and ((none_in_else and not isinstance(ie.test, ast.UnaryOp)) or (none_in_body and isinstance(ie.test, ast.UnaryOp) and isinstance(ie.test.op, ast.Not)))
            if (none_in_else or none_in_body) and not okc:
                none_sites_ok = False
                ctx.bad(finding_at(P, rid, s, f"`{dvar}` is None under `{tt[:60]}`: for a parameterized-replaceable event None means 'no d filter' and every older event of that author and kind is deleted"))
            continue
        if isinstance(s, ast.Assign) and isinstance(s.value, ast.Constant) and s.value.value is None:
            from ..lib import guard_atoms
            atoms = guard_atoms(s, stop=fn)
            inside_else = any("is_paramaterized_replaceable" in ast.unparse(e) and not pol and not isinstance(e, ast.BoolOp) for e, pol in atoms)
            if not inside_else:
                none_sites_ok = False
                ctx.bad(finding_at(P, rid, s, f"`{dvar} = None` for a parameterized-replaceable event (absent or bare d tag): None means 'no d filter', so every older event of that "
                                   "author and kind is deleted whatever its d value"))
        elif isinstance(s, ast.Assign):
            v = s.value
            helper_ok = isinstance(v, ast.Call) and call_name(v) == "get_d_value" and v.args and dotted(v.args[0]) == "event"
            if not helper_ok:
                none_sites_ok = False
                ctx.bad(finding_at(P, rid, s, f"`{dvar}` is not the normalised d value of the event (get_d_value(event))"))
    hv = program.func_opt("nostr_relay.storage.kv:get_d_value")
    if hv is not None:
        rets = [r for r in walk_no_nested(hv) if isinstance(r, ast.Return)]
        if rets and all(r.value is not None and not (isinstance(r.value, ast.Constant) and r.value.value is None) for r in rets):
            ctx.ok(rid, hv, "get_d_value: missing / bare / empty d tag -> \"\", never None")
        else:
            ctx.bad(finding_func(P, rid, hv, "get_d_value can return None", text="def get_d_value(...)"))

    def pred(expr, pol):
        if isinstance(expr, ast.Compare) and len(expr.ops) == 1:
            l, r = expr.left, expr.comparators[0]
            if isinstance(l, ast.Name) and l.id == dvar and isinstance(r, ast.Constant) and r.value is None:
                return (isinstance(expr.ops[0], ast.Is) and pol) or (isinstance(expr.ops[0], ast.IsNot) and not pol)
            sides = {ast.unparse(l), ast.unparse(r)}
            if dvar in sides and "get_d_value(candidate)" in sides:
                return (isinstance(expr.ops[0], ast.Eq) and pol) or (isinstance(expr.ops[0], ast.NotEq) and not pol)
        if isinstance(expr, ast.Call) and call_name(expr) == "all" and expr.args and isinstance(expr.args[0], ast.Call) and ast.unparse(expr.args[0].func) == "candidate.has_tag" and len(expr.args[0].args) == 2 and isinstance(expr.args[0].args[1], (ast.List, ast.Tuple)) and ast.unparse(expr.args[0].args[1].elts[0]) == dvar:
            return pol
        return False

    passes = test_edges(cfg, pred)
    dels = cfg.stmt_nodes(lambda s: any(call_name(c) == "self._delete_event" for c in own_calls(s)) and _in_replaceable_body(s), kinds=("stmt",))
    for d in dels:
        if must_pass(cfg, passes, [d]):
            ctx.bad(finding_at(P, rid, cfg.ast_of(d), "LMDB: an older candidate is deleted without its d value having been compared (by equality) with the new event's"))
        elif none_sites_ok:
            ctx.ok(rid, cfg.ast_of(d), f"LMDB: delete only if not parameterized or get_d_value(candidate) == {dvar}")
    # (c) SQL
    ps = program.func("nostr_relay.storage.db:DBStorage.pre_save")
    cfg2 = cfg_of(ps)

    def sqlpred(expr, pol):
        if isinstance(expr, ast.Compare) and len(expr.ops) == 1 and isinstance(expr.ops[0], (ast.Eq, ast.NotEq)):
            sides = {ast.unparse(expr.left), ast.unparse(expr.comparators[0])}
            if "d_tag" in sides and any(s_.endswith("[1]") for s_ in sides):
                return (isinstance(expr.ops[0], ast.Eq) and pol) or (isinstance(expr.ops[0], ast.NotEq) and not pol)
        if isinstance(expr, ast.Name) and expr.id == "d_tag":
            return not pol  # empty d value branch (its own emptiness tests follow)
        return False

    passes2 = test_edges(cfg2, sqlpred)
    marks = cfg2.stmt_nodes(lambda s: any(isinstance(c.func, ast.Attribute) and c.func.attr == "append" and "delete" in dotted(c.func.value) for c in own_calls(s)) and any(isinstance(a, ast.If) and "is_paramaterized_replaceable" in ast.unparse(a.test) for a in ancestors(s)), kinds=("stmt",))
    for mnode in marks:
        if must_pass(cfg2, passes2, [mnode]):
            ctx.bad(finding_at(P, rid, cfg2.ast_of(mnode), "SQL: a candidate is marked for deletion without its d value having been compared by equality with the new event's"))
        else:
            ctx.ok(rid, cfg2.ast_of(mnode), "SQL: candidate marked only after tag[1] == d_tag / empty-value test")
    for n in ast.walk(ps):
        if isinstance(n, ast.Compare) and isinstance(n.ops[0], (ast.In, ast.NotIn)) and "d_tag" in ast.unparse(n):
            ctx.bad(finding_at(P, rid, n, "SQL: d values compared with `in` (substring/container test)"))


def rule_delete_target(program, ctx, prop=P, rid="C09.target"):
    ctx.rule(
        rid,
        "what the supersede loop removes is an *older stored* version: in WriterThread._post_save every `_delete_event(txn, X, …)` of the replaceable branch is given the record "
        "decoded from the scanned id (`decode_event(get_event_data(txn, event_id))`), bound once - never the event just written (a tie-break that assigns `candidate = event` "
        "deletes the newest version: role assignments, profiles and lists silently revert to the earlier one)",
        floor=1,
    )
    fn = program.func("nostr_relay.storage.kv:WriterThread._post_save")
    ev = fn.args.args[2].arg if len(fn.args.args) > 2 else "event"
    n = 0
    for c in ast.walk(fn):
        if isinstance(c, ast.Call) and call_name(c).endswith("_delete_event") and len(c.args) >= 2:
            n += 1
            a = c.args[1]
            if isinstance(a, ast.Name):
                b = [s_ for s_ in stores_of(fn, a.id)]

                def from_record(s_, name=a.id):
                    vals = [s_.value] if isinstance(s_, ast.Assign) else [x.value for x in ast.walk(s_) if isinstance(x, ast.NamedExpr) and isinstance(x.target, ast.Name) and x.target.id == name]
                    return bool(vals) and all(any(isinstance(x, ast.Call) and call_name(x) in ("decode_event", "get_event_data") for x in ast.walk(v)) for v in vals)

                src_ok = all(from_record(s_) for s_ in b) and b
                if a.id == ev or not src_ok:
                    bad = next((s_ for s_ in b if not from_record(s_)), c)
                    ctx.bad(finding_at(prop, rid, bad, f"_delete_event can be given `{ast.unparse(bad)[:50]}`: something other than the stored record decoded from the scanned id - the event "
                                       "just written (the newest version) can be the one removed"))
                else:
                    ctx.ok(rid, c, f"_delete_event(txn, {a.id}) with {a.id} decoded from the scanned id")
            else:
                ok2 = any(isinstance(x, ast.Call) and call_name(x) in ("decode_event",) for x in ast.walk(a))
                ctx.ok(rid, c, "deletes the decoded record") if ok2 else ctx.bad(finding_at(prop, rid, c, f"_delete_event is given `{ast.unparse(a)[:40]}`"))
    if not n:
        raise AnalysisError("_post_save: no _delete_event call")


def rule_dverbatim(program, ctx, prop=P, rid="C09.dverbatim"):
    ctx.rule(
        rid,
        "the d value is compared as the client wrote it: kv.get_d_value returns `tag[1]` of the first d tag (or '') without case folding, stripping or Unicode "
        "normalisation - two different d values that normalise to the same string are different addresses; treating them as one deletes the other's newest version",
        floor=1,
    )
    fn = program.func_opt("nostr_relay.storage.kv:get_d_value")
    if fn is None:
        raise AnalysisError("get_d_value not found")
    for r in walk_no_nested(fn):
        if isinstance(r, ast.Return) and r.value is not None:
            leaves = [r.value.body, r.value.orelse] if isinstance(r.value, ast.IfExp) else [r.value]
            for v in leaves:
                if isinstance(v, ast.Constant) and v.value == "":
                    continue
                if isinstance(v, ast.Subscript) and isinstance(v.slice, ast.Constant) and v.slice.value == 1 and isinstance(v.value, ast.Name):
                    ctx.ok(rid, r, f"returns {ast.unparse(v)} verbatim")
                else:
                    ctx.bad(finding_at(prop, rid, r, f"get_d_value returns `{ast.unparse(v)[:60]}`, a transformation of the tag value: distinct d values can collapse into one address"))


def run(program, ctx):
    from ..lib import rule_awaited

    rule_awaited(program, ctx, P, ANCHORS)
    from . import c07

    c07.rule_sqlregion(program, ctx, prop=P, rid="C09.txn")
    rule_classes(program, ctx)
    rule_frame_sql(program, ctx)
    rule_all_sql(program, ctx)
    rule_frame_kv(program, ctx)
    rule_dvalue(program, ctx)
    rule_dverbatim(program, ctx)
    rule_delete_target(program, ctx)
    from . import c10

    c10.rule_injective(program, ctx, prop=P, rid="C09.index")
    c07.rule_kvregion(program, ctx, prop=P, rid="C09.kvregion")
    # kinds 0/3 are replaced in DBStorage.post_save under `if changed`: a recipe override that loses `changed` disables it
    c07.rule_overrides(program, ctx, prop=P, rid="C09.overrides")
    from . import c04 as _c04, c06 as _c06

    # pre_save deletes the superseded versions before the INSERT OR IGNORE: a constraint that skips the insert leaves no version at all
    _c06.rule_schema(program, ctx, prop=P, rid="C09.schema")
    # the d value is compared as stored: the serializer of the tags column must not rewrite it
    _c04.rule_encoder(program, ctx, prop=P, rid="C09.encoder")
    ctx.not_decided += [
        "arrival-order outcomes and equal timestamps as behaviour",
        "that an incoming event older than the stored newest version is itself not kept (both backends store it)",
    ]


DB = "nostr_relay/storage/db.py"
KV = "nostr_relay/storage/kv.py"

MUTANTS = [
    M("c09-d-stripped", "nostr_relay/storage/kv.py", "            return tag[1] if len(tag) > 1 else \"\"", "            return tag[1].strip() if len(tag) > 1 else \"\"", "C09.dverbatim"),
] + [
    M("c09-" + m.id, m.rel, m.old, m.new, "C09.txn", m.where, False, m.count) for m in __import__("sa.props.c07", fromlist=["MUTANTS"]).MUTANTS if m.expect == "C07.sqlregion"
] + [
    M("c09-kv-contacts-dropped", KV, "                EventKind.SET_METADATA,\n                EventKind.CONTACTS,\n", "                EventKind.SET_METADATA,\n", "C09.classes", canary=True),
    M("c09-sql-kind-conjunct", DB, "                (self.EventTable.c.pubkey == bytes.fromhex(event.pubkey))\n                & (self.EventTable.c.kind == event.kind)\n                & (self.EventTable.c.created_at < event.created_at)\n            )\n            result",
      "                (self.EventTable.c.pubkey == bytes.fromhex(event.pubkey))\n                & (self.EventTable.c.created_at < event.created_at)\n            )\n            result", "C09.frame"),
    M("c09-sql-older-lte", DB, "                & (self.EventTable.c.created_at < event.created_at)\n            )\n            result", "                & (self.EventTable.c.created_at <= event.created_at)\n            )\n            result", "C09.frame"),
    M("c09-kv-until-none", KV, "                [(event.pubkey, event.kind)],\n                until=event.created_at,", "                [(event.pubkey, event.kind)],\n                until=None,", "C09.frame"),
    M("c09-kv-own-not-skipped", KV, "                    if event_id == saved_id:\n                        continue\n", "", "C09.frame"),
    M("c09-sql-first", DB, "                delete_ids = [row[0] for row in result]", "                row = result.first()\n                delete_ids = [row[0]] if row else []", "C09.all"),
    M("c09-sql-break", DB, "                            delete_ids.append(old_id)\n\n            else:", "                            delete_ids.append(old_id)\n                            break\n\n            else:", "C09.all"),
    M("c09-kv-break", KV, "                    self._delete_event(txn, candidate, log)\n                    counter[\"count\"] += 1\n\n        elif", "                    self._delete_event(txn, candidate, log)\n                    counter[\"count\"] += 1\n                    break\n\n        elif", "C09.all"),
    M("c09-kv-has-tag-str", KV, "                    if d_tag is not None and get_d_value(candidate) != d_tag:\n                        continue", "                    if d_tag is not None and not all(candidate.has_tag(\"d\", d_tag)):\n                        continue", "C09.dvalue"),
    M("c09-kv-d-none", KV, "                d_tag = get_d_value(event)\n", "                d_tag = get_d_value(event) or None\n", "C09.dvalue"),
    M("c09-kv-no-d-compare", KV, "                    if d_tag is not None and get_d_value(candidate) != d_tag:\n                        continue\n", "", "C09.dvalue"),
    M("c09-sql-d-prefix", DB, "                        if len(tag) > 1 and tag[1] == d_tag:", "                        if len(tag) > 1 and tag[1].startswith(d_tag):", "C09.dvalue"),
]
EQUIVS = []

# functions whose syntactic mutants are used for the thorough tier's sensitivity figure (sa/automut.py)
ANCHORS = [
    "nostr_relay.storage.db:DBStorage.pre_save",
    "nostr_relay.storage.db:DBStorage.post_save",
    "nostr_relay.storage.kv:WriterThread._post_save",
    "nostr_relay.storage.kv:get_d_value",
]
