"""C14 - role-based authorization on every read and write path.

  C14.save      every admission effect of every concrete add_event is reached only through a branch
                edge on which `can_do(<auth_token>, Action.save…, E)` is known truthy
  C14.query     in BaseStorage.subscribe `sub.start()` and the registry insertion are reached only
                through an edge on which `can_do(<auth_token>, Action.query…)` is truthy (or no
                authenticator exists); `.start()` of a subscription has no other caller
  C14.output    every delivery of a stored/live event (queue.put((sub_id, <event>)), HTTP body) is
                reached only through `check_output(event, …)` truthy or `check_output` unset
  C14.can_do    Authenticator.can_do: fail-closed structure (single result variable, decision from
                the intersection of configured and token roles, token roles not replaced by the
                default when merely empty); parse_options seeds both actions
"""
from __future__ import annotations

import ast

from ..cfg import cfg_of
from ..core import (
    AnalysisError,
    ancestors,
    call_name,
    dotted,
    finding_at,
    finding_func,
    norm,
    own_calls,
    qual_of,
    walk_no_nested,
)
from ..lib import (
    NORMAL,
    admission_effects,
    all_calls,
    call_matches,
    concrete_add_events,
    event_var,
    must_pass,
    stores_of,
    strip_await,
    test_edges,
)
from ..selftest import E, M

P = "C14"


def _is_action(e, which: str) -> bool:
    d = dotted(e)
    return d.endswith(f"Action.{which}.value") or d.endswith(f"Action.{which}") or (
        isinstance(e, ast.Constant) and e.value == which
    )


def _can_do_atom(token_name: str, action: str, target=None, allow_no_auth=False):
    def pred(expr, pol):
        if isinstance(expr, ast.Call) and call_name(expr).endswith(".can_do"):
            if not pol or len(expr.args) < 2:
                return False
            a0 = expr.args[0]
            if not (isinstance(a0, ast.Name) and a0.id == token_name):
                return False
            if not _is_action(expr.args[1], action):
                return False
            if target is not None:
                if len(expr.args) < 3 or not (isinstance(expr.args[2], ast.Name) and expr.args[2].id == target):
                    return False
            return True
        if allow_no_auth and not pol and dotted(expr) in ("self.authenticator",):
            return True
        return False
    return pred


def rule_save(program, ctx):
    rid = ctx.rule(
        "C14.save",
        "each concrete add_event: every admission effect is reachable only via a branch edge on which "
        "`await …can_do(auth_token, Action.save.value, E)` is truthy (failing edge leaves by raise)",
        floor=4,
    )
    for fn, classes in concrete_add_events(program):
        cfg = cfg_of(fn)
        ev = event_var(fn)
        params = [a.arg for a in fn.args.args]
        tok = "auth_token" if "auth_token" in params else (params[2] if len(params) > 2 else None)
        if ev is None or tok is None:
            ctx.bad(finding_func(P, rid, fn, "add_event has no event variable / auth_token parameter to authorise"))
            continue
        passes = test_edges(cfg, _can_do_atom(tok, "save", target=ev))
        if stores_of(fn, tok):
            ctx.bad(finding_at(P, rid, stores_of(fn, tok)[0], f"`{tok}` is re-bound inside add_event: the authorised token is not the caller's"))
        for n, label in admission_effects(cfg, fn, ev):
            s = cfg.ast_of(n)
            if label == "pre_save":
                continue
            path = must_pass(cfg, passes, [n])
            if path:
                ctx.bad(finding_at(P, rid, s, f"{label} is reachable without `can_do({tok}, Action.save, {ev})` having been truthy: "
                                   "with authentication enabled anyone can publish on this backend",
                                   path=cfg.describe_path(path)[-5:]))
            else:
                ctx.ok(rid, s, f"{label}: only via can_do({tok}, save, {ev}) truthy")


def rule_query(program, ctx):
    rid = ctx.rule(
        "C14.query",
        "BaseStorage.subscribe: `sub.start()` and `subs[sub_id] = sub` only via an edge where "
        "`can_do(auth_token, Action.query.value, …)` is truthy or self.authenticator is unset; "
        "no other caller of a subscription's start()",
        floor=1,
    )
    fn = program.func("nostr_relay.storage.base:BaseStorage.subscribe")
    cfg = cfg_of(fn)
    passes = test_edges(cfg, _can_do_atom("auth_token", "query", allow_no_auth=True))
    if stores_of(fn, "auth_token"):
        ctx.bad(finding_at(P, rid, stores_of(fn, "auth_token")[0], "`auth_token` is re-bound inside subscribe"))
    # the subscription object
    sub_names = set()
    for n in walk_no_nested(fn):
        if isinstance(n, ast.Assign) and isinstance(n.value, ast.Call) and call_name(n.value).endswith("subscription_class"):
            sub_names |= {t.id for t in n.targets if isinstance(t, ast.Name)}
    targets = []
    for n, d in cfg.g.nodes(data=True):
        s = d["ast"]
        if s is None or d["kind"] != "stmt":
            continue
        for c in own_calls(s):
            if isinstance(c.func, ast.Attribute) and c.func.attr in ("start", "run_query") and isinstance(c.func.value, ast.Name) and c.func.value.id in sub_names:
                targets.append((n, f"{c.func.value.id}.{c.func.attr}()"))
        if isinstance(s, ast.Assign) and isinstance(s.value, ast.Name) and s.value.id in sub_names and any(isinstance(t, ast.Subscript) for t in s.targets):
            targets.append((n, "registry insertion"))
    if not targets:
        ctx.bad(finding_func(P, rid, fn, "subscribe no longer starts/registers a subscription object built from subscription_class"))
    for n, label in targets:
        path = must_pass(cfg, passes, [n])
        s = cfg.ast_of(n)
        if path:
            ctx.bad(finding_at(P, rid, s, f"{label} reachable without can_do(auth_token, Action.query) truthy", path=cfg.describe_path(path)[-5:]))
        else:
            ctx.ok(rid, s, f"{label}: only via can_do(auth_token, query) truthy / no authenticator")
    # who starts subscriptions
    for m, c in all_calls(program):
        if isinstance(c.func, ast.Attribute) and c.func.attr == "start" and not c.args:
            recv = dotted(c.func.value)
            if recv in ("sub", "subscription") or recv.endswith(".sub"):
                q = qual_of(c)
                if q == "BaseStorage.subscribe":
                    continue
                ctx.bad(finding_at(P, rid, c, f"subscription started outside BaseStorage.subscribe ({q}): bypasses the query authorisation"))
    # run_query of subscription classes is invoked only by start()
    for m, c in all_calls(program):
        if isinstance(c.func, ast.Attribute) and c.func.attr == "run_query" and dotted(c.func.value) in ("self",) and qual_of(c).endswith("BaseSubscription.start"):
            ctx.ok(rid, c, "run_query task created in BaseSubscription.start")


def _check_output_aliases(fn) -> set:
    al = set()
    for n in walk_no_nested(fn):
        if isinstance(n, ast.Assign) and dotted(n.value).endswith(".check_output"):
            al |= {t.id for t in n.targets if isinstance(t, ast.Name)}
    return al


def _output_atom(aliases: set, event_name):
    def is_co(e):
        d = dotted(e)
        return d in aliases or d.endswith(".check_output")

    def pred(expr, pol):
        if isinstance(expr, ast.Call) and is_co(expr.func):
            return pol and bool(expr.args) and (event_name is None or (isinstance(expr.args[0], ast.Name) and expr.args[0].id == event_name))
        if is_co(expr):
            return not pol  # not configured
        if isinstance(expr, ast.Compare) and len(expr.ops) == 1 and is_co(expr.left) and isinstance(expr.comparators[0], ast.Constant) and expr.comparators[0].value is None:
            return (isinstance(expr.ops[0], ast.Is) and pol) or (isinstance(expr.ops[0], ast.IsNot) and not pol)
        return False
    return pred


def delivery_sites(program):
    """(fn, call, event expression) for every queue put of a non-None event in the storage package."""
    out = []
    for mname in ("nostr_relay.storage.base", "nostr_relay.storage.db", "nostr_relay.storage.kv"):
        m = program.module(mname)
        for c in ast.walk(m.tree):
            if not isinstance(c, ast.Call):
                continue
            nm = call_name(c)
            if not (nm.endswith("queue.put") or nm in ("queue_put", "queue.put", "put") or nm.endswith("queue_put") or nm.endswith(".put_nowait")):
                continue
            if "writer_queue" in nm:
                continue
            if not c.args or not isinstance(c.args[0], ast.Tuple) or len(c.args[0].elts) != 2:
                continue
            second = c.args[0].elts[1]
            if isinstance(second, ast.Constant) and second.value is None:
                continue
            from ..lib import func_of
            f = func_of(c)
            if f is None:
                continue
            # delivery happens in subscription classes (queue of the connection) - or anywhere else that reaches into a subscription's queue
            # (`sub.queue.put_nowait((sub.sub_id, event))` from the storage object); the writer thread's task queue is not a delivery
            cls = getattr(c, "_class", None)
            in_sub = cls is not None and any(ci.node is cls for ci in [program.cls("nostr_relay.storage.base:BaseSubscription")] + program.subclasses(program.cls("nostr_relay.storage.base:BaseSubscription"), strict=True))
            foreign = (not in_sub) and isinstance(c.func, ast.Attribute) and isinstance(c.func.value, ast.Attribute) and c.func.value.attr == "queue" and "sub_id" in ast.unparse(c.args[0].elts[0])
            if not in_sub and not foreign:
                continue
            out.append((f, c, second))
    return out


def rule_output(program, ctx):
    rid = ctx.rule(
        "C14.output",
        "every queue.put((sub_id, <event>)) in the storage package and the HTTP /e/<id> body: reachable only via "
        "`check_output(<that event>, ctx)` truthy or check_output falsy/None (not configured)",
        floor=3,
    )
    for fn, call, evexpr in delivery_sites(program):
        cfg = cfg_of(fn)
        aliases = _check_output_aliases(fn)
        evname = evexpr.id if isinstance(evexpr, ast.Name) else None
        passes = test_edges(cfg, _output_atom(aliases, evname))
        from ..core import enclosing_stmt
        st = enclosing_stmt(call)
        nodes = cfg.nodes_of(st)
        path = must_pass(cfg, passes, nodes)
        if path:
            ctx.bad(finding_at(P, rid, call, f"event `{dotted(evexpr)}` is delivered without consulting the configured output validator "
                               "(check_output)", path=cfg.describe_path(path)[-5:]))
        else:
            ctx.ok(rid, call, f"delivery of `{dotted(evexpr)}` guarded by check_output / not configured")
    # HTTP
    fn = program.func("nostr_relay.web:ViewEventResource.on_get")
    cfg = cfg_of(fn)
    for n, d in list(cfg.g.nodes(data=True)):
        s = d["ast"]
        if d["kind"] == "stmt" and isinstance(s, ast.Assign) and any(dotted(t) in ("resp.media", "resp.text", "resp.data") for t in s.targets):
            aliases = _check_output_aliases(fn)
            passes = test_edges(cfg, _output_atom(aliases, None))
            path = must_pass(cfg, passes, [n])
            if path:
                ctx.bad(finding_at(P, rid, s, "HTTP /e/<id> serves the event without consulting the configured output validator"))
            else:
                ctx.ok(rid, s, "HTTP body guarded by check_output")


def rule_context(program, ctx, prop=P, rid="C14.context"):
    ctx.rule(
        rid,
        "the context an output validator decides on belongs to the connection that receives the event: at every check_output(event, <context>) call the context is a dict "
        "built in that function (a literal, or a local bound once to a literal) whose `auth_token` / `client_id` entries are the subscription's / the request's own - "
        "never an object shared between subscriptions (class attribute, module global, cached dict), through which one connection's token authorises another's stream",
        floor=3,
    )
    n = 0
    for fn in {id(f): f for f in program.functions.values()}.values():
        if True:
            aliases = _check_output_aliases(fn)
            for c in walk_no_nested(fn):
                if not (isinstance(c, ast.Call) and (dotted(c.func) in aliases or dotted(c.func).endswith(".check_output")) and len(c.args) >= 2):
                    continue
                n += 1
                arg = c.args[1]
                src = arg
                if isinstance(arg, ast.Name):
                    sts = [s_ for s_ in stores_of(fn, arg.id)]
                    if len(sts) != 1 or not isinstance(sts[0], ast.Assign):
                        ctx.bad(finding_at(prop, rid, c, f"{qual_of(fn)}: the validator context `{arg.id}` is not bound exactly once in this function ({len(sts)} bindings)"))
                        continue
                    src = sts[0].value
                    muts = [x for x in walk_no_nested(fn) if isinstance(x, (ast.Assign, ast.AugAssign)) and any(isinstance(t, ast.Subscript) and dotted(t.value) == arg.id for t in (x.targets if isinstance(x, ast.Assign) else [x.target]))]
                else:
                    muts = []
                if isinstance(src, ast.Call) and call_name(src) == "dict" and not src.args and all(k.arg for k in src.keywords):
                    src = ast.Dict(keys=[ast.Constant(value=k.arg) for k in src.keywords], values=[k.value for k in src.keywords])
                if not isinstance(src, ast.Dict):
                    ctx.bad(finding_at(prop, rid, c, f"{qual_of(fn)}: the validator context is `{ast.unparse(src)[:60]}`, not a dict built for this delivery: if the object is shared, the "
                                       "auth_token of whichever subscription wrote it last decides for every other connection"))
                    continue
                keys = {k.value: v for k, v in zip(src.keys, src.values) if isinstance(k, ast.Constant)}
                for m_ in muts:
                    t = (m_.targets if isinstance(m_, ast.Assign) else [m_.target])[0]
                    if isinstance(t.slice, ast.Constant):
                        keys[t.slice.value] = m_.value
                tok = keys.get("auth_token")
                okv = tok is not None and (isinstance(tok, ast.Constant) and tok.value is None) or tok is not None and (dotted(tok) in ("self.auth_token", "auth_token", "req.context.auth_token") or (isinstance(tok, ast.Call) and "auth" in ast.unparse(tok)))
                if not okv and tok is not None:
                    # HTTP: the request's own token, however it is spelt
                    okv = not any(isinstance(x, ast.Attribute) and isinstance(x.value, ast.Name) and x.value.id[:1].isupper() for x in ast.walk(tok)) and not isinstance(tok, ast.Constant)
                if okv:
                    ctx.ok(rid, c, f"{qual_of(fn)}: fresh context, auth_token = {ast.unparse(tok)[:40]}")
                else:
                    ctx.bad(finding_at(prop, rid, c, f"{qual_of(fn)}: the validator context carries {'no auth_token' if tok is None else 'auth_token = ' + ast.unparse(tok)[:40]}: the output "
                                       "validator cannot tell who receives the event"))
    if not n:
        raise AnalysisError("no check_output(event, context) call found")


def rule_can_do(program, ctx):
    rid = ctx.rule(
        "C14.can_do",
        "Authenticator.can_do, on its CFG: a truthy constant (or the initial `True` of the result variable) can reach a return only along paths on "
        "which enforcement is off (`self.is_enabled` false or `action in self.actions` false); otherwise the returned value is "
        "bool(self.actions[action] ∩ auth_token.get('roles', <default>)) - named temporaries are read through - optionally refined by "
        "evaluate_target under a truthy role decision; an `or` fallback for an empty role set is rejected; parse_options seeds save and query",
        floor=1,
    )
    from ..lib import expand_aliases
    from ..taint import ReachingDefs

    fn = program.func("nostr_relay.auth:Authenticator.can_do")
    cfg = cfg_of(fn)
    rd = ReachingDefs(cfg)

    def off(expr, pol):
        d = dotted(expr)
        if d == "self.is_enabled":
            return not pol
        if isinstance(expr, ast.Compare) and len(expr.ops) == 1 and dotted(expr.left) == "action" and dotted(expr.comparators[0]) == "self.actions":
            return (isinstance(expr.ops[0], ast.In) and not pol) or (isinstance(expr.ops[0], ast.NotIn) and pol)
        return False

    off_edges = test_edges(cfg, off)

    def check_value(v, at_node, label_node, seen):
        """v: expression returned / assigned; at_node: CFG node where it takes effect"""
        v = strip_await(v)
        if isinstance(v, ast.Constant):
            if bool(v.value):
                # truthy constant: only when enforcement is off
                path = must_pass(cfg, off_edges, [at_node])
                if path:
                    ctx.bad(finding_at(P, rid, label_node, "can_do can answer True although authentication is enabled and the action is configured (early allow)",
                                       path=cfg.describe_path(path)[-5:]))
                else:
                    ctx.ok(rid, label_node, "True only when enforcement is off (not enabled / action not configured)")
            return
        if isinstance(v, ast.Name):
            for d in rd.reaching(cfg.ast_of(at_node), v.id):
                if (v.id, d) in seen:
                    continue
                seen.add((v.id, d))
                ds = cfg.ast_of(d)
                if isinstance(ds, ast.Assign):
                    val = strip_await(ds.value)
                    if isinstance(val, ast.Constant) and bool(val.value):
                        # the True default must not survive to this return once enforcement is on
                        others = [n for n, names in rd.defs_at.items() if v.id in names and n != d]
                        p1 = cfg.find_path(list(cfg.succ(d, kinds={"n", "t", "f"})), [at_node], avoid_nodes=others, kinds={"n", "t", "f"}, avoid_edge_kinds=off_edges)
                        if p1:
                            ctx.bad(finding_at(P, rid, ds, f"`{v.id} = True` survives to a return on a path where authentication is enabled and the action is configured", path=cfg.describe_path(p1)[-5:]))
                        else:
                            ctx.ok(rid, ds, f"default `{v.id} = True` is overwritten whenever enforcement is on")
                    else:
                        check_value(ds.value, d, ds, seen)
                elif v.id in [a.arg for a in fn.args.args]:
                    ctx.bad(finding_at(P, rid, label_node, f"can_do returns its parameter `{v.id}`"))
            return
        ev = expand_aliases(fn, v)
        inter = next((c for c in ast.walk(ev) if isinstance(c, ast.Call) and call_name(c).endswith(".intersection")), None)
        if inter is not None:
            recv = ast.unparse(inter.func.value)
            arg = inter.args[0] if inter.args else None
            okarg = isinstance(arg, ast.Call) and call_name(arg).endswith(".get") and arg.args and isinstance(arg.args[0], ast.Constant) and arg.args[0].value == "roles" and len(arg.args) == 2
            if "self.actions[action]" not in recv:
                ctx.bad(finding_at(P, rid, label_node, "role intersection is not taken against self.actions[action]"))
            elif not okarg:
                ctx.bad(finding_at(P, rid, label_node, "token roles are not read as auth_token.get('roles', <default>): an `or`/truthiness fallback gives an "
                                   "authenticated pubkey with an empty role set the anonymous role"))
            else:
                ctx.ok(rid, label_node, "result = bool(self.actions[action] ∩ auth_token.get('roles', default))")
            return
        if isinstance(ev, ast.Call) and call_name(ev).endswith(".evaluate_target"):
            st = cfg.ast_of(at_node)
            tgt = st.targets[0].id if isinstance(st, ast.Assign) and isinstance(st.targets[0], ast.Name) else None
            if tgt is None and isinstance(st, ast.Return):
                # `return await self.evaluate_target(…)`: the role decision is whichever local must be truthy for this return to be reached
                for cand in sorted({x.id for x in ast.walk(fn) if isinstance(x, ast.Name) and isinstance(x.ctx, ast.Store)}):
                    ps = test_edges(cfg, lambda e, p, c=cand: p and isinstance(e, ast.Name) and e.id == c)
                    if ps and not must_pass(cfg, ps, [at_node]):
                        tgt = cand
                        break
            passes = test_edges(cfg, lambda e, p: p and isinstance(e, ast.Name) and e.id == tgt)
            if tgt and not must_pass(cfg, passes, [at_node]):
                ctx.ok(rid, label_node, "target evaluation only refines a positive role decision")
                # and the positive decision itself must be sound
                for d in rd.reaching(st, tgt):
                    if (tgt, d) not in seen and d != at_node:
                        seen.add((tgt, d))
                        ds = cfg.ast_of(d)
                        if isinstance(ds, ast.Assign):
                            val = strip_await(ds.value)
                            if isinstance(val, ast.Constant) and bool(val.value):
                                others = [n for n, names in rd.defs_at.items() if tgt in names and n != d]
                                if cfg.find_path(list(cfg.succ(d, kinds={"n", "t", "f"})), [at_node], avoid_nodes=others, kinds={"n", "t", "f"}, avoid_edge_kinds=off_edges):
                                    ctx.bad(finding_at(P, rid, ds, f"`{tgt} = True` reaches the target evaluation with enforcement on"))
                            else:
                                check_value(ds.value, d, ds, seen)
            else:
                ctx.bad(finding_at(P, rid, label_node, "evaluate_target overrides the role decision unconditionally"))
            return
        ctx.bad(finding_at(P, rid, label_node, f"can_do's verdict comes from an unrecognised expression `{ast.unparse(v)[:50]}`"))

    rets = cfg.stmt_nodes(lambda s: isinstance(s, ast.Return), kinds=("stmt",))
    if not rets:
        ctx.bad(finding_func(P, rid, fn, "can_do returns nothing", text="def can_do(...)"))
    seen: set = set()
    for r in rets:
        st = cfg.ast_of(r)
        if st.value is None:
            ctx.bad(finding_at(P, rid, st, "can_do returns None"))
            continue
        check_value(st.value, r, st, seen)
    if not any(isinstance(c, ast.Call) and call_name(c).endswith(".intersection") for c in ast.walk(fn)):
        ctx.bad(finding_func(P, rid, fn, "no role-set intersection decides the result", text="def can_do(...)"))
    po = program.func("nostr_relay.auth:Authenticator.parse_options")
    seeded = set()
    for d in ast.walk(po):
        if isinstance(d, ast.Dict):
            for k in d.keys:
                if k is not None and _is_action(k, "save"):
                    seeded.add("save")
                if k is not None and _is_action(k, "query"):
                    seeded.add("query")
    if seeded >= {"save", "query"}:
        ctx.ok(rid, po, "parse_options seeds both save and query with the default roles")
    else:
        ctx.bad(finding_func(P, rid, po, f"parse_options seeds only {sorted(seeded)}: an unconfigured action is open to every token", text="def parse_options(...)"))


def rule_roles(program, ctx):
    rid = ctx.rule(
        "C14.roles",
        "role read-back (structural part): DBStorage.set_auth_roles must leave the given roles stored whether or not the pubkey already has a row - accepted "
        "idioms: INSERT in a try whose IntegrityError handler UPDATEs; an upsert (on_conflict_do_update); DELETE then INSERT; INSERT-or-ignore followed by an "
        "UPDATE that is unconditional or guarded by rowcount == 0; get_auth_roles reads the same table/column by the same key",
        floor=2,
    )
    fn = program.func("nostr_relay.storage.db:DBStorage.set_auth_roles")
    txt = ast.unparse(fn)
    ins = [c for c in ast.walk(fn) if isinstance(c, ast.Call) and ("insert(self.AuthTable)" in ast.unparse(c.func) or "auth_insert" in ast.unparse(c.func)) and isinstance(c.func, ast.Attribute) and c.func.attr == "values"]
    upd = [c for c in ast.walk(fn) if isinstance(c, ast.Call) and "update(self.AuthTable)" in ast.unparse(c) and isinstance(c.func, ast.Attribute) and c.func.attr == "values"]
    okv = False
    why = ""
    if "on_conflict_do_update" in txt:
        okv, why = True, "upsert"
    elif ins and upd:
        u = upd[0]
        h = next((a for a in ancestors(u) if isinstance(a, ast.ExceptHandler)), None)
        g = next((a for a in ancestors(u) if isinstance(a, ast.If)), None)
        if h is not None and h.type is not None and "IntegrityError" in ast.unparse(h.type) and any(any(i is x for x in ast.walk(s_)) for t_ in ast.walk(fn) if isinstance(t_, ast.Try) and h in t_.handlers for s_ in t_.body for i in ins):
            ignore = any("OR IGNORE" in ast.unparse(x) or "on_conflict_do_nothing" in ast.unparse(x) for x in ast.walk(fn))
            okv, why = (not ignore), "INSERT, on IntegrityError UPDATE" if not ignore else "the INSERT ignores conflicts, so the IntegrityError handler never runs"
        elif g is not None:
            t = ast.unparse(g.test).replace(" ", "")
            okv = "rowcount==0" in t or "notresult.rowcount" in t or "rowcount<1" in t
            why = f"UPDATE guarded by `{ast.unparse(g.test)}`"
        else:
            okv, why = True, "unconditional UPDATE after the INSERT"
    elif "delete(self.AuthTable)" in txt and ins:
        okv, why = True, "DELETE then INSERT"
    if not ins and "on_conflict_do_update" not in txt:
        ctx.bad(finding_func(P, rid, fn, "set_auth_roles no longer inserts into the auth table", text="def set_auth_roles(...) :: insert"))
    elif okv:
        ctx.ok(rid, fn, f"set_auth_roles: {why}")
    else:
        ctx.bad(finding_func(P, rid, fn, f"set_auth_roles does not reliably replace the roles of a pubkey that already has a row ({why or 'no UPDATE path'}): a demotion or revocation is "
                             "silently dropped and the old roles keep authorising", text="def set_auth_roles(...) :: replace"))
    for u in upd:
        wh = ast.unparse(u)
        if "self.AuthTable.c.pubkey == pubkey" in wh and "roles=roles" in wh:
            ctx.ok(rid, u, "UPDATE auth SET roles=<given> WHERE pubkey = <given>")
        else:
            ctx.bad(finding_at(P, rid, u, "the UPDATE does not set the given roles for the given pubkey"))
    g = program.func("nostr_relay.storage.db:DBStorage.get_auth_roles")
    gt = ast.unparse(g)
    if "self.AuthTable.c.roles" in gt and "self.AuthTable.c.pubkey == pubkey" in gt and "self.authenticator.default_roles" in gt:
        ctx.ok(rid, g, "get_auth_roles: SELECT roles WHERE pubkey = <given>, default roles when absent")
    else:
        ctx.bad(finding_func(P, rid, g, "get_auth_roles no longer reads auth.roles by pubkey with the default-roles fallback", text="def get_auth_roles(...)"))


def rule_roles_verbatim(program, ctx, prop=P, rid="C14.verbatim"):
    ctx.rule(
        rid,
        "role assignments read back exactly as last set: the `role set` command hands set_auth_roles the --roles argument it was given, untouched (roles are an open "
        "alphabet - `authentication.actions` may name any letter, the docs use `t` for throttling - so a 'normalisation' that keeps only the letters of the Role enum silently "
        "drops configured roles while reporting success)",
        floor=1,
    )
    m = program.module("nostr_relay.cli")
    n = 0
    for fn in [f for f in ast.walk(m.tree) if isinstance(f, (ast.FunctionDef, ast.AsyncFunctionDef))]:
        calls = [c for c in walk_no_nested(fn) if isinstance(c, ast.Call) and call_name(c).endswith("set_auth_roles")]
        for c in calls:
            n += 1
            a = c.args[1] if len(c.args) > 1 else next((k.value for k in c.keywords if k.arg == "roles"), None)
            params = {x.arg for x in fn.args.args + fn.args.kwonlyargs}
            if isinstance(a, ast.Name) and a.id in params and not stores_of(fn, a.id):
                ctx.ok(rid, c, f"{fn.name}: set_auth_roles(pubkey, {a.id}) with the argument as given")
            else:
                reb = stores_of(fn, a.id)[0] if isinstance(a, ast.Name) and stores_of(fn, a.id) else c
                ctx.bad(finding_at(prop, rid, reb, f"cli {fn.name}: the roles handed to set_auth_roles are `{ast.unparse(reb)[:60]}`, not the --roles argument as given: role letters the "
                                   "rewrite does not know are dropped without notice"))
    if not n:
        raise AnalysisError("cli: no set_auth_roles call found")


def rule_authkey(program, ctx, prop=P, rid="C14.authkey"):
    ctx.rule(
        rid,
        "one row per pubkey in the auth table: every definition of a table named `auth` in the package - storage.get_metadata, the alembic revisions' create_table and "
        "any `copy_from`/reflected definition a batch migration rebuilds the table from - declares `pubkey` with primary_key=True (or a unique constraint on it). "
        "set_auth_roles replaces roles through INSERT -> IntegrityError -> UPDATE; without the key a second assignment adds a row and the first row keeps authorising",
        floor=2,
    )
    n = 0
    for m in program.modules.values():
        if not m.name.startswith("nostr_relay"):
            continue
        for c in ast.walk(m.tree):
            if not (isinstance(c, ast.Call) and call_name(c).split(".")[-1] in ("Table", "create_table") and c.args and isinstance(c.args[0], ast.Constant) and c.args[0].value == "auth"):
                continue
            n += 1
            cols = [a for a in c.args if isinstance(a, ast.Call) and call_name(a).split(".")[-1] == "Column" and a.args and isinstance(a.args[0], ast.Constant)]
            pk = next((a for a in cols if a.args[0].value == "pubkey"), None)
            keyed = pk is not None and any(k.arg in ("primary_key", "unique") and isinstance(k.value, ast.Constant) and k.value.value is True for k in pk.keywords)
            keyed = keyed or any(isinstance(a, ast.Call) and call_name(a).split(".")[-1] in ("PrimaryKeyConstraint", "UniqueConstraint") and any(isinstance(x, ast.Constant) and x.value == "pubkey" for x in a.args) for a in c.args)
            if not cols:
                ctx.info(rid, c, "auth table referenced without column list") if hasattr(ctx, "info") else None
                continue
            if keyed:
                ctx.ok(rid, c, f"{m.name.split('.')[-1]}: auth.pubkey is the key")
            else:
                ctx.bad(finding_at(prop, rid, c, f"{m.name.split('.')[-1]} defines table `auth` without a primary key / unique constraint on pubkey: a table (re)built from this definition "
                                   "accepts a second row per pubkey, set_auth_roles' INSERT no longer raises, and roles that were revoked keep authorising"))
    if n < 2:
        raise AnalysisError("definitions of the auth table not found (expected get_metadata and the initial alembic revision)")


def rule_config(program, ctx, prop=P, rid="C14.config"):
    ctx.rule(
        rid,
        "Authenticator.parse_options: the role set of each configured action is `set(roles)` of the configured value itself (a role string such as 'ws', a Role's value, or a "
        "list of role letters) - never the set of characters of its text rendering (str()/repr()/format of a list adds brackets, quotes, commas and blanks as roles, which any "
        "assigned role string containing such a character then matches)",
        floor=1,
    )
    fn = program.func("nostr_relay.auth:Authenticator.parse_options")
    stores = [s for s in walk_no_nested(fn) if isinstance(s, ast.Assign) and isinstance(s.targets[0], ast.Subscript) and dotted(s.targets[0].value) == "actions"]
    if not stores:
        ctx.bad(finding_func(prop, rid, fn, "parse_options no longer stores the configured roles per action: every action keeps the default roles", text="def parse_options(...) :: actions"))
        return
    for st in stores:
        v = st.value
        inner = v.args[0] if isinstance(v, ast.Call) and call_name(v) in ("set", "frozenset") and len(v.args) == 1 else None
        good = False
        if inner is not None:
            # the argument is the loop's roles variable (possibly re-bound to roles.value), optionally case-folded by a str method
            base = inner
            if isinstance(base, ast.Call) and isinstance(base.func, ast.Attribute) and base.func.attr in ("lower", "upper", "strip") and not base.args:
                base = base.func.value
            good = isinstance(base, (ast.Name, ast.Attribute)) and not any(isinstance(c, ast.Call) for c in ast.walk(base))
        if good:
            ctx.ok(rid, st, f"{norm(st, 70)}")
        else:
            ctx.bad(finding_at(prop, rid, st, f"the role set of an action is built as `{ast.unparse(v)[:60]}`: for a list-valued configuration this is the character set of the list's text "
                               "(bracket, quote, comma, blank become roles), so a role string containing one of them is authorised"))


def rule_validator_object(program, ctx, prop=P, rid="C14.validator"):
    ctx.rule(
        rid,
        "the output validator is evaluated for *every* delivery with that delivery's context: BaseStorage.setup binds self.check_output to the configured callable itself "
        "(object_from_path(name)); if it is wrapped, every path through the wrapper calls the configured function with (event, context) - a memo keyed by the event id "
        "replays the verdict given to one connection (a privileged one) to all others",
        floor=1,
    )
    fn = program.func("nostr_relay.storage.base:BaseStorage.setup")
    binds = [s for s in walk_no_nested(fn) if isinstance(s, ast.Assign) and any(dotted(t) == "self.check_output" for t in s.targets)]
    if not binds:
        ctx.bad(finding_func(prop, rid, fn, "setup no longer binds self.check_output", text="def setup(...) :: check_output"))
        return
    def leaves(e):
        if isinstance(e, ast.IfExp):
            return leaves(e.body) + leaves(e.orelse)
        if isinstance(e, ast.BoolOp):
            return [x for v_ in e.values for x in leaves(v_)]
        return [e]

    from ..lib import expand_aliases
    for b in binds:
        v = b.value
        lv = [x for x in leaves(v) if not (isinstance(x, ast.Constant) and x.value is None) and not (isinstance(x, ast.Name) and x.id == "output_validator")]
        if not lv:
            continue
        if all(isinstance(x, ast.Call) and call_name(x) in ("object_from_path", "call_from_path") for x in lv):
            ctx.ok(rid, b, "check_output = the configured callable itself")
            continue
        v = expand_aliases(fn, lv[0]) if len(lv) == 1 else v
        # a wrapper defined in the package (possibly inlined into setup as a nested function)
        target = None
        if isinstance(v, ast.Name):
            target = next((d for d in ast.walk(fn) if isinstance(d, (ast.FunctionDef, ast.AsyncFunctionDef)) and d.name == v.id), None)
        if target is None:
            ctx.bad(finding_at(prop, rid, b, f"self.check_output is `{ast.unparse(v)[:60]}`, not the configured validator: it cannot be shown that the validator is consulted for every delivery"))
            continue
        cfgw = cfg_of(target)
        calls = cfgw.stmt_nodes(lambda st: any(isinstance(c.func, ast.Name) and len(c.args) >= 2 and dotted(c.args[0]) == target.args.args[0].arg for c in own_calls(st)), kinds=("stmt", "test"))
        rets = cfgw.stmt_nodes(lambda st: isinstance(st, ast.Return), kinds=("stmt",))
        passes = {n: set(NORMAL) for n in calls}
        path = must_pass(cfgw, passes, rets or [cfgw.exit], kinds=NORMAL)
        if path or not calls:
            ctx.bad(finding_at(prop, rid, target, f"the output validator is wrapped by `{target.name}`, which can answer without calling it (a remembered verdict): the decision taken for "
                               "one connection's context is replayed for another connection"))
        else:
            ctx.ok(rid, target, "wrapper calls the configured validator on every path")


def rule_rolesets(program, ctx, prop=P, rid="C14.rolesets"):
    ctx.rule(
        rid,
        "role sets are values, not accumulators: nothing updates a token's / the authenticator's role set in place (`token['roles'] |= …`, `.update`, `.add`) - for a pubkey "
        "without a row get_auth_roles hands out the Authenticator's shared default_roles object, so an in-place union writes a privileged role into the anonymous role set "
        "of the whole process",
        floor=1,
    )
    n = 0
    for m in program.modules.values():
        if m.rel.startswith("<dep>"):
            continue
        for x in ast.walk(m.tree):
            tgt = None
            if isinstance(x, ast.AugAssign) and isinstance(x.op, (ast.BitOr, ast.BitAnd, ast.Sub, ast.BitXor)):
                tgt = x.target
            elif isinstance(x, ast.Call) and isinstance(x.func, ast.Attribute) and x.func.attr in ("update", "add", "discard", "remove", "clear", "intersection_update", "difference_update"):
                tgt = x.func.value
            if tgt is None:
                continue
            txt = ast.unparse(tgt)
            if "roles" in txt and ("[" in txt or "default_roles" in txt or ".roles" in txt):
                n += 1
                ctx.bad(finding_at(prop, rid, x, f"`{norm(x, 70)}` changes a role set in place: if it is the shared default_roles object every unauthenticated connection gains the role"))
    au = program.func("nostr_relay.auth:Authenticator.authenticate")
    ctx.ok(rid, au, "no in-place update of a role set in the package") if not n else None


def run(program, ctx):
    from ..lib import rule_awaited

    rule_awaited(program, ctx, P, ANCHORS)
    rule_roles(program, ctx)
    rule_authkey(program, ctx)
    rule_roles_verbatim(program, ctx)
    from . import c09 as _c09

    # on LMDB a role assignment is a replaceable service event: 'read back as last set' needs the supersede loop to keep the newest one
    _c09.rule_delete_target(program, ctx, prop=P, rid="C14.target")
    rule_save(program, ctx)
    rule_query(program, ctx)
    rule_output(program, ctx)
    rule_context(program, ctx)
    rule_can_do(program, ctx)
    rule_config(program, ctx)
    rule_validator_object(program, ctx)
    rule_rolesets(program, ctx)
    from . import c15

    c15.rule_token(program, ctx, prop=P, rid="C14.token")
    ctx.not_decided += [
        "role read-back equals last write (SQL engine semantics / service-event replacement)",
        "the full action->roles configuration matrix as behaviour",
        "operator-supplied authenticator_class / subscription_class plug-ins",
    ]


KV = "nostr_relay/storage/kv.py"
DB = "nostr_relay/storage/db.py"
BASE = "nostr_relay/storage/base.py"
AUTH = "nostr_relay/auth.py"

MUTANTS = [
    M("c14-cli-roles-lowered", "nostr_relay/cli.py", "        await storage.set_auth_roles(pubkey, roles)", "        roles = roles.lower()\n        await storage.set_auth_roles(pubkey, roles)", "C14.verbatim"),
    M("c14-storage-puts-directly", "nostr_relay/storage/base.py", "                    self._notify_sub_tasks.append(\n                        asyncio.create_task(sub.notify(event))\n                    )", "                    if sub.check_event(event, sub.filters):\n                        sub.queue.put_nowait((sub.sub_id, event))", "C14.output"),
    M("c14-context-on-self", "nostr_relay/storage/db.py", "                context = {\n                    \"config\": Config,\n                    \"client_id\": self.client_id,\n                    \"auth_token\": self.auth_token,\n                }", "                context = self.storage.output_context", "C14.context"),
    M("c14-auth-table-unkeyed", "nostr_relay/storage/__init__.py", "            sa.Column(\"pubkey\", sa.Text(), primary_key=True),\n            sa.Column(\"roles\", sa.Text()),", "            sa.Column(\"pubkey\", sa.Text(), index=True),\n            sa.Column(\"roles\", sa.Text()),", "C14.authkey"),
    M("c14-roles-ignore-conflict", DB, "                await conn.execute(\n                    sa.insert(self.AuthTable).values(", "                await conn.execute(\n                    sa.insert(self.AuthTable).prefix_with(\"OR IGNORE\").values(", "C14.roles"),
    M("c14-roles-no-update", DB, "            except sa.exc.IntegrityError:\n                await conn.execute(\n                    sa.update(self.AuthTable)\n                    .where(self.AuthTable.c.pubkey == pubkey)\n                    .values(roles=roles)\n                )", "            except sa.exc.IntegrityError:\n                pass", "C14.roles"),
    M("c14-kv-drop-can-do", KV,
      "        if not await self.authenticator.can_do(auth_token, Action.save.value, event):\n            raise AuthenticationError(\"restricted: permission denied\")\n",
      "", "C14.save"),
    M("c14-kv-can-do-after-enqueue", KV,
      "        if not await self.authenticator.can_do(auth_token, Action.save.value, event):\n            raise AuthenticationError(\"restricted: permission denied\")\n\n        if not event.is_ephemeral:\n            self.writer_queue.put((\"add\", [event]))\n",
      "        if not event.is_ephemeral:\n            self.writer_queue.put((\"add\", [event]))\n        if not await self.authenticator.can_do(auth_token, Action.save.value, event):\n            raise AuthenticationError(\"restricted: permission denied\")\n",
      "C14.save"),
    M("c14-notify-no-output-check", BASE, "            ):\n                return\n            await self.queue.put((self.sub_id, event))",
      "            ):\n                pass\n            await self.queue.put((self.sub_id, event))", "C14.output"),
    M("c14-http-no-output-check", "nostr_relay/web.py", "                raise falcon.HTTPNotFound\n            resp.media = event.to_json_object()",
      "                self.log.debug(\"hidden event requested\")\n            resp.media = event.to_json_object()", "C14.output"),
    M("c14-db-drop-can-do", DB,
      "        if not await self.authenticator.can_do(auth_token, Action.save.value, event):\n            raise AuthenticationError(\"restricted: permission denied\")\n",
      "", "C14.save", canary=True),
    M("c14-db-wrong-action", DB, "can_do(auth_token, Action.save.value, event)", "can_do(auth_token, Action.query.value, event)", "C14.save"),
    M("c14-db-log-only", DB, "can_do(auth_token, Action.save.value, event):\n            raise AuthenticationError(\"restricted: permission denied\")",
      "can_do(auth_token, Action.save.value, event):\n            self.log.warning(\"restricted: permission denied\")", "C14.save"),
    M("c14-subscribe-start-first", BASE, "        if sub.prepare():\n            if self.authenticator",
      "        if sub.prepare():\n            sub.start()\n            if self.authenticator", "C14.query"),
    M("c14-subscribe-no-token", BASE, "                auth_token, Action.query.value, sub\n", "                None, Action.query.value, sub\n", "C14.query"),
    M("c14-db-output-dropped", DB, "                    if check_output(event, context):\n                        await queue.put((sub_id, event))",
      "                    check_output(event, context)\n                    await queue.put((sub_id, event))", "C14.output"),
    M("c14-kv-output-dropped", KV, "                            if check_output(event, context):\n                                await queue_put((sub_id, event))\n                                counter[\"count\"] += 1",
      "                            await queue_put((sub_id, event))\n                            counter[\"count\"] += 1", "C14.output"),
    M("c14-can-do-early-true", AUTH, "        can_do = True\n        if self.is_enabled:", "        can_do = True\n        if auth_token and auth_token.get(\"pubkey\"):\n            return True\n        if self.is_enabled:", "C14.can_do"),
    M("c14-can-do-or-default", AUTH, "auth_token.get(\"roles\", self.default_roles)", "auth_token.get(\"roles\") or self.default_roles", "C14.can_do"),
    M("c14-parse-options-unseeded", AUTH, "            Action.query.value: self.default_roles,\n", "", "C14.can_do"),
]

EQUIVS = [
    E("c14-eq-db-positive-form", DB,
      "        if not await self.authenticator.can_do(auth_token, Action.save.value, event):\n            raise AuthenticationError(\"restricted: permission denied\")\n",
      "        if await self.authenticator.can_do(auth_token, Action.save.value, event):\n            pass\n        else:\n            raise AuthenticationError(\"restricted: permission denied\")\n"),
]

# functions whose syntactic mutants are used for the thorough tier's sensitivity figure (sa/automut.py)
ANCHORS = [
    "nostr_relay.auth:Authenticator.can_do",
    "nostr_relay.auth:Authenticator.parse_options",
    "nostr_relay.storage.base:BaseStorage.subscribe",
    "nostr_relay.storage.db:DBStorage.add_event",
    "nostr_relay.storage.kv:LMDBStorage.add_event",
    "nostr_relay.storage.base:BaseSubscription.notify",
    "nostr_relay.storage.db:DBStorage.set_auth_roles",
    "nostr_relay.web:ViewEventResource.on_get",
]
