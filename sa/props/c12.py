"""C12 - a limit returns the newest matching events, never more than allowed.

  C12.model    NostrQuery.limit is declared int with ge=0 (a negative limit is `LIMIT -1` = unlimited on SQLite)
  C12.cap      the value reaching the cut-off passed min(., M) with M the configured maximum: SQL `LIMIT {…}`, LMDB QueryPlan.limit
  C12.zero     limit 0 is a limit: no truthiness test routes it to the default
  C12.order    order before truncation: SQL - ORDER BY created_at DESC precedes LIMIT in the one statement on every path; LMDB - no
               order-destroying container between the index scan and the counter
  C12.cutoff   LMDB: the `count == limit` test dominates the append; count is incremented per appended event
  C12.compose  SQL: the single LIMIT must be a monotone accumulation over the REQ's filters (last-wins truncates earlier filters)
"""
from __future__ import annotations

import ast
import re

from ..cfg import cfg_of
from ..core import (
    AnalysisError,
    ancestors,
    call_name,
    dotted,
    enclosing_stmt,
    finding_at,
    finding_func,
    norm,
    own_calls,
    qual_of,
    walk_no_nested,
)
from ..lib import NORMAL, must_pass, stores_of, strip_await, test_edges
from ..selftest import E, M

P = "C12"


def rule_model(program, ctx, prop=P, rid="C12.model"):
    ctx.rule(
        rid,
        "NostrQuery: `limit` is Optional[int] with Field(ge=0, …); since/until are Optional[int] with ge=0 and an upper bound lt=…",
        floor=3,
    )
    ci = program.cls("nostr_relay.storage.base:NostrQuery")
    seen = set()
    for st in ci.node.body:
        if isinstance(st, ast.AnnAssign) and isinstance(st.target, ast.Name) and st.target.id in ("limit", "since", "until"):
            name = st.target.id
            seen.add(name)
            ann = ast.unparse(st.annotation)
            val = st.value
            kw = {k.arg: k.value for k in val.keywords} if isinstance(val, ast.Call) and call_name(val) == "Field" else {}
            if "int" not in ann:
                ctx.bad(finding_at(prop, rid, st, f"NostrQuery.{name} is not int-typed"))
            elif not (isinstance(kw.get("ge"), ast.Constant) and kw["ge"].value == 0):
                ctx.bad(finding_at(prop, rid, st, f"NostrQuery.{name} lost its `ge=0` bound: a negative value is accepted" + (" (`LIMIT -1` is unlimited on SQLite: the max_limit cap is bypassed)" if name == "limit" else "")))
            elif name != "limit" and not (isinstance(kw.get("lt"), ast.Constant) and 0 < kw["lt"].value <= 2 ** 32):
                ctx.bad(finding_at(prop, rid, st, f"NostrQuery.{name} has no upper bound below 2**32: to_bytes(4) in the LMDB scanner overflows"))
            elif name == "limit" and any(k in kw for k in ("le", "lt", "gt", "multiple_of")):
                ctx.bad(finding_at(prop, rid, st, "NostrQuery.limit carries an upper bound / extra constraint: a client limit above the cap is meant to be *capped* when the query is built - "
                                   "as a validation bound it makes the whole filter invalid, subscribe() drops it silently and the REQ returns nothing for it"))
            else:
                ctx.ok(rid, st, f"NostrQuery.{name}: int, ge=0" + ("" if name == "limit" else f", lt={kw['lt'].value}"))
    mv = program.func("nostr_relay.storage.base:NostrQuery.model_validate")
    objp = mv.args.args[1].arg
    touched = []
    for n_ in walk_no_nested(mv):
        if isinstance(n_, ast.Call) and isinstance(n_.func, ast.Attribute) and n_.func.attr in ("pop", "__delitem__", "__setitem__", "update", "clear", "popitem", "setdefault") and dotted(n_.func.value) == objp:
            key = n_.args[0].value if n_.args and isinstance(n_.args[0], ast.Constant) else "?"
            if key != "tags":
                touched.append((n_, key))
        if isinstance(n_, (ast.Assign, ast.Delete, ast.AugAssign)):
            tg = n_.targets if isinstance(n_, (ast.Assign, ast.Delete)) else [n_.target]
            for t_ in tg:
                if isinstance(t_, ast.Subscript) and dotted(t_.value) == objp:
                    key = t_.slice.value if isinstance(t_.slice, ast.Constant) else "?"
                    if key != "tags":
                        touched.append((n_, key))
    if touched:
        for n_, key in touched:
            ctx.bad(finding_at(prop, rid, n_, f"model_validate rewrites the client's filter member `{key}` before pydantic sees it: a value pydantic would coerce (\"limit\": \"2\", 3.0) or "
                               "reject is silently replaced/dropped, and the filter runs with the default instead"))
    else:
        ctx.ok(rid, mv, "model_validate touches no filter member except 'tags'")
    for n in ("limit", "since", "until"):
        if n not in seen:
            ctx.bad(finding_at(prop, rid, ci.node, f"NostrQuery.{n} not declared", text=n))


def _is_capped(e, cap_names) -> bool:
    """min(<anything>, <cap>)"""
    return isinstance(e, ast.Call) and call_name(e) == "min" and len(e.args) >= 2 and any(dotted(a) in cap_names for a in e.args)


def rule_cap_zero_sql(program, ctx):
    rid = ctx.rule(
        "C12.cap",
        "value provenance of the cut-off: SQL - every binding of the variable interpolated after LIMIT is None, self.default_limit, or "
        "min(<filter>.limit, self.default_limit); LMDB - the 4th argument of QueryPlan is default_limit, Config.max_limit or "
        "min(query.limit, Config.max_limit); BaseSubscription.default_limit defaults to Config.max_limit and internal callers passing an "
        "explicit default_limit form a fixed set",
        floor=4,
    )
    rid0 = ctx.rule(
        "C12.zero",
        "falsy-zero: a presence test on `<filter>.limit` must be `is not None` (0 is a legal limit and must return no stored events)",
        floor=1,
    )
    ridc = ctx.rule(
        "C12.compose",
        "SQL: an assignment to the statement-wide limit inside the loop over the REQ's filters must accumulate monotonically (mention its own "
        "previous value: max/+); a plain re-assignment is last-filter-wins and truncates earlier filters below their own limit",
        floor=1,
    )
    bq = program.func("nostr_relay.storage.db:Subscription.build_query")
    # the variable after LIMIT
    var = None
    for j in walk_no_nested(bq):
        if isinstance(j, ast.JoinedStr):
            prev = ""
            for p in j.values:
                if isinstance(p, ast.Constant):
                    prev = str(p.value)
                elif isinstance(p, ast.FormattedValue) and re.search(r"LIMIT\s*$", prev):
                    var = p.value.id if isinstance(p.value, ast.Name) else None
    if var is None:
        ctx.bad(finding_func(P, rid, bq, "build_query no longer ends in `LIMIT {<variable>}`: stored results are unbounded", text="def build_query(...) :: LIMIT"))
    else:
        # the LIMIT variable and every local it is copied from (`effective = limit if limit is not None else self.default_limit`)
        chain, todo = [], [var]
        while todo:
            v_ = todo.pop()
            if v_ in chain:
                continue
            chain.append(v_)
            for st in stores_of(bq, v_):
                if isinstance(st, ast.Assign) and isinstance(st.value, ast.Name):
                    todo.append(st.value.id)
        all_stores = [(v_, st) for v_ in chain for st in stores_of(bq, v_)]
        for var, st in all_stores:
            v = st.value if isinstance(st, ast.Assign) else None
            if isinstance(v, ast.Constant) and v.value is None:
                continue
            if isinstance(v, ast.Name) and v.id in chain:
                continue
            if dotted(v) == "self.default_limit":
                ctx.ok(rid, st, f"{var} = self.default_limit")
            elif _is_capped(v, {"self.default_limit"}) or (isinstance(v, ast.Call) and call_name(v) in ("max", "min") and all(_is_capped(a, {"self.default_limit"}) or dotted(a) in (var, "self.default_limit") or (isinstance(a, ast.BoolOp)) for a in v.args) and any(_is_capped(a, {"self.default_limit"}) for a in ast.walk(v) if isinstance(a, ast.Call))):
                ctx.ok(rid, st, f"{var} = {ast.unparse(v)} (capped by self.default_limit)")
            else:
                ctx.bad(finding_at(P, rid, st, f"`{var}` (the SQL LIMIT) is bound to `{ast.unparse(v)[:60]}` without min(…, self.default_limit): a client limit above max_limit is honoured"))
            # composition across filters
            loop = next((a for a in ancestors(st) if isinstance(a, ast.For)), None)
            if loop is not None and "filters" in ast.unparse(loop.iter):
                mentions_self = any(isinstance(n, ast.Name) and n.id == var for n in ast.walk(v))
                if mentions_self:
                    ctx.ok(ridc, st, f"{var} accumulates over the filters")
                else:
                    ctx.bad(finding_at(P, ridc, st, label="REQ-wide LIMIT is last-filter-wins", message=f"`{var}` is re-assigned per filter (last filter wins): in a REQ with several filters an earlier filter is truncated to the last "
                                       "filter's limit, e.g. [{kinds:[1],limit:5},{kinds:[7],limit:1}] returns one event in total"))
            # zero
            guard = next((a for a in ancestors(st) if isinstance(a, ast.If)), None)
            if guard is not None and ".limit" in ast.unparse(guard.test):
                t = ast.unparse(guard.test)
                if re.fullmatch(r"\w+\.limit is not None", t):
                    ctx.ok(rid0, guard, f"`{t}`")
                else:
                    ctx.bad(finding_at(P, rid0, guard, f"`{t}` routes the legal limit 0 to the default limit: {{\"limit\": 0}} returns up to max_limit events"))
    # BaseSubscription default
    init = program.func("nostr_relay.storage.base:BaseSubscription.__init__")
    dflt = None
    args = init.args.args
    defaults = [None] * (len(args) - len(init.args.defaults)) + list(init.args.defaults)
    for a, d in zip(args, defaults):
        if a.arg == "default_limit":
            dflt = d
    assigned = [st.value for st in ast.walk(init) if isinstance(st, ast.Assign) and any(dotted(t) == "self.default_limit" for t in st.targets)]
    falls_back = any(
        (isinstance(v, ast.BoolOp) and isinstance(v.op, ast.Or) and dotted(v.values[0]) == "default_limit" and dotted(v.values[-1]) == "Config.max_limit")
        or (isinstance(v, ast.IfExp) and "default_limit" in ast.unparse(v) and "Config.max_limit" in ast.unparse(v))
        for v in assigned
    )
    if (dflt is not None and dotted(dflt) == "Config.max_limit" and any(dotted(v) == "default_limit" for v in assigned)) or falls_back:
        ctx.ok(rid, init, "BaseSubscription.default_limit defaults to Config.max_limit")
    else:
        ctx.bad(finding_func(P, rid, init, "BaseSubscription.default_limit no longer defaults to Config.max_limit", text="def __init__(...) :: default_limit"))
    # internal callers with an explicit default_limit
    # cli `query` is an operator command, not network reachable
    allowed = {"DBStorage.run_single_query", "LMDBStorage.run_single_query", "LMDBStorage.reindex", "executor", "query"}
    for m in program.modules.values():
        if m.rel.startswith("<dep>"):
            continue
        for c in ast.walk(m.tree):
            if isinstance(c, ast.Call) and any(k.arg == "default_limit" for k in c.keywords):
                q = qual_of(c)
                kv = next(k for k in c.keywords if k.arg == "default_limit")
                if q in allowed or dotted(kv.value) == "default_limit":
                    ctx.ok(rid, c, f"explicit default_limit in internal caller {q}", nontrivial=False)
                else:
                    ctx.bad(finding_at(P, rid, c, f"{q} overrides default_limit: a network-reachable query can exceed max_limit"))
    # subscribe must not forward a client-chosen default_limit
    sub = program.func("nostr_relay.storage.base:BaseStorage.subscribe")
    if any(isinstance(c, ast.Call) and call_name(c) == "storage.subscribe" for c in []):
        pass
    # LMDB
    pl = program.func("nostr_relay.storage.kv:planner")
    for c in walk_no_nested(pl):
        if isinstance(c, ast.Call) and call_name(c) == "QueryPlan":
            a = c.args[3] if len(c.args) > 3 else None
            exprs = [a]
            if isinstance(a, ast.Name):
                exprs = [s.value for s in stores_of(pl, a.id) if isinstance(s, ast.Assign)]
            def leaves(e):
                if isinstance(e, ast.IfExp):
                    return leaves(e.body) + leaves(e.orelse)
                return [e]

            exprs = [l for e in exprs for l in leaves(e)]
            for e in exprs:
                if dotted(e) in ("default_limit", "Config.max_limit") or _is_capped(e, {"Config.max_limit", "default_limit"}):
                    ctx.ok(rid, c, f"plan limit <- {ast.unparse(e)}")
                else:
                    ctx.bad(finding_at(P, rid, e if hasattr(e, "_module") else c, f"the LMDB plan's limit is `{ast.unparse(e)[:60]}`: the client's limit is not capped by max_limit"))
                if isinstance(e, ast.BoolOp) and any(".limit" in ast.unparse(v) for v in e.values[:-1]):
                    ctx.bad(finding_at(P, rid0, c, "the client's limit is tested by truthiness (`or`): limit 0 falls back to the default"))
    for st in walk_no_nested(pl):
        if isinstance(st, ast.If) and ".limit" in ast.unparse(st.test):
            t = ast.unparse(st.test)
            core = st.test
            while isinstance(core, ast.UnaryOp) and isinstance(core.op, ast.Not):
                core = core.operand
            if re.fullmatch(r"\w+\.limit is (not )?None", ast.unparse(core)):
                ctx.ok(rid0, st, f"`{t}`")
            else:
                ctx.bad(finding_at(P, rid0, st, f"`{t}`: truthiness test on the client's limit (0 is a legal limit)"))


def rule_order(program, ctx):
    rid = ctx.rule(
        "C12.order",
        "SQL: the template that appends LIMIT also contains `ORDER BY created_at DESC` before it (or an ORDER BY append dominates the LIMIT "
        "append); LMDB: a scanner must not pass the index hits through a set/dict before they are counted (newest-first order is what makes "
        "the survivors of the cut-off the newest)",
        floor=1,
    )
    bq = program.func("nostr_relay.storage.db:Subscription.build_query")
    cfg = cfg_of(bq)
    limit_nodes, order_nodes = [], {}
    for n, d in cfg.g.nodes(data=True):
        s = d["ast"]
        if s is None or d["kind"] != "stmt":
            continue
        txt = " ".join(str(k.value) for k in ast.walk(s) if isinstance(k, ast.Constant) and isinstance(k.value, str))
        mo = re.search(r"ORDER\s+BY\s+created_at\s+DESC", txt, re.I)
        ml = re.search(r"\bLIMIT\b", txt)
        if re.search(r"ORDER\s+BY", txt, re.I) and not mo:
            ctx.bad(finding_at(P, rid, s, "stored results are ordered by something other than created_at DESC before truncation"))
        if ml and mo and mo.start() < ml.start():
            ctx.ok(rid, s, "ORDER BY created_at DESC … LIMIT in one template")
            order_nodes[n] = set(NORMAL)
            continue
        if mo:
            order_nodes[n] = set(NORMAL)
        if ml:
            limit_nodes.append(n)
    for ln in limit_nodes:
        if must_pass(cfg, order_nodes, [ln]):
            ctx.bad(finding_at(P, rid, cfg.ast_of(ln), "LIMIT is applied on a path that did not append `ORDER BY created_at DESC`: the engine truncates in arbitrary (index) order, "
                               "so older events are returned while newer matching ones are left out"))
        else:
            ctx.ok(rid, cfg.ast_of(ln), "ORDER BY created_at DESC appended on every path before LIMIT")
    if not limit_nodes and not order_nodes:
        ctx.bad(finding_func(P, rid, bq, "no ORDER BY/LIMIT in the statement", text="def build_query(...) :: order"))
    kv = program.module("nostr_relay.storage.kv")
    for fn in [f for f in ast.walk(kv.tree) if isinstance(f, ast.FunctionDef) and f.name in ("scanner", "iterator")]:
        for s in walk_no_nested(fn):
            if isinstance(s, ast.Assign) and isinstance(s.value, ast.Call) and call_name(s.value) in ("set", "frozenset", "dict") and s.value.args:
                src = dotted(s.value.args[0])
                later = [y for y in walk_no_nested(fn) if isinstance(y, (ast.YieldFrom, ast.For)) and any(isinstance(t, ast.Name) and t.id in [x.id for x in s.targets if isinstance(x, ast.Name)] for t in ast.walk(y.value if isinstance(y, ast.YieldFrom) else y.iter))]
                if later and "scanner" in src or src == "scanner":
                    ctx.bad(finding_at(P, rid, s, label="index hits pass through a set before the cut-off", message=f"{qual_of(fn)}: index hits pass through `{ast.unparse(s.value)}` before being yielded: the newest-first order of the cursor walk is destroyed, "
                                       "so after the count == limit cut-off the survivors are not the newest matching events"))
    ctx.ok(rid, program.func("nostr_relay.storage.kv:Index.scanner"), "Index.scanner walks with cursor.prev (newest first) and yields directly", nontrivial=False)


def rule_cutoff(program, ctx):
    rid = ctx.rule(
        "C12.cutoff",
        "kv.execute_one_plan: `on_event(event)` is reachable only through the false edge of `count == limit` (or >=) with limit = plan.limit; "
        "count += 1 follows each append",
        floor=1,
    )
    fn = program.func("nostr_relay.storage.kv:execute_one_plan")
    cfg = cfg_of(fn)
    lim = [s for s in stores_of(fn, "limit") if isinstance(s, ast.Assign)]
    if not lim or any(dotted(s.value) != "plan.limit" for s in lim):
        ctx.bad(finding_func(P, rid, fn, "`limit` is not plan.limit", text="def execute_one_plan(...) :: limit"))

    def under(expr, pol):
        if isinstance(expr, ast.Compare) and len(expr.ops) == 1 and dotted(expr.left) == "count" and dotted(expr.comparators[0]) == "limit":
            return (isinstance(expr.ops[0], (ast.Eq, ast.GtE)) and not pol) or (isinstance(expr.ops[0], ast.Lt) and pol)
        return False

    passes = test_edges(cfg, under)
    apps = cfg.stmt_nodes(lambda s: any(call_name(c) in ("on_event", "events.append") for c in own_calls(s)), kinds=("stmt",))
    if not apps:
        ctx.bad(finding_func(P, rid, fn, "no append of matched events", text="def execute_one_plan(...) :: append"))
    for a in apps:
        if must_pass(cfg, passes, [a]):
            ctx.bad(finding_at(P, rid, cfg.ast_of(a), "an event is appended without `count < limit` having been established: more than `limit` events are returned"))
        else:
            ctx.ok(rid, cfg.ast_of(a), "append only while count < limit")
        # count increment follows
        succ = cfg.reach(list(cfg.succ(a, kinds=NORMAL)), kinds=NORMAL)
        incs = cfg.stmt_nodes(lambda s: isinstance(s, ast.AugAssign) and dotted(s.target) == "count" and isinstance(s.op, ast.Add), kinds=("stmt",))
        loop = next((n for n, d in cfg.g.nodes(data=True) if d["kind"] == "loop"), None)
        if incs and loop is not None and not cfg.find_path(list(cfg.succ(a, kinds=NORMAL)), [loop], avoid_nodes=incs, kinds=NORMAL):
            ctx.ok(rid, cfg.ast_of(a), "count += 1 after every append")
        else:
            ctx.bad(finding_at(P, rid, cfg.ast_of(a), "the counter is not incremented for every appended event"))


def _toplevel_imports(program, m):
    """modules of the package executed when module m is imported (its own top-level import statements, resolved; parents' __init__ included)"""
    out = set()

    def add(modname):
        parts = modname.split(".")
        for i in range(1, len(parts) + 1):
            cand = ".".join(parts[:i])
            if cand in program.modules:
                out.add(cand)

    def walk(stmts):
        for st in stmts:
            if isinstance(st, (ast.FunctionDef, ast.AsyncFunctionDef, ast.ClassDef)):
                continue
            if isinstance(st, ast.Import):
                for a in st.names:
                    add(a.name)
            elif isinstance(st, ast.ImportFrom):
                base = st.module or ""
                if st.level:
                    parts = m.name.split(".")
                    pkgparts = parts if m.path.endswith("__init__.py") else parts[:-1]
                    anchor = pkgparts[: len(pkgparts) - (st.level - 1)]
                    base = ".".join(anchor + ([st.module] if st.module else []))
                add(base)
                for a in st.names:
                    add(f"{base}.{a.name}")
            else:
                if isinstance(st, ast.If) and dotted(st.test).split(".")[-1] == "TYPE_CHECKING":
                    # never executed at run time (typing.TYPE_CHECKING is False): only the else branch counts
                    walk(st.orelse)
                    continue
                for field in ("body", "orelse", "finalbody"):
                    sub = getattr(st, field, None)
                    if isinstance(sub, list):
                        walk(sub)
                for h in getattr(st, "handlers", []) or []:
                    walk(h.body)

    walk(m.tree.body)
    out.discard(m.name)
    return out


def rule_import(program, ctx, prop=P, rid="C12.import"):
    ctx.rule(
        rid,
        "configuration is read before it is frozen: storage/base.py copies Config.max_limit into class-level defaults at *import* time (BaseSubscription.default_limit, "
        "NostrQuery.limit). Every module that calls Config.load() inside a function (web.create_app, purple, cli) must therefore not import storage.base - directly or "
        "through the top-level imports of other package modules - when it is itself imported; today the storage package is imported lazily, after Config.load",
        floor=1,
    )
    frozen = set()
    for name, m in program.modules.items():
        if m.rel.startswith("<dep>"):
            continue

        def visit(node):
            for ch in ast.iter_child_nodes(node):
                if isinstance(ch, (ast.FunctionDef, ast.AsyncFunctionDef)):
                    for d in list(ch.args.defaults) + [k for k in ch.args.kw_defaults if k is not None]:
                        for n in ast.walk(d):
                            if isinstance(n, ast.Attribute) and dotted(n) == "Config.max_limit":
                                frozen.add(name)
                    continue
                if isinstance(ch, ast.Lambda):
                    continue
                if isinstance(ch, ast.Attribute) and dotted(ch) == "Config.max_limit":
                    frozen.add(name)
                visit(ch)

        visit(m.tree)
    if not frozen:
        ctx.info(rid, program.module("nostr_relay.storage.base").tree, "no import-time read of Config.max_limit any more: nothing to order")
        ctx.floors[rid] = 0
        return
    closure_cache = {}

    def closure(name):
        seen, todo = set(), [name]
        while todo:
            x = todo.pop()
            if x in seen or x not in program.modules:
                continue
            seen.add(x)
            if x not in closure_cache:
                closure_cache[x] = _toplevel_imports(program, program.modules[x])
            todo.extend(closure_cache[x])
        return seen

    for name, m in program.modules.items():
        if m.rel.startswith("<dep>"):
            continue
        loads = [c for f in ast.walk(m.tree) if isinstance(f, (ast.FunctionDef, ast.AsyncFunctionDef)) for c in walk_no_nested(f) if isinstance(c, ast.Call) and call_name(c) == "Config.load"]
        if not loads:
            continue
        hit = sorted(closure(name) & frozen)
        if hit:
            # witness chain
            chain = [name]
            cur = name
            seen = {name}
            while cur not in frozen:
                nxt = next((y for y in sorted(closure_cache.get(cur, ())) if y not in seen and (closure(y) & frozen)), None)
                if nxt is None:
                    break
                chain.append(nxt)
                seen.add(nxt)
                cur = nxt
            ctx.bad(finding_at(prop, rid, loads[0], f"importing {name} already imports {hit[0]} ({' -> '.join(chain)}): Config.max_limit is copied into the limit defaults before "
                               f"this Config.load() reads the configuration file - the configured max_limit is ignored (the cap stays at the built-in default)", text=f"{name} imports {hit[0]}"))
        else:
            ctx.ok(rid, loads[0], f"{name}: Config.load() runs before {sorted(frozen)} is first imported")


def rule_inner_limit(program, ctx, prop=P, rid="C12.inner"):
    ctx.rule(
        rid,
        "SQL: LIMIT is applied once, to the ordered result (build_query: ORDER BY created_at DESC LIMIT n) - no LIMIT inside the per-filter WHERE fragments that "
        "evaluate_filter assembles (an un-ordered sub-select with LIMIT keeps arbitrary rows, not the newest)",
        floor=1,
    )
    fn = program.func("nostr_relay.storage.db:Subscription.evaluate_filter")
    hits = []
    for n in walk_no_nested(fn):
        if isinstance(n, ast.Constant) and isinstance(n.value, str) and re.search(r"\blimit\b", n.value, re.I):
            par = getattr(n, "_parent", None)
            if isinstance(par, ast.Call) and dotted(par.func).split(".")[-1] in ("debug", "info", "warning", "error", "exception"):
                continue
            hits.append(n)
    if hits:
        ctx.bad(finding_at(prop, rid, hits[0], "evaluate_filter puts a LIMIT inside a filter's WHERE fragment: the rows of that sub-select are cut off in storage order before the outer "
                           "ORDER BY created_at DESC LIMIT n sees them - the newest matching events are no longer the ones returned"))
    else:
        ctx.ok(rid, fn, "no LIMIT inside the WHERE fragments")


def rule_once(program, ctx, prop=P, rid="C12.once"):
    ctx.rule(
        rid,
        "SQL: the streaming SELECT of a stored query is executed once per run_query call - the `yield` of DBStorage.run_query is not inside a retry loop around "
        "`conn.stream(query)`: rows already yielded would be sent again, more than `limit` events before EOSE",
        floor=1,
    )
    fn = program.func("nostr_relay.storage.db:DBStorage.run_query")
    ys = [y for y in walk_no_nested(fn) if isinstance(y, (ast.Yield, ast.YieldFrom))]
    if not ys:
        ctx.bad(finding_func(prop, rid, fn, "DBStorage.run_query no longer yields rows", text="def run_query(...) :: yield"))
    for y in ys:
        loops = [a for a in ancestors(y) if isinstance(a, (ast.For, ast.While, ast.AsyncFor))]
        outer = [l for l in loops if not (isinstance(l, ast.AsyncFor) and "result" in ast.unparse(l.iter))]
        streams = [a for a in ancestors(y) if isinstance(a, ast.AsyncWith) and "stream(" in ast.unparse(a.items[0].context_expr)]
        if outer and any(any(l is x for x in ancestors(s_)) for l in outer for s_ in streams):
            ctx.bad(finding_at(prop, rid, outer[0], "the streaming SELECT sits inside a loop: after an error part-way through the result the statement is executed again and the rows "
                               "already sent are sent a second time (more events than the limit, duplicates)"))
        else:
            ctx.ok(rid, y, "rows are yielded from a single execution of the statement")


def rule_limitstore(program, ctx, prop=P, rid="C12.limitstore"):
    ctx.rule(
        rid,
        "a filter's limit is what the client sent: nothing outside the NostrQuery model assigns `<query>.limit` (a default filled in with a truthiness test turns the legal "
        "`limit: 0` into the default; the cap by max_limit is applied where the stored query is built, not by rewriting the filter)",
        floor=1,
    )
    n = 0
    for fn in {id(f): f for f in program.functions.values()}.values():
        m = getattr(fn, "_module", None)
        if m is None or not m.name.startswith("nostr_relay"):
            continue
        for s_ in walk_no_nested(fn):
            tg = s_.targets if isinstance(s_, ast.Assign) else [s_.target] if isinstance(s_, (ast.AugAssign, ast.AnnAssign)) else []
            for t in tg:
                if isinstance(t, ast.Attribute) and t.attr == "limit" and not (isinstance(t.value, ast.Name) and t.value.id in ("self", "plan")):
                    n += 1
                    ctx.bad(finding_at(prop, rid, s_, f"{qual_of(fn)} rewrites a filter's limit (`{ast.unparse(s_)[:60]}`): the number of stored events sent no longer follows the client's limit "
                                       "(0, or a limit larger than the matching set)"))
            if isinstance(s_, ast.Expr) and isinstance(s_.value, ast.Call) and call_name(s_.value) == "setattr" and len(s_.value.args) == 3 and isinstance(s_.value.args[1], ast.Constant) and s_.value.args[1].value == "limit":
                ctx.bad(finding_at(prop, rid, s_, f"{qual_of(fn)} rewrites a filter's limit through setattr"))
    ctx.ok(rid, program.cls("nostr_relay.storage.base:NostrQuery").node, "no store to <filter>.limit outside the model")


def rule_plain_send(program, ctx, prop=P, rid="C12.plainsend"):
    ctx.rule(
        rid,
        "the stored events a query selected are all written to the socket: start_client hands send_subscriptions the connection's own `ws_send`, not a wrapper that can abandon "
        "a frame (a send timeout raises inside the sender's catch-all `except Exception: log` - that one EVENT is dropped, the older ones and EOSE still go out: a newer "
        "matching event is missing from a limit-n answer)",
        floor=1,
    )
    sc = program.func("nostr_relay.web:start_client")
    reb = [s_ for s_ in stores_of(sc, "ws_send")]
    for s_ in reb:
        ctx.bad(finding_at(prop, rid, s_, f"start_client re-binds ws_send (`{ast.unparse(s_)[:60]}`): the sender task writes through the wrapper"))
    calls = [c for c in ast.walk(sc) if isinstance(c, ast.Call) and call_name(c) == "send_subscriptions"]
    for c in calls:
        if len(c.args) >= 2 and dotted(c.args[1]) == "ws_send" and not reb:
            ctx.ok(rid, c, "send_subscriptions(<queue get>, ws_send, log) with the connection's own send function")
        elif len(c.args) < 2 or dotted(c.args[1]) != "ws_send":
            ctx.bad(finding_at(prop, rid, c, f"send_subscriptions is given `{ast.unparse(c.args[1])[:40] if len(c.args) > 1 else ''}` instead of the connection's ws_send"))
    if not calls:
        raise AnalysisError("start_client no longer starts send_subscriptions")
    ss = program.func("nostr_relay.web:send_subscriptions")
    for w in walk_no_nested(ss):
        if isinstance(w, (ast.With, ast.AsyncWith)) and any(isinstance(it.context_expr, ast.Call) and call_name(it.context_expr).split(".")[-1] in ("timeout", "timeout_at") for it in w.items):
            ctx.bad(finding_at(prop, rid, w, "the sender abandons a frame after a timeout: that stored event is not delivered"))
        if isinstance(w, ast.Call) and call_name(w).split(".")[-1] == "wait_for":
            ctx.bad(finding_at(prop, rid, w, "the sender abandons a frame after a timeout (wait_for): that stored event is not delivered - or is written twice when retried"))


def run(program, ctx):
    from .c13 import rule_every_item_sent
    from ..lib import rule_awaited

    rule_awaited(program, ctx, P, ANCHORS)
    rule_model(program, ctx)
    rule_cap_zero_sql(program, ctx)
    rule_order(program, ctx)
    rule_cutoff(program, ctx)
    rule_import(program, ctx)
    rule_inner_limit(program, ctx)
    from . import c02

    c02.rule_skips(program, ctx, prop=P, rid="C12.plan")
    rule_once(program, ctx)
    ctx.not_decided += [
        "that the reverse cursor walk yields descending created_at for one match value (scanner arithmetic)",
        "for LMDB plans with several match values the per-value runs are concatenated, not merged, before the cut-off (part of the known finding on MultiIndex/plan order)",
    ]
    ctx.rule("C12.sender", "the sender forwards every pair the stored query queued: send_subscriptions has no path from the dequeue to the loop head without ws_send", floor=1)
    rule_every_item_sent(program, ctx, prop=P, rid="C12.sender")
    rule_limitstore(program, ctx)
    rule_plain_send(program, ctx)
    from . import c10 as _c10, c14 as _c14

    # the newest-first cut-off walks the created_at keys: a clamped / lossy timestamp key orders events by id instead
    _c10.rule_injective(program, ctx, prop=P, rid="C12.index")
    # a wrapper around the configured output validator that can raise mid-stream ends the stream at that row
    _c14.rule_validator_object(program, ctx, prop=P, rid="C12.validator")
    from .c01 import rule_hex_total
    rule_hex_total(program, ctx, prop=P, rid="C12.hextotal")


DB = "nostr_relay/storage/db.py"
KV = "nostr_relay/storage/kv.py"
BASE = "nostr_relay/storage/base.py"

MUTANTS = [
    M("c12-sender-gets-wrapper", "nostr_relay/web.py", "                            send_subscriptions(subscription_queue.get, ws_send, log)", "                            send_subscriptions(subscription_queue.get, lambda m: asyncio.wait_for(ws_send(m), 5), log)", "C12.plainsend"),
    M("c12-sender-skips-after-close", "nostr_relay/web.py", "            if event is not None:\n                message = event_as_json(sub_id, event)", "            if event is not None:\n                if not event.content:\n                    continue\n                message = event_as_json(sub_id, event)", "C12.sender"),
    M("c12-skip-short-id", "nostr_relay/storage/base.py", "        if len(hexid) < 64:\n            raise ValueError(f\"'{hexid}' too small\")", "        if len(hexid) < 64:\n            continue", "C12.hextotal"),
    M("c12-sql-no-min", DB, "limit = min(filter_obj.limit, self.default_limit)", "limit = filter_obj.limit", "C12.cap", canary=True),
    M("c12-sql-limit-truthy", DB, "            if filter_obj.limit is not None:", "            if filter_obj.limit:", "C12.zero"),
    M("c12-kv-uncapped", KV, "            limit = min(query.limit, Config.max_limit)", "            limit = query.limit", "C12.cap"),
    M("c12-kv-or", KV, "        if default_limit:\n            limit = default_limit\n        elif query.limit is None:\n            limit = Config.max_limit\n        else:\n            # cap the client's limit like the SQL backend does\n            limit = min(query.limit, Config.max_limit)\n",
      "        limit = default_limit or query.limit\n", "C12.cap"),
    M("c12-ge0-dropped", BASE, "limit: typing.Optional[int] = Field(ge=0, default=Config.max_limit)", "limit: typing.Optional[int] = Field(default_factory=lambda: Config.max_limit)", "C12.model"),
    M("c12-order-asc", DB, "            ORDER BY created_at DESC\n", "            ORDER BY created_at ASC\n", "C12.order"),
    M("c12-order-conditional", DB, "        select += f\"\"\"\n            ORDER BY created_at DESC\n            LIMIT {limit}\n        \"\"\"",
      "        if not all(f.ids for f in new_filters):\n            select += \" ORDER BY created_at DESC\"\n        select += f\" LIMIT {limit}\"", "C12.order"),
    M("c12-append-before-test", KV, "                    if count == limit:\n                        break\n                    on_event(event)\n", "                    on_event(event)\n                    if count == limit:\n                        break\n", "C12.cutoff"),
    M("c12-default-limit-client", BASE, "        default_limit=Config.max_limit,", "        default_limit=None,", "C12.cap"),
]
EQUIVS = [
    E("c12-eq-gte", KV, "                    if count == limit:", "                    if count >= limit:"),
]

# functions whose syntactic mutants are used for the thorough tier's sensitivity figure (sa/automut.py)
ANCHORS = [
    "nostr_relay.storage.db:Subscription.build_query",
    "nostr_relay.storage.kv:planner",
    "nostr_relay.storage.kv:execute_one_plan",
]
